#!/venv/bin/python
"""Behaviour-preserving rename of locals (of the daily step and of selected process functions) on a scratch copy;
every check must stay at exit 0.  usage: tools/rename_twin.py [ids...]"""
import ast, io, os, re, sys, tokenize
sys.path.insert(0, os.path.dirname(os.path.dirname(os.path.abspath(__file__))))
from concurrent.futures import ThreadPoolExecutor
from sa.mutate import Scratch

RENAMES = {
    "aquacrop/timestep/run_single_timestep.py": {
        "Irr": "irr_applied", "IrrNet": "net_req", "IrrDay": "irr_today", "IrrTot": "irr_season", "PreIrr": "pre_depth",
        "Tr": "tr_act", "TrPot": "tr_pot", "Es": "es_act", "EsPot": "es_pot", "CR": "cap_rise", "GwIn": "gw_in",
        "DeepPerc": "deep_perc", "Runoff": "run_off", "Infl": "infl", "FluxOut": "flux_out", "RunoffIni": "runoff0",
        "Wr": "w_root", "NewCond": "state", "Et0": "eto", "precipitation": "rain", "gdd": "gdd_today",
    },
    "aquacrop/solution/irrigation.py": {"Irr": "depth_mm", "IrrReq": "req", "EffAdj": "eff"},
    "aquacrop/solution/infiltration.py": {"ToStore": "to_store", "RunoffIni": "runoff0", "InflTot": "infl_tot", "precomp": "above", "excess": "backed_up"},
    # locals the round-8 rules look at (T-LOOP, C05.i/j/k, C07.k, C08.b shared local, adjusted-FC agreement with its sibling renamed alike)
    "aquacrop/initialize/calculate_HIGC.py": {"HIest": "hi_est", "HIGC": "coef", "tHI": "t_form"},
    "aquacrop/utils/prepare_gdd.py": {"first_planting_date": "plant_dt", "current_year": "yr", "next_planting_date": "next_dt"},
    "aquacrop/solution/root_development.py": {"tOld": "t_prev", "tAdj": "t_now", "EndProf": "done", "layeri": "lay", "ZrOld": "z_prev"},
    "aquacrop/initialize/read_model_parameters.py": {"mock_simulation_end_date": "end_md", "mock_simulation_start_date": "plant_md",
                                                     "last_simulation_year_does_not_start": "drop_last", "mature": "offset_days", "start_end_years": "yrs"},
    "aquacrop/solution/canopy_cover.py": {"CCsen": "cc_sen", "dtCC": "dt_cc", "tCCadj": "t_cc"},
    "aquacrop/initialize/compute_crop_calendar.py": {"tCGC": "t_growth", "tGDD": "t_decl", "tCD": "t_decl_cd"},
    "aquacrop/solution/capillary_rise.py": {"compi": "k", "WCr": "w_cr"},
    "aquacrop/solution/soil_evaporation.py": {"comp": "ci", "Wcheck": "w_lim"},
    # locals the round-9..11 rules look at
    "aquacrop/solution/pre_irrigation.py": {"PreIrr": "pre_depth", "thCrit": "th_target"},
    "aquacrop/solution/HIadj_pre_anthesis.py": {"Br": "b_ratio", "ratio_low": "r_lo", "ratio_upp": "r_up"},
    "aquacrop/solution/transpiration.py": {"Sink": "uptake", "ThToExtract": "th_need", "dWC": "refill"},
    "aquacrop/solution/drainage.py": {"thX": "th_thr", "drainsum": "dsum"},
    "aquacrop/initialize/read_model_initial_conditions.py": {"hydf": "per_layer", "compdf": "row"},
}


def rename(text, mp):
    """token-level rename of NAME tokens that are not attribute names (not preceded by '.') and not keyword-argument names"""
    toks = list(tokenize.generate_tokens(io.StringIO(text).readline))
    out = []
    for i, t in enumerate(toks):
        if t.type == tokenize.NAME and t.string in mp:
            prev = toks[i - 1] if i else None
            nxt = toks[i + 1] if i + 1 < len(toks) else None
            if prev is not None and prev.string == ".":
                out.append(t); continue
            out.append(t._replace(string=mp[t.string]))
        else:
            out.append(t)
    # rebuild preserving layout by positional replace, right to left per line
    lines = text.split("\n")
    edits = [(t.start, t.end, o.string) for t, o in zip(toks, out) if t.string != o.string]
    for (sl, sc), (el, ec), new in sorted(edits, reverse=True):
        ln = lines[sl - 1]
        lines[sl - 1] = ln[:sc] + new + ln[ec:]
    return "\n".join(lines)


def main():
    ids = sys.argv[1:] or [f"C{i:02d}" for i in range(1, 21) if i != 17]
    with Scratch() as s:
        for rel, mp in RENAMES.items():
            src = s.read(rel)
            # keyword arguments foo=foo at call sites of other functions keep the callee's name: skip names used as keywords
            tree = ast.parse(src)
            kws = {k.arg for n in ast.walk(tree) if isinstance(n, ast.Call) for k in n.keywords if k.arg}
            params = {a.arg for n in ast.walk(tree) if isinstance(n, ast.FunctionDef) for a in n.args.args}
            mp = {k: v for k, v in mp.items() if k not in kws and k not in params}
            new = rename(src, mp)
            ast.parse(new)
            s.write(rel, new)
        def one(pid):
            rc, out = s.check(pid)
            return pid, rc, out
        bad = 0
        with ThreadPoolExecutor(8) as ex:
            for pid, rc, out in ex.map(one, ids):
                last = [l for l in out.strip().splitlines() if l.startswith(("OK", "VIOLATION", "ANALYSIS", "FAIL"))][-3:]
                print(pid, rc, " | ".join(last)[:300])
                if rc != 0:
                    bad += 1
                    open(f"/tmp/w/rename_{pid}.log", "w").write(out)
        print("bad:", bad)
        return 1 if bad else 0

if __name__ == "__main__":
    sys.exit(main())
