#!/venv/bin/python
"""Generate /verif/MANIFEST.json from the property modules that exist (sa/props/cXX.py with a CLAIM dict)."""
import importlib, json, os, sys
sys.path.insert(0, "/verif")
props = [json.loads(l) for l in open("/verif/properties.jsonl")]
NA = {
    "C17": "boundedness / monotonicity of the stress, temperature, canopy and CO2 response functions over continuous arguments is a numerical fact about compositions of exp/log/power; no sound static abstract domain in reach proves it and no clause of it is visible in the shape of the code beyond the divisor pre-conditions already checked under C05.b / C16.c (static analysis not applicable; see DESIGN.md section 4)",
}
TECH = {
 "C01": "static analysis: effect (who-may-write) analysis + polynomial normal-form dataflow (per-store conservation, linear templates)",
 "C02": "static analysis: forward relational dataflow with polynomial normal forms and linear templates",
 "C03": "static analysis: must-pass-through on the CFG with index agreement; path-wise guard (edge removal)",
 "C04": "static analysis: interprocedural constant / sign abstract interpretation with order facts",
 "C05": "static analysis: interprocedural constant propagation; literal-table evaluation over 37 crops; sibling cross-check",
 "C06": "static analysis: polynomial normal forms, reaching definitions, typestate by control dependence, column/provenance agreement",
 "C07": "static analysis: who-may-write, finite abstract-state enumeration with abstract interpretation, alias lint",
 "C08": "static analysis: information-flow (taint) abstract interpretation of the first day of a season; alias/effect analysis",
 "C09": "static analysis: must-pass-through / control dependence on the driver CFG (sibling drivers)",
 "C10": "static analysis: audit of process-global mutable state via effect analysis; nondeterminism-source lint",
 "C11": "static analysis: who-may-write on user-owned access paths with re-checked idempotence conditions; kind typestate",
 "C12": "static analysis: flow-sensitive access-path effect analysis (who-may-write) over the call graph below the step",
 "C13": "static analysis: constant propagation, reaching definitions + dominance, normal-form equivalence of the cap, index-space agreement",
 "C14": "static analysis: access-path read discipline + control dependence + dominance",
 "C15": "static analysis: provenance of positional reads (access paths) and structural row-selection rule",
 "C16": "static analysis: definite assignment by abstract interpretation over finite flag domains and order abstraction; table evaluation; sibling cross-check",
 "C18": "static analysis: literal-table checks, order-fact abstract interpretation, column def-use graph",
 "C19": "static analysis: interprocedural constant propagation; effect ordering on the step CFG; index agreement",
 "C20": "static analysis: must-pass-through switch guards followed through formals; normal forms / constant propagation at neutral values",
}
checks, na = [], []
for p in props:
    pid = p["id"]
    path = f"/verif/sa/props/{pid.lower()}.py"
    if pid in NA or not os.path.exists(path):
        na.append({"property_id": pid, "reason": NA.get(pid, "check not built yet (build in progress); see DESIGN.md section 3")})
        continue
    mod = importlib.import_module(f"sa.props.{pid.lower()}")
    claim = getattr(mod, "CLAIM", {})
    checks.append({
        "property_id": pid,
        "quick_cmd": f"./check {pid} --tier quick",
        "thorough_cmd": f"./check {pid} --tier thorough",
        "evidence_file": f"/verif/evidence/{pid}.json",
        "replay_cmd_template": f"./check {pid} --replay {{path}}",
        "engine": "sa",
        "level_claimed": {"category": "other",
                          "text": claim.get("text", mod.EXPLANATION),
                          "design_ref": f"DESIGN.md section 3, {pid}"},
        "level_note": claim.get("note", "Static structural verification: decides the listed clauses for all inputs from the source; "
                                        "trusted base = CPython ast parser, the checker itself, documented flag domains and the named "
                                        "assumptions echoed in the evidence file; numpy/pandas semantics per the view/copy table. "
                                        "Clauses marked NOT decided are not claimed."),
        "technique": claim.get("technique", TECH.get(pid, "static analysis")),
    })
m = {"version": 1, "setup_cmd": "true",
     "hooks": {"guard": "AQUACROP_VERIF", "enable": "none needed: the checks only parse /repo's sources (static analysis); no hook exists in /repo",
               "baseline_off_cmd": "cd /repo && /venv/bin/python -m pytest -ra -q -p no:cacheprovider --timeout=900 --continue-on-collection-errors",
               "source_commits": [], "add_only": True},
     "engines": [{"name": "sa", "path": "/verif/sa", "serves_properties": [c["property_id"] for c in checks],
                  "kind_free_text": "repository-specific static analyser on the Python ast: call graph, statement CFG with dominators / control dependence, reaching definitions, flow-sensitive access-path (alias/effect) propagation, abstract interpretation (constants, signs, point-algebra order facts, finite flag domains, taint) with interprocedural inlining, polynomial normal forms, literal-table evaluation"}],
     "checks": checks,
     "notes": "All checks are static (nothing under /repo is imported or executed). Exit 0 = held (KNOWN-FINDING lines allowed), 1 = VIOLATION, 2 = ANALYSIS-ERROR (analysis broken, no verdict). See DESIGN.md.",
     "not_applicable": na}
json.dump(m, open("/verif/MANIFEST.json", "w"), indent=1)
print(len(checks), "checks;", len(na), "not applicable")
