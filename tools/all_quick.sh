#!/bin/bash
# run every claimed check (quick tier) on the current tree, 8 at a time; print one line each
cd /verif
ids=$(/venv/bin/python -c "import json;print(' '.join(c['property_id'] for c in json.load(open('MANIFEST.json'))['checks']))")
tier=${1:-quick}
printf "%s\n" $ids | xargs -P 8 -I{} sh -c "./check {} --tier $tier > /tmp/w/all_{}.log 2>&1; echo \"{} exit=\$? \$(grep -c KNOWN-FINDING /tmp/w/all_{}.log) known | \$(tail -1 /tmp/w/all_{}.log | cut -c1-150)\"" | sort
