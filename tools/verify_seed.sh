#!/bin/bash
# verify_seed.sh <id> [round] : scratch worktree /tmp/wt_<id> (made with git -C /repo worktree add) holds a sub-agent's uncommitted change + demo.py;
# copies patch.diff + demo.py to seeded/<id>-r12, runs the demo on the clean tree, applies the patch, runs the tests and the demo again
id=$1; wt=/tmp/wt_$id; out=/verif/seeded/$id-r12
mkdir -p $out
cd $wt || exit 2
git diff -- aquacrop > $out/patch.diff
cp demo.py $out/demo.py
git checkout -- aquacrop
PYTHONPATH=$wt /venv/bin/python demo.py $wt > /tmp/demo_clean_$id.log 2>&1; echo "demo_clean_exit=$?"
git apply $out/patch.diff || exit 2
PYTHONPATH=$wt /venv/bin/python -m pytest -q -p no:cacheprovider --timeout=900 tests 2>&1 | tail -1
PYTHONPATH=$wt /venv/bin/python demo.py $wt > /tmp/demo_seed_$id.log 2>&1; echo "demo_seed_exit=$?"
tail -3 /tmp/demo_seed_$id.log
git diff --stat -- aquacrop
