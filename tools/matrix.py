#!/venv/bin/python
"""Run every check against every seeded change (on scratch copies) and print / store the detection matrix."""
import json, os, sys, glob
sys.path.insert(0, "/verif")
from concurrent.futures import ThreadPoolExecutor
from sa.mutate import Scratch
checks = [c["property_id"] for c in json.load(open("/verif/MANIFEST.json"))["checks"]]
seeds = sorted(glob.glob("/verif/seeded/*/patch.diff"))
only = sys.argv[1:]
jobs = []
for s in seeds:
    sid = os.path.basename(os.path.dirname(s))
    if only and sid not in only:
        continue
    for c in checks:
        jobs.append((sid, s, c))
def one(j):
    sid, patch, c = j
    with Scratch() as sc:
        if not sc.apply_patch(patch):
            return (sid, c, "patch-failed", "")
        code, out = sc.check(c)
        rules = sorted({l.split("rule=")[1].split()[0] for l in out.splitlines() if "rule=" in l})
        return (sid, c, code, ",".join(rules))
with ThreadPoolExecutor(max_workers=14) as ex:
    res = list(ex.map(one, jobs))
mat = {}
for sid, c, code, rules in res:
    mat.setdefault(sid, {})[c] = (code, rules)
out = json.load(open("/verif/seeded/matrix.json")) if only and os.path.exists("/verif/seeded/matrix.json") else {}
for sid in sorted(mat):
    hits = {c: r for c, (code, r) in mat[sid].items() if code == 1}
    errs = [c for c, (code, r) in mat[sid].items() if code not in (0, 1)]
    print(sid, "detected by:", ", ".join(f"{c}[{r}]" for c, r in sorted(hits.items())) or "-", ("| errors: " + ",".join(errs)) if errs else "")
    out[sid] = {"detected_by": hits, "errors": errs}
json.dump(out, open("/verif/seeded/matrix.json", "w"), indent=1)
