#!/venv/bin/python
"""print the instances (analysed constructs and verdicts) of a check: tools/instances.py C03 [rule-prefix]"""
import sys, os, importlib, tempfile
sys.path.insert(0, "/verif")
os.environ.setdefault("VERIF_EVIDENCE_DIR", tempfile.mkdtemp())
from sa.model import load
from sa.report import Check
pid = sys.argv[1]; pref = sys.argv[2] if len(sys.argv) > 2 else ""
mod = importlib.import_module(f"sa.props.{pid.lower()}")
chk = Check(pid, "quick")
mod.run(chk, load(), "quick")
for i in chk.instances:
    if i["rule"].startswith(pref):
        print(i["rule"], i["where"].split(":")[-1], "|", i["construct"][:110], "|", i.get("verdict"), "|", (i.get("detail") or "")[:150])
for v in chk.violations:
    print("VIOL", v["rule"], v["where"], v["construct"][:100], str(v.get("detail") or v.get("message") or v)[:200])
