#!/bin/bash
# try_patch.sh <patch file> <property id>... : apply the patch to /repo, run the quick checks, undo the patch.
# (used only while developing the checks; never registered in MANIFEST.json)
patch=$1; shift
cd /repo || exit 2
if ! git diff --quiet; then echo "/repo has uncommitted changes; refusing"; exit 2; fi
git apply "$patch" || { echo "patch does not apply"; exit 2; }
export VERIF_EVIDENCE_DIR=$(mktemp -d)     # keep /verif/evidence describing the unchanged tree
for id in "$@"; do
  /verif/check "$id" 2>&1 | grep -v "^  File\|^Traceback" | head -${LINES_MAX:-12}
  echo "exit($id)=${PIPESTATUS[0]}"
done
git checkout -- .
rm -rf "$VERIF_EVIDENCE_DIR"
git -C /repo status --short | head -3
