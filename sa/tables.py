"""Literal tables of the repository: crop catalogue, crop defaults, effective crops, built-in soils."""
from __future__ import annotations
import ast
from typing import Dict, List, Optional, Tuple

from .absint import Interp, Const, Obj, TOP
from .model import Program, AnalysisError

MIN_CROPS = 30


def crop_catalogue(prog: Program) -> Dict[str, dict]:
    mod = prog.modules.get("aquacrop.entities.crops.crop_params")
    if mod is None:
        raise AnalysisError("crop_params module not found")
    for st in mod.tree.body:
        if isinstance(st, ast.Assign) and any(isinstance(t, ast.Name) and t.id == "crop_params" for t in st.targets):
            try:
                cat = ast.literal_eval(st.value)
            except Exception as e:
                raise AnalysisError(f"crop_params is no longer a literal dict: {e}")
            if not isinstance(cat, dict) or len(cat) < MIN_CROPS:
                raise AnalysisError(f"crop catalogue has {len(cat) if isinstance(cat, dict) else '?'} entries (< {MIN_CROPS})")
            return cat
    raise AnalysisError("assignment to crop_params not found")


def _fold(e: ast.AST):
    """Fold an expression made of numeric literals."""
    if isinstance(e, ast.Constant):
        return e.value
    if isinstance(e, ast.UnaryOp) and isinstance(e.op, ast.USub):
        return -_fold(e.operand)
    if isinstance(e, ast.BinOp):
        l, r = _fold(e.left), _fold(e.right)
        return {ast.Add: lambda: l + r, ast.Sub: lambda: l - r, ast.Mult: lambda: l * r, ast.Div: lambda: l / r,
                ast.Pow: lambda: l ** r}[type(e.op)]()
    raise ValueError


def crop_defaults(prog: Program) -> Dict[str, object]:
    ci = prog.cls("Crop")
    out = {}
    for attr, exprs in ci.init_fields.items():
        try:
            out[attr] = _fold(exprs[0])
        except Exception:
            continue
    return out


def allowed_keys(prog: Program, clsname: str) -> set:
    ci = prog.cls(clsname)
    init = ci.methods["__init__"].node
    for n in ast.walk(init):
        if isinstance(n, ast.Assign) and any(isinstance(t, ast.Name) and t.id == "allowed_keys" for t in n.targets):
            return set(ast.literal_eval(n.value))
    raise AnalysisError(f"allowed_keys not found in {clsname}.__init__")


def _run_method_on(prog: Program, fi, selfname: str, fields: Dict[str, object], extra_params=None) -> Dict[str, object]:
    oid = ("crop",)
    heap = {(oid, k): Const(v) for k, v in fields.items() if isinstance(v, (int, float, str, bool)) or v is None}
    pv = {selfname: Obj(oid)}
    pv.update(extra_params or {})
    it = Interp(prog, fi, param_vals=pv, init_heap=heap, interprocedural=False, part_key="env").run()
    out = dict(fields)
    exits = it.in_states.get(it.cfg.exit, [])
    if not exits:
        return out
    # join the heaps of all partitions reaching the exit
    acc = None
    for part in exits:
        h = {k[1]: v for k, v in part.heap.items() if k[0] == oid}
        if acc is None:
            acc = h
        else:
            acc = {k: v for k, v in acc.items() if k in h and h[k] == v}
    for k, v in (acc or {}).items():
        if isinstance(v, Const):
            out[k] = v.v
    # fields that became unknown are dropped
    for k in list(out):
        if k in fields and k not in (acc or {}) and (oid, k) in heap:
            # overwritten with a non-constant
            out.pop(k)
    return out


_EFF = {}


def effective_crops(prog: Program) -> Dict[str, Dict[str, object]]:
    """defaults (+) catalogue entry (+) calculate_additional_params (+) the calendar-mode copies of
    compute_crop_calendar, constant-folded by the abstract interpreter."""
    if id(prog) in _EFF:
        return _EFF[id(prog)]
    cat = crop_catalogue(prog)
    defaults = crop_defaults(prog)
    ci = prog.cls("Crop")
    cap = ci.methods.get("calculate_additional_params")
    if cap is None:
        raise AnalysisError("Crop.calculate_additional_params not found")
    ccc = prog.find_func("compute_crop_calendar")
    out = {}
    for name, entry in cat.items():
        f = dict(defaults)
        f.update(entry)
        f = _run_method_on(prog, cap, cap.params[0], f)
        for arr in ("p_up", "p_lo", "fshape_w"):
            try:
                f[arr] = [f[f"{arr}{i}"] for i in (1, 2, 3, 4)]
            except KeyError:
                pass
        f = _run_method_on(prog, ccc, ccc.params[0], f)
        f["planting_date"] = None
        out[name] = f
    _EFF[id(prog)] = out
    return out


# --------------------------------------------------------------------------- soils

def builtin_soils(prog: Program) -> Dict[str, dict]:
    """Literal facts of the Soil.__init__ branches: cn, rew, dz override, add_layer argument lists."""
    ci = prog.cls("Soil")
    init = ci.methods["__init__"].node
    soils: Dict[str, dict] = {}

    def branch_name(test) -> Optional[str]:
        if isinstance(test, ast.Compare) and isinstance(test.left, ast.Name) and test.left.id == "soil_type" \
                and len(test.ops) == 1 and isinstance(test.ops[0], ast.Eq) and isinstance(test.comparators[0], ast.Constant):
            return test.comparators[0].value
        return None

    def visit_if(node: ast.If):
        nm = branch_name(node.test)
        if nm is not None:
            d = {"layers": [], "assign": {}, "dz": None}
            for st in node.body:
                if isinstance(st, ast.Assign) and len(st.targets) == 1:
                    t = st.targets[0]
                    if isinstance(t, ast.Attribute) and isinstance(t.value, ast.Name) and t.value.id == "self":
                        try:
                            d["assign"][t.attr] = _fold(st.value)
                        except Exception:
                            pass
                    elif isinstance(t, ast.Name) and t.id == "dz":
                        d["dz"] = st.value
                elif isinstance(st, ast.Expr) and isinstance(st.value, ast.Call) and isinstance(st.value.func, ast.Attribute) \
                        and st.value.func.attr == "add_layer":
                    d["layers"].append(st.value.args)
            soils[nm] = d
        for o in node.orelse:
            if isinstance(o, ast.If):
                visit_if(o)

    for st in init.body:
        if isinstance(st, ast.If):
            visit_if(st)
    return soils
