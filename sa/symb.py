"""Forward relational analysis with polynomial normal forms (the 'AF' domain of DESIGN.md).

Abstract state at a program point:
    env   : variable (or 'obj.attr' of a simple object name) -> polynomial over opaque atoms
    tmpl  : template name -> polynomial  (current value of a *linear template* sum(c_i * x_i))
Transfer: an assignment x := e sets env[x] = NF(e) (temporaries are substituted because NF(e) is
computed over env) and updates every template containing x incrementally:
    T' = T + c_x * (NF(e) - env_old[x])
so a template keeps an exact value even after its variables were havocked at a join.
Join: a variable whose incoming normal forms differ becomes a fresh atom (havoc); a template whose
incoming values differ becomes unknown.  Loop heads havoc everything assigned in the loop.
Branches on parameters with a given constant value (flag valuation) are pruned.

No path is enumerated and no solver is involved: it is a dataflow analysis over the statement CFG.
"""
from __future__ import annotations
import ast
from fractions import Fraction
from typing import Dict, List, Optional, Tuple, Callable, Set

from . import affine as A
from .affine import Poly, NF
from .cfg import CFG, cfg_of, Node
from .model import FuncInfo, Program

UNKNOWN = None


class SymState:
    __slots__ = ("env", "tmpl")

    def __init__(self, env=None, tmpl=None):
        self.env: Dict[str, Poly] = env if env is not None else {}
        self.tmpl: Dict[str, Optional[Poly]] = tmpl if tmpl is not None else {}

    def copy(self):
        return SymState(dict(self.env), dict(self.tmpl))


class Sym:
    def __init__(self, prog: Program, fi: FuncInfo, templates: Optional[Dict[str, Dict[str, int]]] = None,
                 consts: Optional[Dict[str, object]] = None, force: Optional[Dict[str, bool]] = None,
                 test_consts: Optional[Dict[str, object]] = None, reset_at: Optional[Dict[str, int]] = None):
        """templates: name -> {variable: integer coefficient};  consts: parameter (or 'obj.attr') -> constant value
        (valuation);  force: normalised text of a test atom -> outcome assumed on this valuation"""
        self.prog = prog
        self.force = force or {}
        self.test_consts = test_consts or {}      # representative values used only to decide tests
        self.reset_at = reset_at or {}            # template name -> node id where it is (re)started from current values
        self.fi = fi
        self.cfg: CFG = cfg_of(fi.node)
        self.templates = templates or {}
        self.consts = consts or {}
        self.state_in: Dict[int, SymState] = {}
        self.state_out: Dict[int, Dict[object, SymState]] = {}
        self._fresh = 0
        self._loop_assigned = self._loops()
        self._object_names = {n.value.id for n in ast.walk(fi.node)
                              if isinstance(n, ast.Attribute) and isinstance(n.value, ast.Name)}
        self.run()

    # ------------------------------------------------------------------ helpers
    def _loops(self) -> Dict[int, Set[str]]:
        """loop head node id -> names assigned inside the loop"""
        out: Dict[int, Set[str]] = {}
        for n in self.cfg.live_nodes():
            if n.kind in ("loophead", "for"):
                st = n.stmt
                names: Set[str] = set()
                body = list(getattr(st, "body", [])) + list(getattr(st, "orelse", []))
                for b in body:
                    for sub in ast.walk(b):
                        if isinstance(sub, ast.Name) and isinstance(sub.ctx, ast.Store):
                            names.add(sub.id)
                        elif isinstance(sub, ast.Attribute) and isinstance(sub.ctx, ast.Store) and isinstance(sub.value, ast.Name):
                            names.add(f"{sub.value.id}.{sub.attr}")
                        elif isinstance(sub, ast.Subscript) and isinstance(sub.ctx, ast.Store):
                            k = self._key(sub.value, None)
                            if k:
                                names.add(k)
                if n.kind == "for":
                    for sub in ast.walk(st.target):
                        if isinstance(sub, ast.Name):
                            names.add(sub.id)
                out[n.id] = names
        return out

    def fresh(self, hint: str) -> Poly:
        self._fresh += 1
        return A.atom(f"{hint}~{self._fresh}")

    def _key(self, target: ast.AST, st: Optional[SymState]) -> Optional[str]:
        if isinstance(target, ast.Name):
            return target.id
        if isinstance(target, ast.Attribute) and isinstance(target.value, ast.Name):
            base = target.value.id
            if st is not None and base in st.env:
                # canonical name of the object (aliases: NewCond = InitCond)
                p = st.env[base]
                if len(p) == 1:
                    (m, c), = p.items()
                    if c == 1 and len(m) == 1 and m[0][1] == 1:
                        base = m[0][0]
            return f"{base}.{target.attr}"
        return None

    def nf(self, e: ast.AST, st: SymState) -> Poly:
        def subst(name_node):
            return None
        def atom_name(node):
            if isinstance(node, ast.Name):
                return None
            return None
        nfz = _EnvNF(self, st)
        return nfz.nf(e)

    def value(self, e: ast.AST, nid: int) -> Poly:
        """normal form of expression e evaluated in the state before node nid"""
        return self.nf(e, self.state_in[nid])

    # ------------------------------------------------------------------ transfer
    def _assign(self, target: ast.AST, val: Optional[Poly], st: SymState, hint: str):
        if isinstance(target, (ast.Tuple, ast.List)):
            for i, t in enumerate(target.elts):
                self._assign(t, None, st, f"{hint}[{i}]")
            return
        if isinstance(target, ast.Starred):
            self._assign(target.value, None, st, hint)
            return
        if isinstance(target, ast.Subscript):
            # element store: the container's content changes
            k = self._key(target.value, st)
            if k:
                self._set(k, self.fresh(f"{k}[]"), st)
            return
        k = self._key(target, st)
        if k is None:
            return
        if val is None:
            val = self.fresh(hint)
        self._set(k, val, st)

    def _set(self, k: str, val: Poly, st: SymState):
        old = st.env.get(k)
        if old is None:
            old = A.atom(k)           # entry value of a parameter / never-assigned name
        for tn, coefs in self.templates.items():
            c = coefs.get(k)
            if c and st.tmpl.get(tn) is not None:
                st.tmpl[tn] = A.add(st.tmpl[tn], A.mul(A.const(c), A.add(val, old, -1)))
        st.env[k] = val
        # attributes of a rebound object name are no longer the same fields
        if "." not in k:
            for kk in [x for x in st.env if x.startswith(k + ".")]:
                del st.env[kk]

    def _eval_test(self, e: ast.AST, st: SymState) -> Optional[bool]:
        txt = ast.unparse(e)
        if txt in self.force:
            return self.force[txt]

        def cval(x):
            if isinstance(x, ast.Constant):
                return (True, x.value)
            if isinstance(x, ast.Name) and x.id in self.consts and x.id not in st.env:
                return (True, self.consts[x.id])
            if isinstance(x, ast.Name) and x.id in self.test_consts and x.id not in st.env:
                return (True, self.test_consts[x.id])
            if isinstance(x, ast.Attribute) and isinstance(x.value, ast.Name):
                k = f"{x.value.id}.{x.attr}"
                if k in self.consts and self._key(x, st) not in st.env:
                    return (True, self.consts[k])
            return (False, None)
        if isinstance(e, ast.Compare) and len(e.ops) == 1:
            (lk, lv), (rk, rv) = cval(e.left), cval(e.comparators[0])
            if lk and rk:
                op = type(e.ops[0])
                try:
                    return {ast.Eq: lv == rv, ast.NotEq: lv != rv, ast.Is: lv is rv or lv == rv, ast.IsNot: not (lv is rv or lv == rv),
                            ast.Lt: lv < rv, ast.LtE: lv <= rv, ast.Gt: lv > rv, ast.GtE: lv >= rv}.get(op)
                except Exception:
                    return None
        k, v = cval(e)
        if k and isinstance(e, ast.Name):
            return bool(v)
        if isinstance(e, ast.UnaryOp) and isinstance(e.op, ast.Not):
            r = self._eval_test(e.operand, st)
            return None if r is None else (not r)
        return None

    def transfer(self, n: Node, st: SymState) -> Dict[object, SymState]:
        a = n.ast
        if n.kind == "test":
            t = self._eval_test(a, st)
            out = {}
            if t is not False:
                out[True] = st.copy()
            if t is not True:
                out[False] = st.copy()
            return out
        if n.kind == "for":
            body = st.copy()
            self._assign(a.target, None, body, f"{self.fi.name}:for@{a.lineno}")
            return {"body": body, "exit": st.copy()}
        if isinstance(a, (ast.Assign, ast.AugAssign, ast.AnnAssign, ast.Expr, ast.Return)) and getattr(a, "value", None) is not None:
            self._forget_passed(a.value, st)
        if isinstance(a, ast.Assign):
            v = a.value
            if len(a.targets) == 1 and isinstance(a.targets[0], (ast.Tuple, ast.List)) and isinstance(v, (ast.Tuple, ast.List)) \
                    and len(v.elts) == len(a.targets[0].elts):
                vals = [self.nf(x, st) for x in v.elts]
                for t, val in zip(a.targets[0].elts, vals):
                    self._assign(t, val, st, "")
            elif any(isinstance(t, (ast.Tuple, ast.List)) for t in a.targets):
                hint = f"{ast.unparse(v.func) if isinstance(v, ast.Call) else 'tuple'}@{a.lineno}"
                for t in a.targets:
                    self._assign(t, None, st, hint)
            else:
                if isinstance(v, ast.Call) and self.prog.resolve_call(self.fi, v) is not None:
                    val = self.fresh(f"{ast.unparse(v.func)}@{a.lineno}")
                else:
                    val = self.nf(v, st)
                for t in a.targets:
                    self._assign(t, val, st, "")
        elif isinstance(a, ast.AugAssign):
            load = _load(a.target)
            val = self.nf(ast.BinOp(left=load, op=a.op, right=a.value), st)
            self._assign(a.target, val, st, "")
        elif isinstance(a, ast.AnnAssign) and a.value is not None:
            self._assign(a.target, self.nf(a.value, st), st, "")
        elif isinstance(a, (ast.With, ast.AsyncWith)):
            for it in a.items:
                if it.optional_vars is not None:
                    self._assign(it.optional_vars, None, st, f"with@{a.lineno}")
        return {None: st}

    def _forget_passed(self, e: ast.AST, st: SymState):
        """objects passed by reference to a repo function may be modified by it: forget their attributes"""
        for sub in ast.walk(e):
            if isinstance(sub, ast.Call) and self.prog.resolve_call(self.fi, sub) is not None:
                for arg in list(sub.args) + [k.value for k in sub.keywords]:
                    if isinstance(arg, ast.Name) and arg.id in self._object_names:
                        # new epoch of the object: its attributes are different atoms from here on
                        old = st.env.get(arg.id)
                        base = arg.id
                        if old is not None and len(old) == 1:
                            (m, c), = old.items()
                            if c == 1 and len(m) == 1 and m[0][1] == 1:
                                base = m[0][0]
                        for kk in [x for x in st.env if x.startswith(base + ".")]:
                            del st.env[kk]
                        newp = self.fresh(f"{arg.id}@call{sub.lineno}")
                        # every alias of the same object moves to the new epoch
                        for name, pv in list(st.env.items()):
                            if "." not in name and pv is not None and old is not None and A.equal(pv, old):
                                st.env[name] = newp
                        st.env[arg.id] = newp

    # ------------------------------------------------------------------ fixpoint (acyclic + loop havoc)
    def run(self):
        """single forward pass (acyclic + loop havoc), repeated while new loop-invariant templates are proved: a template whose variables
        are assigned in a loop gets a probe atom at the loop head; if every back edge carries the probe atom unchanged the loop preserves the
        template (induction) and the next pass lets the value from before the loop through."""
        self._tmpl_invariant: Set[Tuple[str, int]] = getattr(self, "_tmpl_invariant", set())
        for _ in range(6):
            probes, back_vals = self._pass()
            new = set()
            for (tn, nid), atom in probes.items():
                vals = back_vals.get((tn, nid), [])
                if vals and all(v is not None and A.equal(v, atom) for v in vals):
                    new.add((tn, nid))
            if not new - self._tmpl_invariant:
                break
            self._tmpl_invariant |= new
        return self

    def _pass(self):
        cfg = self.cfg
        order = cfg.rpo()
        pos = {k: i for i, k in enumerate(order)}
        self.state_in = {}
        probes: Dict[Tuple[str, int], Poly] = {}
        init = SymState()
        for tn, coefs in self.templates.items():
            t: Poly = {}
            for var, c in coefs.items():
                t = A.add(t, A.mul(A.const(c), A.atom(var)))
            init.tmpl[tn] = t
        edge_states: Dict[Tuple[int, int, object], SymState] = {}
        self.state_in[cfg.entry] = init
        for nid in order:
            n = cfg.nodes[nid]
            if nid != cfg.entry:
                incoming = []
                back = False
                for p, l in n.preds:
                    if (p, nid, l) in edge_states:
                        incoming.append(edge_states[(p, nid, l)])
                    elif pos.get(p, -1) >= pos[nid]:
                        back = True
                if not incoming:
                    continue
                st = self._join(incoming, nid)
                if back or nid in self._loop_assigned:
                    fwd = dict(st.tmpl)
                    names = self._loop_assigned.get(nid, set())
                    self._havoc(st, names, nid)
                    for tn, coefs in self.templates.items():
                        if any(v in names for v in coefs):
                            if (tn, nid) in self._tmpl_invariant:
                                st.tmpl[tn] = fwd.get(tn)
                            elif fwd.get(tn) is not None:
                                atom = A.atom(f"{tn}@loop{nid}")
                                probes[(tn, nid)] = atom
                                st.tmpl[tn] = atom
                self.state_in[nid] = st
            for tn, at in self.reset_at.items():
                if at == nid:
                    cur = self.state_in[nid]
                    t: Poly = {}
                    for var, c in self.templates[tn].items():
                        t = A.add(t, A.mul(A.const(c), cur.env.get(var, A.atom(var))))
                    cur.tmpl[tn] = t
            outs = self.transfer(n, self.state_in[nid].copy())
            for t, l in n.succs:
                if l == "exc":
                    edge_states[(nid, t, l)] = self.state_in[nid].copy()
                    continue
                key = l if (n.kind in ("test", "for")) else None
                if key in outs:
                    edge_states[(nid, t, l)] = outs[key]
        back_vals: Dict[Tuple[str, int], List[Optional[Poly]]] = {}
        for (tn, nid) in probes:
            for p, l in cfg.nodes[nid].preds:
                if pos.get(p, -1) >= pos[nid] and (p, nid, l) in edge_states:
                    back_vals.setdefault((tn, nid), []).append(edge_states[(p, nid, l)].tmpl.get(tn))
        # a template still carrying a probe atom is unknown to the outside
        if probes:
            unproved = {A.text(a) for k, a in probes.items() if k not in self._tmpl_invariant}
            for st in self.state_in.values():
                for tn, v in list(st.tmpl.items()):
                    if v is not None and any(x in unproved for m in v for x, _ in m):
                        st.tmpl[tn] = UNKNOWN
        return probes, back_vals

    def _havoc(self, st: SymState, names: Set[str], nid: int):
        for k in names:
            st.env[k] = self.fresh(f"{k}@loop{nid}")
            for kk in [x for x in st.env if x.startswith(k + ".")]:
                del st.env[kk]
        for tn, coefs in self.templates.items():
            if any(v in names for v in coefs):
                st.tmpl[tn] = UNKNOWN

    def _join(self, states: List[SymState], nid: int) -> SymState:
        if len(states) == 1:
            return states[0].copy()
        out = SymState()
        keys = set()
        for s in states:
            keys |= set(s.env)
        for k in keys:
            vals = [s.env.get(k) for s in states]
            vals = [v if v is not None else A.atom(k) for v in vals]
            if all(A.equal(vals[0], v) for v in vals[1:]):
                out.env[k] = vals[0]
            else:
                out.env[k] = self.fresh(f"{k}@join{nid}")
        for tn in self.templates:
            # (a value lost at an earlier join is re-evaluated from the state's current symbolic values - see template_value)
            vals = [self.template_value(tn, s) for s in states]
            if all(v is not None for v in vals) and all(A.equal(vals[0], v) for v in vals[1:]):
                out.tmpl[tn] = vals[0]
            else:
                out.tmpl[tn] = UNKNOWN
        return out

    # ------------------------------------------------------------------ queries
    def at_return(self) -> List[Tuple[Node, SymState]]:
        out = []
        for n in self.cfg.live_nodes():
            if isinstance(n.ast, ast.Return) and n.id in self.state_in:
                out.append((n, self.state_in[n.id]))
        return out

    def template_at(self, tn: str, nid: int) -> Optional[Poly]:
        st = self.state_in.get(nid)
        if st is None:
            return None
        return self.template_value(tn, st)

    def template_value(self, tn: str, st: SymState) -> Optional[Poly]:
        """value of an *absolute* template (one whose entry value is the plain sum of its variables) in a state"""
        v = st.tmpl.get(tn)
        if v is None and tn in self.templates:
            # the incrementally tracked value was lost at a join (a variable differs between the paths), but the template can still be
            # evaluated from the current symbolic values: a variable havoc'd at the join is ONE fresh atom, and a later assignment
            # in terms of it (Infl = P - Runoff after the branch) cancels exactly
            tot = A.const(0)
            for var, c in self.templates[tn].items():
                val = st.env.get(var)
                if val is None:
                    val = A.atom(var)
                tot = A.add(tot, A.mul(A.const(c), val))
            return tot
        return v


class _EnvNF(NF):
    """normal forms in which variables are replaced by their current polynomial values"""

    def __init__(self, sym: Sym, st: SymState):
        super().__init__()
        self.sym = sym
        self.st = st

    def nf(self, e: ast.AST) -> Poly:
        if isinstance(e, ast.Name):
            if e.id in self.st.env:
                return self.st.env[e.id]
            if e.id in self.sym.consts and isinstance(self.sym.consts[e.id], (int, float)) \
                    and not isinstance(self.sym.consts[e.id], bool):
                return A.const(self.sym.consts[e.id])
            return A.atom(e.id)
        if isinstance(e, ast.Attribute) and isinstance(e.value, ast.Name):
            k = self.sym._key(e, self.st)
            if k in self.st.env:
                return self.st.env[k]
            return A.atom(k)
        if isinstance(e, ast.IfExp):
            # a conditional expression whose test is decided by the valuation is its selected branch
            t = self.sym._eval_test(e.test, self.st)
            if t is True:
                return self.nf(e.body)
            if t is False:
                return self.nf(e.orelse)
            b, o = self.nf(e.body), self.nf(e.orelse)
            if A.equal(b, o):
                return b
        return super().nf(e)

    def _opaque(self, e: ast.AST) -> str:
        if isinstance(e, ast.Call):
            args = ",".join(A.text(self.nf(a)) if not isinstance(a, ast.Starred) else ast.unparse(a) for a in e.args)
            kws = ",".join(f"{k.arg}={A.text(self.nf(k.value))}" for k in e.keywords)
            return f"{ast.unparse(e.func)}({args}{',' + kws if kws else ''})"
        if isinstance(e, ast.Subscript):
            b = e.value
            bt = A.text(self.nf(b)) if isinstance(b, (ast.Name, ast.Attribute)) else ast.unparse(b)
            return f"{bt}[{ast.unparse(e.slice)}]"
        return super()._opaque(e)


def _load(t: ast.AST) -> ast.AST:
    import copy
    c = copy.deepcopy(t)
    for sub in ast.walk(c):
        if hasattr(sub, "ctx"):
            sub.ctx = ast.Load()
    return c
