"""Constant propagation of the daily step under a configuration valuation (interprocedural)."""
from __future__ import annotations
import ast
from typing import Dict, List, Optional, Tuple

from .absint import Interp, Const, Obj, TOP, Sgn
from .common import STEP_FN
from .da import local_literal_domains
from .flags import DOMAINS
from .model import Program, AnalysisError, norm


def output_columns(prog: Program) -> Dict[str, List[str]]:
    """Column-name lists of the three daily tables, from outputs_when_model_is_finished."""
    fi = prog.find_func("outputs_when_model_is_finished")
    cols: Dict[str, List[str]] = {}
    for n in ast.walk(fi.node):
        if isinstance(n, ast.Assign) and isinstance(n.value, ast.Call) and isinstance(n.value.func, ast.Attribute) \
                and n.value.func.attr == "DataFrame":
            tname = n.targets[0].id if isinstance(n.targets[0], ast.Name) else None
            for kw in n.value.keywords:
                if kw.arg == "columns":
                    v = kw.value
                    if isinstance(v, ast.BinOp):      # fixed prefix + generated th columns
                        v = v.left
                    if isinstance(v, ast.List) and all(isinstance(x, ast.Constant) for x in v.elts):
                        cols[tname] = [x.value for x in v.elts]
    need = {"flux_output_df", "water_output_df", "growth_outputs_df"}
    if not need <= set(cols):
        raise AnalysisError(f"output column lists not found ({sorted(cols)})")
    return {"water_flux": cols["flux_output_df"], "water_storage": cols["water_output_df"],
            "crop_growth": cols["growth_outputs_df"]}


def row_writers(prog: Program) -> Dict[str, ast.Assign]:
    """The statements of the step that write the daily rows: outputs.<table>[row_day, :] = [...]"""
    fi = prog.func(STEP_FN)
    out: Dict[str, ast.Assign] = {}
    for n in ast.walk(fi.node):
        if isinstance(n, ast.Assign) and len(n.targets) == 1 and isinstance(n.targets[0], ast.Subscript):
            t = n.targets[0]
            if isinstance(t.value, ast.Attribute) and t.value.attr in ("water_flux", "crop_growth") \
                    and isinstance(n.value, ast.List):
                if t.value.attr in out:
                    raise AnalysisError(f"two writers of outputs.{t.value.attr}")
                out[t.value.attr] = n
    if set(out) != {"water_flux", "crop_growth"}:
        raise AnalysisError(f"row writers of the daily tables not found ({sorted(out)})")
    return out


def step_local(prog: Program, what: str) -> str:
    """name of a local of the daily step identified by provenance, not by spelling:
       'irr'     - the plain-name target of the irrigation(...) call (the day's surface irrigation depth)
       'irr_day' - the row element of column IrrDay"""
    fi = prog.func(STEP_FN)
    if what == "irr":
        for n in ast.walk(fi.node):
            if isinstance(n, ast.Assign) and isinstance(n.value, ast.Call) and getattr(prog.resolve_call(fi, n.value), "name", None) == "irrigation" \
                    and isinstance(n.targets[0], ast.Tuple):
                names = [t.id for t in n.targets[0].elts if isinstance(t, ast.Name)]
                if len(names) == 1:
                    return names[0]
        raise AnalysisError("cannot identify the step's irrigation-depth local (single plain-name target of irrigation())")
    if what == "irr_day":
        what = "col:IrrDay"
    if what.startswith("col:"):
        w = row_writers(prog)["water_flux"]
        cols = output_columns(prog)["water_flux"]
        e = w.value.elts[cols.index(what[4:])]
        if isinstance(e, ast.Name):
            return e.id
        raise AnalysisError(f"the {what[4:]} column of the water_flux row is not a plain local")
    if what == "state":
        rets = [r for r in ast.walk(fi.node) if isinstance(r, ast.Return) and isinstance(r.value, ast.Tuple) and r.value.elts]
        ids = {r.value.elts[0].id for r in rets if isinstance(r.value.elts[0], ast.Name)}
        if len(ids) == 1:
            return ids.pop()
        raise AnalysisError("cannot identify the step's state local (first returned value)")
    if what == "pre_irr":
        for n in ast.walk(fi.node):
            if isinstance(n, ast.Assign) and isinstance(n.value, ast.Call) and getattr(prog.resolve_call(fi, n.value), "name", None) == "pre_irrigation" \
                    and isinstance(n.targets[0], ast.Tuple):
                names = [t.id for t in n.targets[0].elts if isinstance(t, ast.Name) and t.id not in fi.params]
                names = [x for x in names if not any(isinstance(a, ast.Name) and a.id == x for a in n.value.args)]
                if len(names) == 1:
                    return names[0]
        raise AnalysisError("cannot identify the step's pre-irrigation local")
    if what == "irr_net":
        # the target of the transpiration(...) call at the position where transpiration returns the local it adds to irr_net_cum
        tr = prog.find_func("transpiration")
        added = set()
        for n in ast.walk(tr.node):
            if isinstance(n, ast.Assign) and isinstance(n.targets[0], ast.Attribute) and n.targets[0].attr == "irr_net_cum" \
                    and isinstance(n.value, ast.BinOp) and isinstance(n.value.op, ast.Add):
                added |= {x.id for x in (n.value.left, n.value.right) if isinstance(x, ast.Name)}
            if isinstance(n, ast.AugAssign) and isinstance(n.target, ast.Attribute) and n.target.attr == "irr_net_cum" and isinstance(n.value, ast.Name):
                added.add(n.value.id)
        rets = [r for r in ast.walk(tr.node) if isinstance(r, ast.Return) and isinstance(r.value, ast.Tuple)]
        pos = {i for r in rets for i, e in enumerate(r.value.elts) if isinstance(e, ast.Name) and e.id in added}
        for n in ast.walk(fi.node):
            if isinstance(n, ast.Assign) and isinstance(n.value, ast.Call) and getattr(prog.resolve_call(fi, n.value), "key", None) == tr.key \
                    and isinstance(n.targets[0], ast.Tuple) and len(pos) == 1:
                t = n.targets[0].elts[next(iter(pos))]
                if isinstance(t, ast.Name):
                    return t.id
        raise AnalysisError("cannot identify the step's net-irrigation local (transpiration() result added to irr_net_cum)")
    if what == "irr_tot":
        for n in ast.walk(fi.node):
            if isinstance(n, ast.Assign) and len(n.targets) == 1 and isinstance(n.targets[0], ast.Subscript) \
                    and isinstance(n.value, ast.List) and any(isinstance(x, ast.Attribute) and x.attr == "final_stats" for x in ast.walk(n.targets[0])):
                e = n.value.elts[7] if len(n.value.elts) > 7 else None
                if isinstance(e, ast.Name):
                    return e.id
        raise AnalysisError("the seasonal-irrigation element of the final_stats row is not a plain local")
    raise AnalysisError(what)


class StepCP:
    def __init__(self, prog: Program, config: Optional[Dict[str, object]] = None, split=("growing_season",)):
        """config: 'param_struct.water_table' -> value ; 'IrrMngt.irrigation_method' -> value (applied to both the
        in-season and the fallow management objects of that kind)."""
        self.prog = prog
        fi = prog.func(STEP_FN)
        self.fi = fi
        heap = {}
        ps = ("param", fi.qualname, "param_struct")
        objs = {"IrrMngt": ["IrrMngt", "FallowIrrMngt"], "FieldMngt": ["FieldMngt", "FallowFieldMngt"],
                "Soil": ["Soil"], "CO2": ["CO2"]}
        for key, val in (config or {}).items():
            base, attr = key.split(".", 1)
            if base == "param_struct":
                heap[(ps, attr)] = Const(val)
            elif base in objs:
                for field in objs[base]:
                    oid = ("cfg", field)
                    heap[(ps, field)] = Obj(oid)
                    heap[(oid, attr)] = Const(val)
            elif base in fi.params:
                # a field of one of the step's parameter objects; val may be an abstract value (Sgn) instead of a constant
                heap[(("param", fi.qualname, base), attr)] = val if isinstance(val, (Sgn, Obj)) else Const(val)
            else:
                raise AnalysisError(f"unknown configuration root {base}")
        self.interp = Interp(prog, fi, domains=DOMAINS, interprocedural=True, part_key="vars",
                             split_vars=list(split), local_domains=local_literal_domains(fi),
                             init_heap=heap).run()
        self.cols = output_columns(prog)
        self.writers = row_writers(prog)

    def partitions_at(self, stmt: ast.AST):
        n = self.interp.cfg.node_of(stmt)
        if n is None:
            raise AnalysisError("row writer not reachable in the CFG")
        return self.interp.node_facts.get(n.id, [])

    def row_values(self, table: str, where: Dict[str, object]) -> List[Dict[str, object]]:
        """abstract value of every column of `table` in each partition whose split variables match `where`."""
        st = self.writers[table]
        cols = self.cols[table]
        elts = st.value.elts
        if len(elts) != len(cols):
            raise AnalysisError(f"{table}: {len(elts)} row elements vs {len(cols)} column names")
        out = []
        for part in self.partitions_at(st):
            ok = True
            for var, val in where.items():
                v = part.env.get(var, (None, False))[0]
                if not (isinstance(v, Const) and v.v is val):
                    ok = False
            if not ok:
                continue
            out.append({c: self.interp.eval(e, part, record=False) for c, e in zip(cols, elts)})
        return out


def is_zero(v) -> bool:
    return isinstance(v, Const) and isinstance(v.v, (int, float)) and not isinstance(v.v, bool) and v.v == 0


# --------------------------------------------------------------------------- batch (parallel) evaluation

class CPResult:
    def __init__(self, config, rows, locs, calls, cols):
        self.config = config
        self.rows = rows          # table -> {True/False: [ {col: value} ]}
        self.locals = locs        # {True/False: [ {name: value} ]}
        self.calls = calls
        self.cols = cols


_BATCH_PROG = None


def _one(args):
    config, want_locals = args
    s = StepCP(_BATCH_PROG, config)
    rows, locs = {}, {}
    for table in ("water_flux", "crop_growth"):
        rows[table] = {gs: s.row_values(table, {"growing_season": gs}) for gs in (True, False)}
    wf = s.writers["water_flux"]
    for gs in (True, False):
        out = []
        for p in s.partitions_at(wf):
            v = p.env.get("growing_season", (None, False))[0]
            if isinstance(v, Const) and v.v is gs:
                out.append({n: p.env.get(n, (TOP, False))[0] for n in want_locals})
        locs[gs] = out
    calls = sorted({f"{k}@{c.lineno}" for c, k in s.interp.call_log})
    return CPResult(config, rows, locs, calls, s.cols)


def batch(prog: Program, configs: List[dict], want_locals: List[str] = ()) -> List[CPResult]:
    """Run StepCP for several configurations in parallel worker processes (fork)."""
    global _BATCH_PROG
    import multiprocessing as mp
    _BATCH_PROG = prog
    jobs = [(c, list(want_locals)) for c in configs]
    if len(jobs) == 1:
        return [_one(jobs[0])]
    ctx = mp.get_context("fork")
    with ctx.Pool(min(16, len(jobs))) as pool:
        return pool.map(_one, jobs)
