"""Access-path ("role") propagation.

Starting from root functions whose parameters (or ``self.<attr>`` reads) are bound to
symbolic roots (STATE, PARAM, CLOCK, WEATHER, OUT, USER.*), the set of access paths that
every local name / formal may denote is propagated through assignments and down the call
graph (context-insensitive union over call sites).  Numpy/pandas view-vs-copy semantics are
applied by a fixed table: attribute access, basic slicing and integer indexing give a
*view* (path extended), arithmetic / copies / boolean-mask indexing give a *fresh* value
(no path).

A heap alias map records ``obj.attr = <expr with paths>`` so that later reads of
``obj.attr`` also denote those paths (flow-insensitive may-alias).
"""
from __future__ import annotations
import ast
from typing import Dict, List, Optional, Set, Tuple, Iterable

from .model import Program, FuncInfo, ClassInfo, walk_no_nested, AnalysisError
from .rdef import flow_of, ENTRY

FRESH_CALLS = {
    # builtins / numpy / pandas constructors and reductions returning new objects
    "float", "int", "round", "str", "bool", "len", "abs", "max", "min", "sum", "range", "list", "tuple",
    "dict", "set", "sorted", "enumerate", "zip", "map", "print", "isinstance", "hasattr", "callable", "type",
}
FRESH_EXTERNAL_PREFIX = ("numpy.", "pandas.", "copy.deepcopy", "copy.copy", "os.", "time.", "datetime.",
                         "subprocess.", "tqdm.", "math.", "warnings.", "logging.")
# external functions that return their argument (or a view of it)
VIEW_EXTERNAL = {"numpy.asarray", "numpy.ravel", "numpy.reshape", "numpy.squeeze", "numpy.atleast_1d",
                 "numpy.transpose", "numpy.asanyarray"}
# methods returning a view / the object itself
VIEW_METHODS = {"reshape", "ravel", "view", "squeeze", "transpose", "T", "swapaxes", "to_numpy", "get"}
# methods returning fresh objects
FRESH_METHODS = {"copy", "astype", "flatten", "round", "sum", "cumsum", "mean", "min", "max", "argmax", "argmin",
                 "idxmax", "idxmin", "clip", "ffill", "bfill", "interpolate", "reindex", "drop", "dropna", "fillna",
                 "reset_index", "query", "groupby", "map", "unique", "isna", "tolist", "items", "keys", "split",
                 "format", "join", "strip", "year", "days", "any", "all", "nonzero", "std", "median", "dot", "get_loc",
                 "extend_copy", "apply", "rename", "sort_values", "sort_index", "set_index", "isin", "notna", "abs",
                 "upper", "lower", "startswith", "endswith", "replace", "count", "index"}
# attributes that expose the same underlying data
VIEW_ATTRS = {"values", "iloc", "loc", "T", "flat", "at", "iat", "array"}
# in-place mutating methods (receiver is written)
MUTATING_METHODS = {"fill", "sort", "resize", "put", "itemset", "append", "extend", "insert", "remove", "pop",
                    "clear", "update", "setdefault", "popitem", "reverse", "__setitem__", "__setattr__",
                    "__delitem__", "setflags", "partition", "byteswap", "add", "discard"}
INPLACE_KW_METHODS = {"drop", "fillna", "sort_values", "sort_index", "reset_index", "rename", "set_index",
                      "ffill", "bfill", "interpolate", "clip", "replace", "dropna", "drop_duplicates"}


def is_fancy_index(sl: ast.AST) -> bool:
    """Boolean-mask / list indexing (copy) as opposed to int / slice indexing (view)."""
    if isinstance(sl, ast.Slice):
        return False
    if isinstance(sl, ast.Tuple):
        return any(is_fancy_index(e) for e in sl.elts)
    if isinstance(sl, (ast.Compare, ast.List, ast.ListComp, ast.BoolOp)):
        return True
    if isinstance(sl, ast.BinOp) and isinstance(sl.op, (ast.BitAnd, ast.BitOr)):
        return True
    if isinstance(sl, ast.UnaryOp) and isinstance(sl.op, ast.Invert):
        return True
    return False


class Roles:
    def __init__(self, prog: Program, roots: Dict[str, Dict[str, Set[str]]],
                 self_attrs: Optional[Dict[str, Set[str]]] = None, max_iter: int = 40,
                 new_as: Optional[Dict[str, str]] = None):
        """roots: func key -> {param name: {paths}};  self_attrs: 'attr' -> {paths} for reads of self.attr"""
        self.prog = prog
        self.self_attrs = self_attrs or {}
        self.new_as = new_as or {}
        self.env: Dict[str, Dict[str, Set[str]]] = {}
        self.alias: Dict[str, Set[str]] = {}
        self.ret: Dict[str, List[Set[str]]] = {}      # func key -> per tuple position set of paths returned
        self.reached: Set[str] = set()
        self.unresolved: List[Tuple[str, str]] = []
        self.mask_names: Dict[str, Set[str]] = {}
        self.rebound: Dict[str, Set[str]] = {}        # shallow-copy path 'X~' -> attributes re-bound right after the copy
        self.defp: Dict[Tuple[str, str, int], Set[str]] = {}
        for k, m in roots.items():
            self.env[k] = {n: set(p) for n, p in m.items()}
            for n, pp in m.items():
                self.defp[(k, n, ENTRY)] = set(pp)
            self.reached.add(k)
        self._fix(max_iter)

    # ------------------------------------------------------------------
    def _self_name(self, fi: FuncInfo) -> Optional[str]:
        if fi.cls and fi.node.args.args:
            return fi.node.args.args[0].arg
        return None

    def with_alias(self, paths: Iterable[str]) -> Set[str]:
        out = set(paths)
        work = list(out)
        while work:
            p = work.pop()
            # any alias registered for a prefix of p
            for a, tgts in self.alias.items():
                if p == a or p.startswith(a + ".") or p.startswith(a + "["):
                    suffix = p[len(a):]
                    for t in tgts:
                        q = (t + suffix).replace("<>[]", "")
                        if q not in out and len(q) < 200:
                            out.add(q)
                            work.append(q)
        return out

    def paths(self, fi: FuncInfo, e: ast.AST) -> Set[str]:
        env = self.env.get(fi.key, {})
        if isinstance(e, ast.Name):
            flow = flow_of(fi)
            nid = flow.node_of(e)
            if nid is None:
                return self.with_alias(env.get(e.id, set()))
            out = set()
            for d in flow.defs_reaching(e.id, nid):
                out |= self.defp.get((fi.key, e.id, d), set())
            return self.with_alias(out)
        if isinstance(e, ast.Attribute):
            sn = self._self_name(fi)
            if sn and isinstance(e.value, ast.Name) and e.value.id == sn and e.attr in self.self_attrs:
                return self.with_alias(self.self_attrs[e.attr])
            base = self.paths(fi, e.value)
            if isinstance(e.ctx, ast.Load):
                # an attribute read from a shallow copy is the original's attribute object (or what the copy's attribute was re-bound to) -
                # unless the copying function re-binds that attribute right after the copy, before the copy is used for anything else
                if any(b.endswith("~") for b in base) and not self._rebound_before(fi, e):
                    base = base | {b[:-1] for b in base if b.endswith("~") and e.attr not in self.rebound.get(b, ())}
            if e.attr in VIEW_ATTRS:
                return self.with_alias({b + "." + e.attr for b in base}) | base
            return self.with_alias({b + "." + e.attr for b in base})
        if isinstance(e, ast.Subscript):
            base = self.paths(fi, e.value)
            if is_fancy_index(e.slice) or self._is_mask_name(fi, e.slice):
                # .loc[mask] / .iloc[...] on frames with masks are copies when read
                return set()
            # element of a list/tuple literal: the element itself
            return self.with_alias({(b[:-2] if b.endswith("<>") else b + "[]") for b in base})
        if isinstance(e, ast.Starred):
            return self.paths(fi, e.value)
        if isinstance(e, (ast.Tuple, ast.List)):
            out = set()
            for x in e.elts:
                out |= {p + "<>" for p in self.paths(fi, x)}
            return out
        if isinstance(e, ast.IfExp):
            return self.paths(fi, e.body) | self.paths(fi, e.orelse)
        if isinstance(e, ast.BoolOp):
            out = set()
            for v in e.values:
                out |= self.paths(fi, v)
            return out
        if isinstance(e, ast.NamedExpr):
            return self.paths(fi, e.value)
        if isinstance(e, ast.Call):
            return self._call_paths(fi, e, None)
        return set()

    def _rebound_before(self, fi: FuncInfo, e: ast.Attribute) -> bool:
        """`X.attr = <value>` on every path to this read of `X.attr`, in the same function (the copy's attribute is its own by then)"""
        flow = flow_of(fi)
        here = flow.node_of(e)
        if here is None:
            return False
        dom = flow.cfg.dominators().get(here, set())
        text = ast.unparse(e)
        for n in walk_no_nested(fi.node):
            if isinstance(n, ast.Assign) and len(n.targets) == 1 and isinstance(n.targets[0], ast.Attribute) \
                    and ast.unparse(n.targets[0]) == text:
                d = flow.stmt_node.get(id(n))
                if d is not None and d != here and d in dom:
                    return True
        return False

    def _is_mask_name(self, fi: FuncInfo, sl: ast.AST) -> bool:
        return isinstance(sl, ast.Name) and sl.id in self.mask_names.get(fi.key, set())

    def _call_paths(self, fi: FuncInfo, e: ast.Call, pos: Optional[int]) -> Set[str]:
        tgt = self.prog.resolve_call(fi, e)
        if isinstance(tgt, FuncInfo):
            r = self.ret.get(tgt.key)
            if not r:
                return set()
            if pos is None:
                out = set()
                for s in r:
                    out |= s
                return self.with_alias(out)
            return self.with_alias(r[pos]) if pos < len(r) else set()
        if isinstance(tgt, ClassInfo):
            # a freshly constructed record object: named by its class (optionally mapped onto a model root)
            return {self.new_as.get(tgt.name, f"NEW.{tgt.name}")}
        f = e.func
        if self.prog.external_name(fi, f) == "copy.copy" and e.args:
            # a shallow copy: a new record whose attributes are the original's objects ('~' marks the copy itself: re-binding an
            # attribute of the copy leaves the original alone, reading one yields the shared object)
            return {p + "~" for p in self.paths(fi, e.args[0]) if not p.endswith("~")} | {p for p in self.paths(fi, e.args[0]) if p.endswith("~")}
        if isinstance(f, ast.Name) and f.id == "vars" and len(e.args) == 1:
            # vars(obj) is the object's live attribute dictionary, not a copy: a store into it writes the attribute
            return self.with_alias({p + ".__dict__" for p in self.paths(fi, e.args[0])})
        if isinstance(f, ast.Name):
            if f.id in FRESH_CALLS:
                return set()
            return set()
        if isinstance(f, ast.Attribute):
            ext = self.prog.external_name(fi, f)
            if ext is not None:
                if ext in VIEW_EXTERNAL and e.args:
                    return self.paths(fi, e.args[0])
                return set()
            if f.attr in VIEW_METHODS:
                return self.paths(fi, f.value)
            if f.attr == "__getitem__" or f.attr == "__getattribute__":
                return self.paths(fi, f.value)
            return set()
        return set()

    # ------------------------------------------------------------------
    def _bind(self, key: str, name: str, paths: Set[str], site: int = ENTRY) -> bool:
        env = self.env.setdefault(key, {})
        env.setdefault(name, set()).update(paths)
        cur = self.defp.setdefault((key, name, site), set())
        new = paths - cur
        if new:
            cur |= new
            return True
        return False

    def _assign(self, fi: FuncInfo, target: ast.AST, value: Optional[ast.AST], vpaths: Optional[Set[str]] = None,
                pos: Optional[int] = None, site: int = ENTRY) -> bool:
        ch = False
        if isinstance(target, ast.Name):
            if vpaths is None:
                if isinstance(value, ast.Call) and pos is not None:
                    vpaths = self._call_paths(fi, value, pos)
                else:
                    vpaths = self.paths(fi, value)
            ch |= self._bind(fi.key, target.id, vpaths, site)
        elif isinstance(target, (ast.Tuple, ast.List)):
            for i, t in enumerate(target.elts):
                if isinstance(value, (ast.Tuple, ast.List)) and len(value.elts) == len(target.elts):
                    ch |= self._assign(fi, t, value.elts[i], site=site)
                elif isinstance(value, ast.Call):
                    ch |= self._assign(fi, t, value, None, i, site=site)
                elif vpaths is not None:
                    ch |= self._assign(fi, t, value, vpaths, site=site)
                else:
                    ch |= self._assign(fi, t, value, self.paths(fi, value) if value is not None else set(), site=site)
        elif isinstance(target, ast.Attribute):
            if vpaths is None:
                if isinstance(value, ast.Call) and pos is not None:
                    vpaths = self._call_paths(fi, value, pos)
                else:
                    vpaths = self.paths(fi, value) if value is not None else set()
            bases = self.paths(fi, target.value)
            sn = self._self_name(fi)
            for b in bases:
                key = b + "." + target.attr
                vp = {v for v in vpaths if v != key}
                if vp:
                    cur = self.alias.setdefault(key, set())
                    if not vp <= cur:
                        cur |= vp
                        ch = True
        elif isinstance(target, ast.Starred):
            ch |= self._assign(fi, target.value, value, vpaths, pos, site=site)
        return ch

    def _scan_function(self, fi: FuncInfo) -> bool:
        ch = False
        # mask names: locals assigned from comparisons (boolean masks)
        masks = self.mask_names.setdefault(fi.key, set())
        for n in walk_no_nested(fi.node):
            if isinstance(n, ast.Assign) and len(n.targets) == 1 and isinstance(n.targets[0], ast.Name):
                v = n.value
                if isinstance(v, ast.Compare) or (isinstance(v, ast.BinOp) and isinstance(v.op, (ast.BitAnd, ast.BitOr))
                                                    and isinstance(v.left, ast.Compare)):
                    masks.add(n.targets[0].id)
        flow = flow_of(fi)
        # `v = copy(x)` directly followed by `v.attr = <value>` statements: those attributes of the shallow copy are private from the start
        for n in [fi.node] + list(walk_no_nested(fi.node)):
            for blk in (getattr(n, "body", None), getattr(n, "orelse", None), getattr(n, "finalbody", None)):
                if not isinstance(blk, list):
                    continue
                for i, st in enumerate(blk):
                    if isinstance(st, ast.Assign) and len(st.targets) == 1 and isinstance(st.targets[0], ast.Name) \
                            and isinstance(st.value, ast.Call) and self.prog.external_name(fi, st.value.func) == "copy.copy":
                        attrs = set()
                        for nx in blk[i + 1:]:
                            t = nx.targets[0] if isinstance(nx, ast.Assign) and len(nx.targets) == 1 else None
                            if isinstance(t, ast.Attribute) and isinstance(t.value, ast.Name) and t.value.id == st.targets[0].id:
                                attrs.add(t.attr)
                            else:
                                break
                        for b in self._call_paths(fi, st.value, None):
                            if b.endswith("~") and attrs - self.rebound.get(b, set()):
                                self.rebound.setdefault(b, set()).update(attrs)
                                ch = True
        for n in walk_no_nested(fi.node):
            site = flow.stmt_node.get(id(n), ENTRY)
            if site == ENTRY and isinstance(n, ast.NamedExpr):
                site = flow.node_of(n) or ENTRY
            if site == ENTRY and isinstance(n, (ast.Assign, ast.AnnAssign, ast.For, ast.With)):
                continue          # unreachable statement
            if isinstance(n, ast.Assign):
                for t in n.targets:
                    ch |= self._assign(fi, t, n.value, site=site)
            elif isinstance(n, ast.AnnAssign) and n.value is not None:
                ch |= self._assign(fi, n.target, n.value, site=site)
            elif isinstance(n, (ast.For, ast.AsyncFor)):
                # iterating a container yields its elements
                it = self.paths(fi, n.iter)
                if isinstance(n.iter, ast.Call) and isinstance(n.iter.func, ast.Attribute) \
                        and n.iter.func.attr == "items":
                    # for a, v in X.__dict__.items(): v denotes any attribute of X
                    base = n.iter.func.value
                    if isinstance(base, ast.Attribute) and base.attr == "__dict__":
                        objp = self.paths(fi, base.value)
                        if isinstance(n.target, ast.Tuple) and len(n.target.elts) == 2:
                            ch |= self._assign(fi, n.target.elts[1], None, {p + ".*" for p in objp}, site=site)
                        continue
                ch |= self._assign(fi, n.target, None, {(p[:-2] if p.endswith("<>") else p + "[]") for p in it}, site=site)
            elif isinstance(n, (ast.With, ast.AsyncWith)):
                for item in n.items:
                    if item.optional_vars is not None:
                        ch |= self._assign(fi, item.optional_vars, item.context_expr, site=site)
            elif isinstance(n, ast.NamedExpr):
                ch |= self._assign(fi, n.target, n.value, site=site)
            elif isinstance(n, ast.Return) and n.value is not None:
                r = self.ret.setdefault(fi.key, [])
                elts = n.value.elts if isinstance(n.value, ast.Tuple) else [n.value]
                while len(r) < len(elts):
                    r.append(set())
                for i, x in enumerate(elts):
                    p = self.paths(fi, x)
                    if not p <= r[i]:
                        r[i] |= p
                        ch = True
            elif isinstance(n, ast.Call):
                ch |= self._scan_call(fi, n)
        return ch

    def _scan_call(self, fi: FuncInfo, call: ast.Call) -> bool:
        ch = False
        tgt = self.prog.resolve_call(fi, call)
        if isinstance(tgt, ClassInfo):
            tgt = tgt.methods.get("__init__")
            skip_self = True
        else:
            skip_self = isinstance(tgt, FuncInfo) and tgt.cls is not None and bool(tgt.node.args.args) \
                and tgt.node.args.args[0].arg in ("self", "cls")
        if isinstance(tgt, FuncInfo):
            if tgt.key not in self.reached:
                self.reached.add(tgt.key)
                ch = True
            a = tgt.node.args
            pos = [x.arg for x in a.posonlyargs + a.args]
            if skip_self:
                # bound method call through self: receiver paths
                recv = set()
                if isinstance(call.func, ast.Attribute):
                    recv = self.paths(fi, call.func.value)
                if pos:
                    ch |= self._bind(tgt.key, pos[0], recv)
                pos = pos[1:]
            for i, arg in enumerate(call.args):
                if isinstance(arg, ast.Starred):
                    continue
                if i < len(pos):
                    ch |= self._bind(tgt.key, pos[i], self.paths(fi, arg))
            for kw in call.keywords:
                if kw.arg:
                    ch |= self._bind(tgt.key, kw.arg, self.paths(fi, kw.value))
        else:
            # setattr(obj, name, value) / obj.__setattr__(name, value): alias obj.* -> value paths
            f = call.func
            objp, valp = None, None
            if isinstance(f, ast.Name) and f.id == "setattr" and len(call.args) == 3:
                objp, valp = self.paths(fi, call.args[0]), self.paths(fi, call.args[2])
            elif isinstance(f, ast.Attribute) and f.attr == "__setattr__" and len(call.args) == 2:
                objp, valp = self.paths(fi, f.value), self.paths(fi, call.args[1])
            if objp and valp:
                for b in objp:
                    # value path "X.*" means attribute-wise copy: obj.a aliases X.a
                    for v in valp:
                        key = b + ".*"
                        cur = self.alias.setdefault(key, set())
                        if v not in cur:
                            cur.add(v)
                            ch = True
        return ch

    def _fix(self, max_iter: int):
        for _ in range(max_iter):
            ch = False
            for key in sorted(self.reached):
                fi = self.prog.funcs.get(key)
                if fi is None:
                    continue
                ch |= self._scan_function(fi)
            if not ch:
                return
        raise AnalysisError("role propagation did not reach a fixpoint")

    # ------------------------------------------------------------------ queries
    def star_alias(self, path: str) -> Set[str]:
        """Resolve attribute-wise copies: 'PARAM.IrrMngt.Schedule' with alias 'PARAM.IrrMngt.*' -> 'USER.irr.*'."""
        out = {path}
        for a, tgts in self.alias.items():
            if a.endswith(".*"):
                base = a[:-2]
                if path.startswith(base + "."):
                    rest = path[len(base) + 1:]
                    for t in tgts:
                        if t.endswith(".*"):
                            out.add(t[:-2] + "." + rest)
        return out
