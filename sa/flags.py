"""Frozen table of finite flag domains (assumption A-1).

Every entry cites where the repository documents the admissible values.  ``cls`` restricts
the entry to objects annotated with that class (needed where two classes use the same
attribute name with different domains).
"""
from .absint import Domains

B = [True, False]
Z1 = [0, 1]

FLAG_TABLE = [
    # ---- crop switches (aquacrop/entities/crop.py: inline comments of Crop.__init__)
    {"attr": "CalendarType", "domain": [1, 2], "cite": "crop.py 'Calendar Type (1 = Calendar days, 2 = Growing degree days)'"},
    {"attr": "CropType", "domain": [1, 2, 3], "cite": "crop.py 'Crop Type (1 = Leafy vegetable, 2 = Root/tuber, 3 = Fruit/grain)'"},
    {"attr": "GDDmethod", "domain": [1, 2, 3], "cite": "crop.py 'Growing degree day calculation method'; growing_degree_day handles 1,2,3"},
    {"attr": "ETadj", "domain": Z1, "cite": "crop.py '(0 = No, 1 = Yes)'"},
    {"attr": "PolHeatStress", "domain": Z1, "cite": "crop.py '(0 = No, 1 = Yes)'"},
    {"attr": "PolColdStress", "domain": Z1, "cite": "crop.py '(0 = No, 1 = Yes)'"},
    {"attr": "TrColdStress", "domain": Z1, "cite": "crop.py '(0 = No, 1 = Yes)'"},
    {"attr": "Determinant", "domain": Z1, "cite": "crop.py '(0 = Indeterminant, 1 = Determinant)'"},
    {"attr": "PlantMethod", "domain": Z1, "cite": "crop.py '(0 = Transplanted, 1 =  Sown)'"},
    {"attr": "SwitchGDD", "domain": Z1, "cite": "crop.py '(0 = No; 1 = Yes)'"},
    {"attr": "SwitchGDDType", "domain": ["mean", "median"], "cite": "crop.py '(mean/median)'"},
    # ---- soil switches (aquacrop/entities/soil.py inline comments)
    {"attr": "adj_rew", "domain": Z1, "cite": "soil.py '(0 = No, 1 = Yes)'"},
    {"attr": "calc_cn", "domain": Z1, "cite": "soil.py 'adjust Curve number based on Ksat' 0/1"},
    {"attr": "adj_cn", "domain": Z1, "cite": "soil.py '(0: No, 1: Yes)'"},
    # ---- field management (fieldManagement.py docstring: booleans)
    {"attr": "mulches", "domain": B, "cite": "fieldManagement.py 'mulches (bool)'"},
    {"attr": "bunds", "domain": B, "cite": "fieldManagement.py 'bunds (bool)'"},
    {"attr": "curve_number_adj", "domain": B, "cite": "fieldManagement.py 'curve_number_adj (bool)'"},
    {"attr": "sr_inhb", "domain": B, "cite": "fieldManagement.py 'sr_inhb (bool)'"},
    # ---- irrigation
    {"attr": "irrigation_method", "domain": [0, 1, 2, 3, 4, 5], "cite": "irrigationManagement.py docstring: methods 0..5"},
    # ---- clock / model
    {"attr": "sim_off_season", "domain": B, "cite": "core.py 'off_season: (True) simulate off-season or (False)'"},
    {"attr": "model_is_finished", "domain": B, "cite": "clockStruct.py 'False unless model has finished'"},
    {"attr": "constant_conc", "domain": B, "cite": "co2.py 'constant_conc (bool)'"},
    # ---- water table
    {"attr": "water_table", "cls": "GroundWater", "domain": ["N", "Y"], "cite": "groundWater.py \"water_table (str): 'Y' or 'N'\""},
    {"attr": "water_table", "cls": "ParamStruct", "domain": Z1, "cite": "read_groundwater_table assigns only 0 / 1"},
    {"attr": "water_table", "domain": [0, 1, "N", "Y"], "cite": "union of the two above when the class is unknown"},
    {"attr": "method", "cls": "GroundWater", "domain": ["Constant", "Variable"], "cite": "groundWater.py \"method (str): 'Constant' or 'Variable'\""},
    {"attr": "method", "cls": "InitialWaterContent", "domain": ["Layer", "Depth"], "cite": "inititalWaterContent.py \"method: 'Depth' or 'Layer'\""},
    {"attr": "WTMethod", "domain": ["Constant", "Variable", "None"], "cite": "read_groundwater_table assigns GwStruct.method or 'None'"},
    {"attr": "wc_type", "domain": ["Prop", "Num", "Pct"], "cite": "inititalWaterContent.py \"wc_type: 'Prop','Num','Pct'\""},
    {"attr": "wt_in_soil", "domain": [None, False, True], "cite": "check_groundwater_table returns None/False/True"},
    # ---- state flags (InitialCondition.__init__ / reset: literals True/False only)
    {"attr": "growing_season", "domain": B, "cite": "assigned only literal True/False in solution_single_time_step"},
    {"attr": "harvest_flag", "domain": B, "cite": "initParamVariables.py states"},
    {"attr": "crop_mature", "domain": B, "cite": "initParamVariables.py states"},
    {"attr": "crop_dead", "domain": B, "cite": "initParamVariables.py states"},
    {"attr": "germination", "domain": B, "cite": "initParamVariables.py states"},
    {"attr": "premat_senes", "domain": B, "cite": "initParamVariables.py states"},
    {"attr": "pre_adj", "domain": B, "cite": "initParamVariables.py states"},
    {"attr": "yield_form", "domain": B, "cite": "initParamVariables.py states"},
]

DOMAINS = Domains(FLAG_TABLE)
