"""Statement-level control-flow graph for one Python function (stdlib ``ast`` only).

Nodes
-----
* ``entry`` / ``exit``
* ``stmt``  – a simple statement (Assign, AugAssign, AnnAssign, Expr, Return, Raise, Pass,
              Assert, Import, nested def/class, With header, Delete, Global ...)
* ``test``  – one *atom* of a branch condition.  ``a and b`` / ``a or b`` / ``not a`` are
              split so that short-circuit operands are control dependent on the operands
              evaluated before them.  Out-edges are labelled True / False.
* ``for``   – loop header of a ``for``: evaluates the iterator, binds the target.
              Out-edges labelled 'body' / 'exit'.
* ``handler`` – entry of an ``except`` clause.

Edges are (target_id, label); label None = unconditional, 'exc' = exceptional edge into a
handler, 'raise' = to exit through an exception.
"""
from __future__ import annotations
import ast
from dataclasses import dataclass, field
from typing import Dict, List, Optional, Set, Tuple


@dataclass
class Node:
    id: int
    kind: str
    ast: Optional[ast.AST] = None
    stmt: Optional[ast.AST] = None          # enclosing statement (If/While for test nodes)
    succs: List[Tuple[int, object]] = field(default_factory=list)
    preds: List[Tuple[int, object]] = field(default_factory=list)

    @property
    def lineno(self):
        return getattr(self.ast, "lineno", None) or getattr(self.stmt, "lineno", None)


class CFG:
    def __init__(self, fn: ast.AST):
        self.fn = fn
        self.nodes: List[Node] = []
        self._try_depth_nodes: List[List[int]] = []
        self.entry = self._new("entry").id
        self.exit = self._new("exit").id
        self._loops: List[Tuple[int, int]] = []        # (continue target, break target)
        self._handlers: List[List[int]] = []           # stack of handler-entry lists
        body = fn.body if hasattr(fn, "body") else [fn]
        first = self._seq(body, self.exit)
        self._edge(self.entry, first, None)
        self._prune_unreachable()
        self._dom = None
        self._pdom = None
        self._cd = None

    # ------------------------------------------------------------ construction
    def _new(self, kind, node=None, stmt=None) -> Node:
        n = Node(len(self.nodes), kind, node, stmt if stmt is not None else node)
        self.nodes.append(n)
        if self._try_depth_nodes and kind not in ("entry", "exit"):
            for lst in self._try_depth_nodes:
                lst.append(n.id)
        return n

    def _edge(self, a: int, b: int, label):
        self.nodes[a].succs.append((b, label))
        self.nodes[b].preds.append((a, label))

    def _seq(self, stmts: List[ast.stmt], nxt: int) -> int:
        """Build the statements so that control continues at ``nxt``; return entry node id."""
        cur = nxt
        for st in reversed(stmts):
            cur = self._stmt(st, cur)
        return cur

    def _cond(self, e: ast.expr, t: int, f: int, stmt: ast.AST) -> int:
        if isinstance(e, ast.BoolOp):
            if isinstance(e.op, ast.And):
                cur = t
                for v in reversed(e.values):
                    cur = self._cond(v, cur, f, stmt)
                return cur
            cur = f
            for v in reversed(e.values):
                cur = self._cond(v, t, cur, stmt)
            return cur
        if isinstance(e, ast.UnaryOp) and isinstance(e.op, ast.Not):
            return self._cond(e.operand, f, t, stmt)
        n = self._new("test", e, stmt)
        self._edge(n.id, t, True)
        self._edge(n.id, f, False)
        return n.id

    def _stmt(self, st: ast.stmt, nxt: int) -> int:
        if isinstance(st, ast.If):
            body = self._seq(st.body, nxt)
            orelse = self._seq(st.orelse, nxt) if st.orelse else nxt
            return self._cond(st.test, body, orelse, st)
        if isinstance(st, ast.While):
            # placeholder head: we need the id before building the body
            head = self._new("stmt", None, st)   # temp join node (acts as loop head no-op)
            head.kind = "loophead"
            orelse = self._seq(st.orelse, nxt) if st.orelse else nxt
            self._loops.append((head.id, nxt))
            body = self._seq(st.body, head.id)
            self._loops.pop()
            test = self._cond(st.test, body, orelse, st)
            self._edge(head.id, test, None)
            return head.id
        if isinstance(st, (ast.For, ast.AsyncFor)):
            head = self._new("for", st, st)
            orelse = self._seq(st.orelse, nxt) if st.orelse else nxt
            self._loops.append((head.id, nxt))
            body = self._seq(st.body, head.id)
            self._loops.pop()
            self._edge(head.id, body, "body")
            self._edge(head.id, orelse, "exit")
            return head.id
        if isinstance(st, ast.Break):
            n = self._new("stmt", st)
            self._edge(n.id, self._loops[-1][1], None)
            return n.id
        if isinstance(st, ast.Continue):
            n = self._new("stmt", st)
            self._edge(n.id, self._loops[-1][0], None)
            return n.id
        if isinstance(st, ast.Return):
            n = self._new("stmt", st)
            self._edge(n.id, self.exit, "return")
            return n.id
        if isinstance(st, ast.Raise):
            n = self._new("stmt", st)
            if self._handlers:
                for h in self._handlers[-1]:
                    self._edge(n.id, h, "exc")
            else:
                self._edge(n.id, self.exit, "raise")
            return n.id
        if isinstance(st, ast.Assert):
            n = self._new("test", st.test, st)
            self._edge(n.id, nxt, True)
            if self._handlers:
                for h in self._handlers[-1]:
                    self._edge(n.id, h, False)
            else:
                self._edge(n.id, self.exit, False)
            return n.id
        if isinstance(st, ast.Try):
            final_entry = self._seq(st.finalbody, nxt) if st.finalbody else nxt
            handler_entries = []
            for h in st.handlers:
                hn = self._new("handler", h, h)
                hb = self._seq(h.body, final_entry)
                self._edge(hn.id, hb, None)
                handler_entries.append(hn.id)
            orelse = self._seq(st.orelse, final_entry) if st.orelse else final_entry
            self._handlers.append(handler_entries)
            collected: List[int] = []
            self._try_depth_nodes.append(collected)
            body = self._seq(st.body, orelse)
            self._try_depth_nodes.pop()
            self._handlers.pop()
            for nid in collected:
                for h in handler_entries:
                    if (h, "exc") not in self.nodes[nid].succs:
                        self._edge(nid, h, "exc")
            return body
        if isinstance(st, (ast.With, ast.AsyncWith)):
            n = self._new("stmt", st)
            body = self._seq(st.body, nxt)
            self._edge(n.id, body, None)
            return n.id
        # simple statement (incl. nested def / class)
        n = self._new("stmt", st)
        self._edge(n.id, nxt, None)
        return n.id

    def _prune_unreachable(self):
        seen = set()
        stack = [self.entry]
        while stack:
            k = stack.pop()
            if k in seen:
                continue
            seen.add(k)
            stack.extend(t for t, _ in self.nodes[k].succs)
        self.reachable = seen
        for n in self.nodes:
            if n.id not in seen:
                for t, l in n.succs:
                    self.nodes[t].preds = [(a, b) for a, b in self.nodes[t].preds if a != n.id]
                n.succs = []

    # ------------------------------------------------------------ queries
    def live_nodes(self) -> List[Node]:
        return [n for n in self.nodes if n.id in self.reachable]

    def rpo(self) -> List[int]:
        seen, order = set(), []

        def dfs(k):
            stack = [(k, iter(self.nodes[k].succs))]
            seen.add(k)
            while stack:
                node, it = stack[-1]
                for t, _ in it:
                    if t not in seen:
                        seen.add(t)
                        stack.append((t, iter(self.nodes[t].succs)))
                        break
                else:
                    order.append(node)
                    stack.pop()
        dfs(self.entry)
        return list(reversed(order))

    def _dominators(self, root: int, succ) -> Dict[int, Set[int]]:
        nodes = [n.id for n in self.live_nodes()]
        # reachable from root following succ
        reach, stack = set(), [root]
        while stack:
            k = stack.pop()
            if k in reach:
                continue
            reach.add(k)
            stack.extend(succ(k))
        preds: Dict[int, List[int]] = {k: [] for k in reach}
        for k in reach:
            for t in succ(k):
                if t in reach:
                    preds[t].append(k)
        dom = {k: set(reach) for k in reach}
        dom[root] = {root}
        changed = True
        order = [k for k in nodes if k in reach]
        while changed:
            changed = False
            for k in order:
                if k == root:
                    continue
                ps = [dom[p] for p in preds[k]]
                new = set.intersection(*ps) if ps else set()
                new = new | {k}
                if new != dom[k]:
                    dom[k] = new
                    changed = True
        return dom

    def dominators(self) -> Dict[int, Set[int]]:
        if self._dom is None:
            self._dom = self._dominators(self.entry, lambda k: [t for t, _ in self.nodes[k].succs])
        return self._dom

    def postdominators(self) -> Dict[int, Set[int]]:
        if self._pdom is None:
            self._pdom = self._dominators(self.exit, lambda k: [p for p, _ in self.nodes[k].preds])
        return self._pdom

    def control_deps(self) -> Dict[int, Set[Tuple[int, object]]]:
        """node -> set of (branch node id, edge label) it is directly control dependent on."""
        if self._cd is None:
            pdom = self.postdominators()
            cd: Dict[int, Set[Tuple[int, object]]] = {n.id: set() for n in self.live_nodes()}
            for x in self.live_nodes():
                if len(x.succs) < 2:
                    continue
                for z, label in x.succs:
                    if z not in pdom:
                        continue
                    # all nodes y that post-dominate z but do not strictly post-dominate x
                    for y in pdom[z]:
                        if y == x.id or y not in pdom.get(x.id, set()):
                            cd[y].add((x.id, label))
                        # (if y strictly postdominates x it is not control dependent on x)
            self._cd = cd
        return self._cd

    def transitive_control_deps(self, nid: int) -> Set[Tuple[int, object]]:
        cd = self.control_deps()
        out: Set[Tuple[int, object]] = set()
        stack = [nid]
        seen = set()
        while stack:
            k = stack.pop()
            if k in seen:
                continue
            seen.add(k)
            for dep in cd.get(k, ()):
                if dep not in out:
                    out.add(dep)
                    stack.append(dep[0])
        return out

    def node_of(self, astnode: ast.AST) -> Optional[Node]:
        for n in self.live_nodes():
            if n.ast is astnode:
                return n
        return None

    def node_containing(self, astnode: ast.AST) -> Optional[Node]:
        """CFG node whose ast contains ``astnode`` (identity), excluding nested statement bodies."""
        for n in self.live_nodes():
            if n.ast is None:
                continue
            if n.kind == "for":
                parts = [n.ast.target, n.ast.iter]
            elif isinstance(n.ast, (ast.With, ast.AsyncWith)):
                parts = [i for it in n.ast.items for i in (it.context_expr, it.optional_vars) if i is not None]
            elif isinstance(n.ast, ast.ExceptHandler):
                parts = [n.ast.type] if n.ast.type is not None else []
            elif isinstance(n.ast, (ast.FunctionDef, ast.ClassDef, ast.AsyncFunctionDef)):
                parts = []
            else:
                parts = [n.ast]
            for p in parts:
                for sub in ast.walk(p):
                    if sub is astnode:
                        return n
        return None

    def reachable_without_edges(self, dst: int, edges: Set[Tuple[int, object]], src: Optional[int] = None) -> bool:
        """is dst reachable from src (default: entry) when the given (node, label) out-edges are removed?"""
        seen, stack = set(), [self.entry if src is None else src]
        while stack:
            k = stack.pop()
            if k in seen:
                continue
            if k == dst:
                return True
            seen.add(k)
            for t, l in self.nodes[k].succs:
                if (k, l) in edges:
                    continue
                stack.append(t)
        return False

    def paths_exist_avoiding(self, src: int, dst: int, avoid: Set[int]) -> bool:
        """Is there a path src ->* dst that does not pass through any node in ``avoid``?"""
        seen, stack = set(), [src]
        while stack:
            k = stack.pop()
            if k in seen or k in avoid:
                continue
            if k == dst:
                return True
            seen.add(k)
            stack.extend(t for t, _ in self.nodes[k].succs)
        return False


def node_reads(n: Node) -> List[ast.AST]:
    """Expressions evaluated by a node (without nested statement bodies)."""
    a = n.ast
    if a is None:
        return []
    if n.kind == "for":
        return [a.iter]
    if isinstance(a, (ast.With, ast.AsyncWith)):
        return [i.context_expr for i in a.items]
    if isinstance(a, (ast.FunctionDef, ast.AsyncFunctionDef)):
        return list(a.args.defaults) + [d for d in a.args.kw_defaults if d is not None] + list(a.decorator_list)
    if isinstance(a, ast.ClassDef):
        return list(a.bases) + list(a.decorator_list)
    if isinstance(a, ast.ExceptHandler):
        return [a.type] if a.type is not None else []
    return [a]


_CFG_CACHE: Dict[int, CFG] = {}


def cfg_of(fn: ast.AST) -> CFG:
    k = id(fn)
    if k not in _CFG_CACHE:
        _CFG_CACHE[k] = CFG(fn)
    return _CFG_CACHE[k]
