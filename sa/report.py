"""Evidence, violations, known findings, assumptions, exit codes."""
from __future__ import annotations
import json
import os
import sys
import time
from typing import Dict, List, Optional

VERIF = os.path.dirname(os.path.dirname(os.path.abspath(__file__)))
EVID_DIR = os.environ.get("VERIF_EVIDENCE_DIR") or os.path.join(VERIF, "evidence")
KNOWN_FILE = os.path.join(VERIF, "known_findings.json")
ASSUME_FILE = os.path.join(VERIF, "assumptions.json")


def _load_json(path, default):
    try:
        with open(path) as fh:
            return json.load(fh)
    except FileNotFoundError:
        return default


class Check:
    """Collects what one run of one property check analysed and found."""

    def __init__(self, pid: str, tier: str = "quick", explanation: str = ""):
        self.pid = pid
        self.tier = tier
        self.t0 = time.time()
        self.explanation = explanation
        self.instances: List[dict] = []        # every rule instance evaluated
        self.violations: List[dict] = []
        self.floors: List[dict] = []
        self.assumptions_used: List[str] = []
        self.notes: Dict[str, object] = {}
        self.analysed: Dict[str, set] = {"functions": set(), "call_sites": set(), "valuations": set()}
        self.exhaustive = False
        self.errors: List[str] = []
        self._assumptions = {a["id"]: a for a in _load_json(ASSUME_FILE, {"assumptions": []})["assumptions"]}
        kf = _load_json(KNOWN_FILE, {"known": [], "fixed": []})
        self._known = [k for k in kf.get("known", []) if k.get("property") == pid]
        self._fixed = [k for k in kf.get("fixed", []) if k.get("property") == pid]

    # ------------------------------------------------------------------ recording
    def instance(self, rule: str, where: str, construct: str, verdict: str, detail: str = "", nontrivial: bool = True):
        self.instances.append({"rule": rule, "where": where, "construct": construct, "verdict": verdict,
                               "detail": detail, "nontrivial": nontrivial})

    def ok(self, rule, where, construct, detail="", nontrivial=True):
        self.instance(rule, where, construct, "holds", detail, nontrivial)

    def violation(self, rule: str, where: str, construct: str, why: str, loc: str = "", witness: str = ""):
        """where = 'module:function' (stable key), loc = 'file:line' (diagnostic only)."""
        self.instance(rule, where, construct, "VIOLATED", why)
        self.violations.append({"rule": rule, "where": where, "construct": construct, "why": why,
                                "loc": loc, "witness": witness})

    def fn(self, key: str):
        self.analysed["functions"].add(key)

    def callsite(self, desc: str):
        self.analysed["call_sites"].add(desc)

    def valuation(self, desc: str):
        self.analysed["valuations"].add(desc)

    def assume(self, aid: str):
        if aid not in self._assumptions:
            self.errors.append(f"assumption {aid} used but not declared in assumptions.json")
            return
        a = self._assumptions[aid]
        s = f"{aid}: {a['text']} (reason: {a['reason']})"
        if s not in self.assumptions_used:
            self.assumptions_used.append(s)

    def floor(self, rule: str, found: int, minimum: int, what: str):
        """Instance floor: a rule that matched fewer sites than confirmed by hand is broken."""
        self.floors.append({"rule": rule, "found": found, "minimum": minimum, "what": what})
        if found < minimum:
            self.errors.append(f"rule {rule}: only {found} {what} matched (floor {minimum}); the rule no longer "
                               f"sees the code it was written for")

    def error(self, msg: str):
        self.errors.append(msg)

    # ------------------------------------------------------------------ parallel sub-rules
    def export(self):
        return {"instances": self.instances, "violations": self.violations, "floors": self.floors,
                "assumptions_used": self.assumptions_used, "notes": self.notes,
                "analysed": {k: sorted(v) for k, v in self.analysed.items()}, "errors": self.errors}

    def merge(self, d):
        self.instances += d["instances"]
        self.violations += d["violations"]
        self.floors += d["floors"]
        for a in d["assumptions_used"]:
            if a not in self.assumptions_used:
                self.assumptions_used.append(a)
        self.notes.update(d["notes"])
        for k, v in d["analysed"].items():
            self.analysed.setdefault(k, set()).update(v)
        self.errors += d["errors"]

    def parallel(self, prog, tasks):
        """tasks: list of callables f(chk, prog); each runs in a forked worker with a fresh Check."""
        import multiprocessing as mp
        global _PAR
        _PAR = (self.pid, self.tier, prog, tasks)
        ctx = mp.get_context("fork")
        with ctx.Pool(min(16, len(tasks))) as pool:
            for d in pool.map(_par_run, range(len(tasks))):
                if "crash" in d:
                    raise RuntimeError(d["crash"])
                self.merge(d)

    # ------------------------------------------------------------------ finishing
    @staticmethod
    def _key(v):
        return (v["rule"], v["where"], v["construct"])

    def finish(self) -> int:
        os.makedirs(EVID_DIR, exist_ok=True)
        known_keys = {(k["rule"], k["where"], k["construct"]): k for k in self._known}
        new, known_hit = [], []
        for v in self.violations:
            if self._key(v) in known_keys:
                known_hit.append(v)
            else:
                new.append(v)
        stale = [k for key, k in known_keys.items() if key not in {self._key(v) for v in self.violations}]

        wall = time.time() - self.t0
        distinct = {(i["rule"], i["where"], i["construct"]) for i in self.instances if i["nontrivial"]}
        samples = []
        seen_rules = {}
        for i in self.instances:
            c = seen_rules.get(i["rule"], 0)
            if c < 4:
                samples.append({k: i[k] for k in ("rule", "where", "construct", "verdict", "detail")})
                seen_rules[i["rule"]] = c + 1
        per_rule: Dict[str, Dict[str, int]] = {}
        for i in self.instances:
            d = per_rule.setdefault(i["rule"], {"instances": 0, "violated": 0})
            d["instances"] += 1
            d["violated"] += 1 if i["verdict"] == "VIOLATED" else 0
        obligations = len(self.instances)
        discharged = sum(1 for i in self.instances if i["verdict"] != "VIOLATED")
        cov = {
            "explanation": self.explanation or f"static structural verification of {self.pid}",
            "evaluations": max(obligations, 0),
            "distinct_nontrivial": len(distinct),
            "rule": "one evaluation = one rule instance (rule, function, normalised construct) decided on the "
                    "current source tree; non-trivial = verdict depends on the code, not on a constant of the checker",
            "samples": samples[:40],
            "obligations": obligations,
            "discharged": discharged,
            "per_rule": per_rule,
            "instance_floors": self.floors,
            "functions_analysed": len(self.analysed["functions"]),
            "functions": sorted(self.analysed["functions"])[:120],
            "call_sites_analysed": len(self.analysed["call_sites"]),
            "valuations_enumerated": len(self.analysed["valuations"]),
            "exhaustive": bool(self.exhaustive),
            "known_findings_matched": [{k: v[k] for k in ("rule", "where", "construct")} for v in known_hit],
            "stale_known_findings": [{k: s[k] for k in ("rule", "where", "construct")} for s in stale],
            "notes": self.notes,
        }
        ev = {
            "property_id": self.pid,
            "tier": self.tier,
            "seed": int(os.environ.get("VERIF_SEED", "0") or 0),
            "level": "other",
            "coverage": cov,
            "assumptions": self.assumptions_used,
            "wall_s": round(wall, 3),
            "violations": len(new),
        }
        with open(os.path.join(EVID_DIR, f"{self.pid}.json"), "w") as fh:
            json.dump(ev, fh, indent=1, default=str)

        for v in known_hit:
            k = known_keys[self._key(v)]
            print(f"KNOWN-FINDING: property={self.pid} {k.get('what', v['why'])} [{v['rule']} {v['where']} :: {v['construct']}]")
        for k in self._fixed:
            # informational only; suppresses nothing
            pass
        if self.errors:
            for e in self.errors:
                print(f"ANALYSIS-ERROR property={self.pid} {e}")
        replay = os.path.join(EVID_DIR, f"{self.pid}.violations.json")
        if not new and os.path.exists(replay):
            os.remove(replay)          # a replay file of an earlier run no longer describes the tree
        if new:
            with open(replay, "w") as fh:
                json.dump(new, fh, indent=1, default=str)
            print(f"VIOLATION property={self.pid} replay={replay}")
            for v in new:
                print(f"  {v['loc'] or '?'} {v['where']} rule={v['rule']} :: {v['construct']} -- {v['why']}"
                      + (f" [witness: {v['witness']}]" if v["witness"] else ""))
            return 1
        if self.errors:
            return 2
        print(f"OK property={self.pid} tier={self.tier} instances={obligations} rules={len(per_rule)} "
              f"functions={len(self.analysed['functions'])} known_findings={len(known_hit)} wall={wall:.2f}s")
        return 0


_PAR = None


def _par_run(i):
    pid, tier, prog, tasks = _PAR
    c = Check(pid, tier)
    try:
        tasks[i](c, prog)
    except Exception as e:          # propagate as analysis error, never as a verdict
        import traceback
        return {"crash": f"{type(e).__name__}: {e}\n{traceback.format_exc()}"}
    return c.export()
