"""Definite-assignment analysis of every function, with call-site contexts.

Functions are processed callers-first; each call site contributes, for every formal of the
callee, the finite domain of the actual argument and the order facts known about it at the
call (e.g. ``HIt > 0``).  The callee is analysed under the join over all its call sites.
"""
from __future__ import annotations
import ast
from typing import Dict, List, Optional, Set, Tuple

from .absint import Interp, Const, ALL, _const_term, Domains
from .cfg import node_reads
from .model import Program, FuncInfo, walk_no_nested


def local_literal_domains(fi: FuncInfo) -> Dict[str, frozenset]:
    """Locals whose every binding is `name = <literal>`: their domain is that set of literals."""
    vals: Dict[str, Optional[set]] = {}
    params = set(fi.params)
    for n in walk_no_nested(fi.node):
        if isinstance(n, ast.Assign) and len(n.targets) == 1 and isinstance(n.targets[0], ast.Name):
            name = n.targets[0].id
            if isinstance(n.value, ast.Constant) and isinstance(n.value.value, (bool, int, str, type(None))) \
                    and not isinstance(n.value.value, float):
                if vals.get(name, set()) is not None:
                    vals.setdefault(name, set()).add(n.value.value)
            else:
                vals[name] = None
        elif isinstance(n, ast.Name) and isinstance(n.ctx, (ast.Store, ast.Del)):
            # any other kind of store (tuple target, for target, augassign ...) is checked below
            pass
    # names stored in any other way are excluded
    simple_targets = set()
    for n in walk_no_nested(fi.node):
        if isinstance(n, ast.Assign) and len(n.targets) == 1 and isinstance(n.targets[0], ast.Name):
            simple_targets.add(id(n.targets[0]))
    for n in walk_no_nested(fi.node):
        if isinstance(n, ast.Name) and isinstance(n.ctx, (ast.Store, ast.Del)) and id(n) not in simple_targets:
            vals[n.id] = None
    out = {}
    for k, v in vals.items():
        if v and k not in params and len(v) <= 6:
            out[k] = frozenset(v)
    return out


def topo_callers_first(prog: Program) -> List[str]:
    g = prog.callgraph()
    indeg = {k: 0 for k in g}
    for k, outs in g.items():
        for o in set(outs):
            if o in indeg and o != k:
                indeg[o] += 1
    order, ready = [], sorted(k for k, d in indeg.items() if d == 0)
    seen = set()
    while ready:
        k = ready.pop(0)
        if k in seen:
            continue
        seen.add(k)
        order.append(k)
        for o in sorted(set(g[k])):
            if o in indeg and o != k:
                indeg[o] -= 1
                if indeg[o] == 0:
                    ready.append(o)
    for k in g:          # cycles (none expected) – append the rest
        if k not in seen:
            order.append(k)
    return order


class Context:
    """Join of what the call sites of one function know about its formals."""

    def __init__(self):
        self.sites = 0
        self.domains: Dict[str, Optional[frozenset]] = {}
        self.rels: Dict[Tuple[str, str], frozenset] = {}
        self._first = True

    def add_site(self, doms: Dict[str, Optional[frozenset]], rels: Dict[Tuple[str, str], frozenset]):
        self.sites += 1
        if self._first:
            self.domains = dict(doms)
            self.rels = dict(rels)
            self._first = False
            return
        for k in set(self.domains) | set(doms):
            a, b = self.domains.get(k), doms.get(k)
            self.domains[k] = (a | b) if (a is not None and b is not None) else None
        new = {}
        for k in set(self.rels) & set(rels):
            r = self.rels[k] | rels[k]
            if r != ALL:
                new[k] = r
        self.rels = new


def site_context(it: Interp, call: ast.Call, target: FuncInfo, part) -> Tuple[dict, dict]:
    a = target.node.args
    pos = [x.arg for x in a.posonlyargs + a.args]
    if target.cls and pos and pos[0] in ("self", "cls"):
        pos = pos[1:]
    actuals: Dict[str, ast.AST] = {}
    for i, arg in enumerate(call.args):
        if isinstance(arg, ast.Starred):
            break
        if i < len(pos):
            actuals[pos[i]] = arg
    for kw in call.keywords:
        if kw.arg:
            actuals[kw.arg] = kw.value
    doms: Dict[str, Optional[frozenset]] = {}
    rels: Dict[Tuple[str, str], frozenset] = {}
    terms: Dict[str, str] = {}
    consts = [t for t in part.pa.terms() if t.startswith("#")]
    for formal, expr in actuals.items():
        v = it.eval(expr, part, record=False)
        if isinstance(v, Const) and _const_term(v.v) is not None:
            doms[formal] = frozenset([v.v])
            rels[(formal, _const_term(v.v))] = frozenset("=")
            terms[formal] = _const_term(v.v)
            continue
        t = it.term(expr, part)
        if t is None or t.startswith("#"):
            doms[formal] = None
            continue
        terms[formal] = t
        pv = it.possible_values(t, part)
        doms[formal] = frozenset(pv) if pv is not None else None
        for c in consts:
            r = part.pa.get(t, c)
            if r != ALL:
                rels[(formal, c)] = r
    # relations between pairs of actuals
    fl = sorted(terms)
    for i, f1 in enumerate(fl):
        for f2 in fl[i + 1:]:
            if terms[f1].startswith("#") and terms[f2].startswith("#"):
                continue
            r = part.pa.get(terms[f1], terms[f2])
            if r != ALL:
                rels[(f1, f2)] = r
    for formal in pos:
        doms.setdefault(formal, None)
    return doms, rels


class DAResult:
    def __init__(self, fi: FuncInfo, interp: Interp, level: int, ctx: Optional[Context]):
        self.fi = fi
        self.interp = interp
        self.level = level
        self.ctx = ctx
        by_name: Dict[str, list] = {}
        for u in interp.uses:
            by_name.setdefault(u.name, []).append(u)
        self.by_name = by_name


def analyse_all(prog: Program, domains: Domains, axioms: Dict[str, list], nonempty: Dict[str, set],
                only: Optional[Set[str]] = None) -> Dict[str, DAResult]:
    order = topo_callers_first(prog)
    ctxs: Dict[str, Context] = {}
    results: Dict[str, DAResult] = {}
    for key in order:
        fi = prog.funcs[key]
        ctx = ctxs.get(key)
        pdom = {}
        facts = []
        if ctx is not None and ctx.sites > 0:
            pdom = {k: v for k, v in ctx.domains.items() if v is not None}
            facts = [(a, b, r) for (a, b), r in ctx.rels.items()]
        kw = dict(domains=domains, param_domains=pdom, init_facts=facts,
                  axioms=axioms.get(fi.qualname, []) , nonempty_loops=nonempty.get(fi.qualname, set()),
                  local_domains=local_literal_domains(fi))
        it = Interp(prog, fi, part_key="bound", **kw).run()
        level = 0
        if it.uses:
            it = Interp(prog, fi, part_key="facts", maxp=64, **kw).run()
            level = 1
        results[key] = DAResult(fi, it, level, ctx)
        # contexts for callees
        cfg = it.cfg
        for n in cfg.live_nodes():
            parts = it.node_facts.get(n.id) or []
            if not parts:
                continue
            for root in node_reads(n):
                for sub in ast.walk(root):
                    if isinstance(sub, ast.Call):
                        tgt = prog.resolve_call(fi, sub)
                        if hasattr(tgt, "methods"):       # class instantiation -> __init__
                            tgt = tgt.methods.get("__init__")
                        if tgt is None or not hasattr(tgt, "qualname"):
                            continue
                        c = ctxs.setdefault(tgt.key, Context())
                        for p in parts:
                            d, r = site_context(it, sub, tgt, p)
                            c.add_site(d, r)
    return results
