"""Abstract interpreter over the statement CFG.

One engine, three uses:
  * DA  – definite assignment of locals (may-be-unbound uses), path-refined by
          finite flag domains and an order ("point algebra") abstraction of the
          comparisons the function makes;
  * CP  – constant propagation under a flag valuation, interprocedural by inlining
          resolved repo callees (the call graph is acyclic);
  * facts – which comparison atoms are known true/false at a node.

Abstract state of one *partition*:
  env   : name -> (value, definitely_bound)         (absent name = definitely unbound)
  heap  : (object id, attribute) -> value           (fields of abstract objects)
  pa    : point-algebra network over terms: (t1,t2) -> subset of {'<','=','>'}
A program point holds a small list of partitions (trace partitioning); partitions with the
same key are joined, loop heads join everything and widen.
"""
from __future__ import annotations
import ast
import itertools
import math
from dataclasses import dataclass
from typing import Dict, List, Optional, Set, Tuple, Callable

from .cfg import CFG, cfg_of, Node
from .model import Program, FuncInfo, ClassInfo, walk_no_nested

# --------------------------------------------------------------------------- values


class _Top:
    __slots__ = ()

    def __repr__(self):
        return "TOP"

    def __reduce__(self):
        return (_get_top, ())


def _get_top():
    return TOP


TOP = _Top()


@dataclass(frozen=True)
class Const:
    v: object

    def __repr__(self):
        return f"Const({self.v!r})"

    def __eq__(self, other):
        return isinstance(other, Const) and type(self.v) is type(other.v) and (
            self.v == other.v or (isinstance(self.v, float) and self.v != self.v and other.v != other.v))

    def __hash__(self):
        return hash((type(self.v).__name__, repr(self.v)))


@dataclass(frozen=True)
class Tup:
    items: tuple


@dataclass(frozen=True)
class In:
    """the (unknown) value a state field had on entry; flows through copies only"""
    name: str


def tflat(t) -> frozenset:
    if isinstance(t, tuple):
        out = frozenset()
        for x in t:
            out |= tflat(x)
        return out
    return t or frozenset()


def tunion(a, b):
    if isinstance(a, tuple) and isinstance(b, tuple) and len(a) == len(b):
        return tuple(tunion(x, y) for x, y in zip(a, b))
    return tflat(a) | tflat(b)


@dataclass(frozen=True)
class Sgn:
    """an unknown number known to be >= 0 ('+') or <= 0 ('-')"""
    s: str


def _is_num(v) -> bool:
    return isinstance(v, Const) and isinstance(v.v, (int, float)) and not isinstance(v.v, bool)


def sign_of(v) -> str:
    """'+' (>=0), '-' (<=0), '0', or '?'"""
    if _is_num(v):
        return "0" if v.v == 0 else "+" if v.v > 0 else "-"
    if isinstance(v, Sgn):
        return v.s
    return "?"


@dataclass(frozen=True)
class Obj:
    oid: object


def join_val(a, b):
    if a is TOP or b is TOP:
        return TOP
    if a == b:
        return a
    if _is_num(a) and _is_num(b) and a.v == b.v:
        return a if isinstance(a.v, float) else b
    sa_, sb_ = sign_of(a), sign_of(b)
    if "?" not in (sa_, sb_) and (isinstance(a, Sgn) or isinstance(b, Sgn) or (_is_num(a) and _is_num(b))):
        if {sa_, sb_} <= {"+", "0"}:
            return Sgn("+")
        if {sa_, sb_} <= {"-", "0"}:
            return Sgn("-")
    if isinstance(a, Tup) and isinstance(b, Tup) and len(a.items) == len(b.items):
        return Tup(tuple(join_val(x, y) for x, y in zip(a.items, b.items)))
    return TOP


# --------------------------------------------------------------------------- point algebra

ALL = frozenset("<=>")
_OPS = {
    ast.Lt: frozenset("<"), ast.LtE: frozenset("<="), ast.Gt: frozenset(">"), ast.GtE: frozenset("=>"),
    ast.Eq: frozenset("="), ast.NotEq: frozenset("<>"), ast.Is: frozenset("="), ast.IsNot: frozenset("<>"),
}
_INV = {"<": ">", ">": "<", "=": "="}
_COMP = {
    ("<", "<"): "<", ("<", "="): "<", ("<", ">"): "<=>",
    ("=", "<"): "<", ("=", "="): "=", ("=", ">"): ">",
    (">", "<"): "<=>", (">", "="): ">", (">", ">"): ">",
}


def _inv_raw(rel: frozenset) -> frozenset:
    return frozenset(_INV[r] for r in rel)


def _compose_raw(r1: frozenset, r2: frozenset) -> frozenset:
    out = set()
    for a in r1:
        for b in r2:
            out.update(_COMP[(a, b)])
    return frozenset(out)


def _subsets():
    items = "<=>"
    for m in range(8):
        yield frozenset(c for i, c in enumerate(items) if m >> i & 1)


_INV_TAB = {r: _inv_raw(r) for r in _subsets()}
_COMP_TAB = {(a, b): _compose_raw(a, b) for a in _subsets() for b in _subsets()}


def _inv(rel: frozenset) -> frozenset:
    return _INV_TAB[rel]


def _compose(r1: frozenset, r2: frozenset) -> frozenset:
    return _COMP_TAB[(r1, r2)]


def _const_term(v) -> Optional[str]:
    if isinstance(v, bool):
        return f"#{int(v)}"
    if isinstance(v, (int, float)):
        if isinstance(v, float) and (math.isnan(v) or math.isinf(v)):
            return None
        return f"#{float(v)!r}" if float(v) != int(v) else f"#{int(v)}"
    if v is None:
        return "#None"
    if isinstance(v, str):
        return f"#s{v!r}"
    return None


def _const_rel(a: str, b: str) -> frozenset:
    """Relation between two constant terms."""
    if a == b:
        return frozenset("=")
    na = a[1:] if not a.startswith("#s") and a != "#None" else None
    nb = b[1:] if not b.startswith("#s") and b != "#None" else None
    if na is not None and nb is not None:
        fa, fb = float(na), float(nb)
        return frozenset("<") if fa < fb else frozenset(">") if fa > fb else frozenset("=")
    return frozenset("<>")          # unordered, only known to differ


class PA:
    """Point-algebra constraint network (path-consistency closure is complete for PA)."""

    def __init__(self, rel: Optional[Dict[Tuple[str, str], frozenset]] = None):
        self.rel: Dict[Tuple[str, str], frozenset] = dict(rel or {})

    def copy(self) -> "PA":
        return PA(self.rel)

    def terms(self) -> Set[str]:
        s = set()
        for a, b in self.rel:
            s.add(a)
            s.add(b)
        return s

    def get(self, a: str, b: str) -> frozenset:
        if a == b:
            return frozenset("=")
        if a.startswith("#") and b.startswith("#"):
            return _const_rel(a, b)
        if (a, b) in self.rel:
            return self.rel[(a, b)]
        if (b, a) in self.rel:
            return _inv(self.rel[(b, a)])
        # relation to a constant implied through the other constants the term is related to
        ca, cb = a.startswith("#"), b.startswith("#")
        if ca != cb:
            t, c = (b, a) if ca else (a, b)
            out = ALL
            for (x, y), r in self.rel.items():
                if x == t and y.startswith("#"):
                    out = out & _compose(r, _const_rel(y, c))
                elif y == t and x.startswith("#"):
                    out = out & _compose(_inv(r), _const_rel(x, c))
            return _inv(out) if ca else out
        return ALL

    def _set(self, a: str, b: str, r: frozenset):
        if a <= b:
            self.rel[(a, b)] = r
            self.rel.pop((b, a), None)
        else:
            self.rel[(b, a)] = _inv(r)
            self.rel.pop((a, b), None)

    def add(self, a: str, b: str, r: frozenset) -> bool:
        """Constrain a R b; returns False if the network becomes inconsistent."""
        cur = self.get(a, b)
        new = cur & r
        if not new:
            return False
        if new != cur:
            self._set(a, b, new)
            return self._propagate([(a, b)])
        return True

    def _propagate(self, queue) -> bool:
        terms = self.terms()
        while queue:
            i, j = queue.pop()
            rij = self.get(i, j)
            for k in terms:
                if k == i or k == j:
                    continue
                # i -> j -> k
                rjk = self.get(j, k)
                if rjk != ALL or rij != ALL:
                    cur = self.get(i, k)
                    new = cur & _compose(rij, rjk)
                    if not new:
                        return False
                    if new != cur:
                        self._set(i, k, new)
                        queue.append((i, k))
                # k -> i -> j
                rki = self.get(k, i)
                if rki != ALL or rij != ALL:
                    cur = self.get(k, j)
                    new = cur & _compose(rki, rij)
                    if not new:
                        return False
                    if new != cur:
                        self._set(k, j, new)
                        queue.append((k, j))
        return True

    def close(self) -> bool:
        return self._propagate([k for k in list(self.rel)])

    def kill(self, pred: Callable[[str], bool]):
        for key in [k for k in self.rel if pred(k[0]) or pred(k[1])]:
            del self.rel[key]

    def join(self, other: "PA") -> "PA":
        out = {}
        for key in set(self.rel) & set(other.rel):
            r = self.rel[key] | other.rel[key]
            if r != ALL:
                out[key] = r
        # keys present in only one network carry no information after the join,
        # except through the other's implied relation
        for key in set(self.rel) ^ set(other.rel):
            r = self.get(*key) | other.get(*key)
            if r != ALL:
                out[key] = r
        return PA(out)

    def describe(self) -> str:
        sym = {frozenset("<"): "<", frozenset("<="): "<=", frozenset("="): "==", frozenset("<>"): "!=",
               frozenset("=>"): ">=", frozenset(">"): ">"}
        parts = []
        for (a, b), r in sorted(self.rel.items()):
            if r in sym:
                parts.append(f"{a.lstrip('#')} {sym[r]} {b.lstrip('#')}")
        return ", ".join(parts)


# --------------------------------------------------------------------------- partition

class Part:
    __slots__ = ("env", "heap", "pa", "tag", "taint")

    def __init__(self, env=None, heap=None, pa=None, tag=(), taint=None):
        self.env: Dict[str, Tuple[object, bool]] = env if env is not None else {}
        self.heap: Dict[Tuple[object, str], object] = heap if heap is not None else {}
        self.pa: PA = pa if pa is not None else PA()
        self.tag = tag
        self.taint: Dict[tuple, object] = taint if taint is not None else {}

    def copy(self) -> "Part":
        return Part(dict(self.env), dict(self.heap), self.pa.copy(), self.tag, dict(self.taint))

    def join(self, o: "Part") -> "Part":
        env = {}
        for k in set(self.env) | set(o.env):
            if k in self.env and k in o.env:
                (v1, b1), (v2, b2) = self.env[k], o.env[k]
                env[k] = (join_val(v1, v2), b1 and b2)
            else:
                v, _ = self.env.get(k) or o.env.get(k)
                env[k] = (v, False)
        heap = {}
        for k in set(self.heap) & set(o.heap):
            v = join_val(self.heap[k], o.heap[k])
            if v is not TOP:
                heap[k] = v
        taint = dict(self.taint)
        for k, t in o.taint.items():
            taint[k] = tunion(taint[k], t) if k in taint else t
        return Part(env, heap, self.pa.join(o.pa), self.tag, taint)

    def widen_from(self, old: "Part") -> "Part":
        """self = new state at a loop head, old = previous: anything that changed goes to TOP."""
        j = old.join(self)
        return j

    def same(self, o: "Part") -> bool:
        return self.env == o.env and self.heap == o.heap and self.pa.rel == o.pa.rel and self.taint == o.taint


# --------------------------------------------------------------------------- the engine

@dataclass
class Use:
    name: str
    node: Node
    astnode: ast.AST
    witness: str
    definitely: bool


class Domains:
    """Finite domains of flag-like terms.  Lookup by (class hint, attribute) or attribute."""

    def __init__(self, table: List[dict]):
        self.by_attr: Dict[str, List[dict]] = {}
        for e in table:
            self.by_attr.setdefault(e["attr"], []).append(e)

    def lookup(self, attr: str, cls: Optional[str] = None) -> Optional[frozenset]:
        es = self.by_attr.get(attr)
        if not es:
            return None
        if cls is not None:
            for e in es:
                if e.get("cls") == cls:
                    return frozenset(e["domain"])
        generic = [e for e in es if not e.get("cls")]
        if generic:
            return frozenset(generic[0]["domain"])
        if len(es) == 1 and cls is None:
            return frozenset(es[0]["domain"])
        return None


class Interp:
    MAXP = 16

    def __init__(self, prog: Program, fi: FuncInfo, *, domains: Optional[Domains] = None,
                 param_vals: Optional[Dict[str, object]] = None,
                 param_domains: Optional[Dict[str, frozenset]] = None,
                 param_classes: Optional[Dict[str, str]] = None,
                 init_heap: Optional[Dict] = None,
                 init_facts: Optional[List[Tuple[str, str, frozenset]]] = None,
                 interprocedural: bool = False,
                 part_key: str = "bound",
                 depth: int = 0,
                 idioms: Optional[Callable] = None,
                 axioms: Optional[List[Tuple[str, str, frozenset]]] = None,
                 nonempty_loops: Optional[Set[str]] = None,
                 local_domains: Optional[Dict[str, frozenset]] = None,
                 split_vars: Optional[List[str]] = None,
                 maxp: Optional[int] = None,
                 integer_counters: bool = False,
                 taint: bool = False, sinks: Optional[list] = None,
                 param_taints: Optional[Dict[str, object]] = None,
                 init_taint: Optional[Dict[tuple, object]] = None):
        self.prog = prog
        self.fi = fi
        self.cfg: CFG = cfg_of(fi.node)
        self.domains = domains or Domains([])
        self.param_vals = param_vals or {}
        self.param_domains = dict(param_domains or {})
        self.param_classes = dict(param_classes or {})
        self.init_heap = init_heap or {}
        self.init_facts = init_facts or []
        self.interprocedural = interprocedural
        self.part_key = part_key
        self.depth = depth
        self.idioms = idioms
        self.axioms = list(axioms or [])
        self.nonempty_loops = set(nonempty_loops or ())
        self.split_vars = list(split_vars or [])
        self.integer_counters = integer_counters
        self.taint_mode = taint
        self.sinks = sinks if sinks is not None else []
        self.param_taints = param_taints or {}
        self.init_taint = init_taint or {}
        self._call_taint: Dict[int, object] = {}
        if maxp:
            self.MAXP = maxp
        self.locals = self._locals()
        self.test_names, self.stable = self._test_names_and_stable()
        self.term_domain: Dict[str, frozenset] = dict(local_domains or {})
        self.uses: List[Use] = []
        self.zero_divs: List[Tuple[ast.AST, Node, str]] = []
        self.in_states: Dict[int, List[Part]] = {}
        self.returns: List[Tuple[object, Part]] = []
        self.node_facts: Dict[int, List[Part]] = {}
        self.call_log: List[Tuple[ast.Call, str]] = []
        # annotation class hints
        a = fi.node.args
        for arg in a.posonlyargs + a.args + a.kwonlyargs:
            if arg.annotation is not None and arg.arg not in self.param_classes:
                ann = arg.annotation
                if isinstance(ann, ast.Constant) and isinstance(ann.value, str):
                    self.param_classes[arg.arg] = ann.value.split(".")[-1]
                elif isinstance(ann, ast.Name):
                    self.param_classes[arg.arg] = ann.id

    # ----------------------------------------------------------- helpers
    def _locals(self) -> Set[str]:
        names = set(self.fi.params)
        for n in walk_no_nested(self.fi.node):
            if isinstance(n, ast.Name) and isinstance(n.ctx, (ast.Store, ast.Del)):
                names.add(n.id)
            elif isinstance(n, (ast.FunctionDef, ast.AsyncFunctionDef, ast.ClassDef)):
                names.add(n.name)
            elif isinstance(n, (ast.Import, ast.ImportFrom)):
                for al in n.names:
                    names.add((al.asname or al.name).split(".")[0])
            elif isinstance(n, ast.ExceptHandler) and n.name:
                names.add(n.name)
        # comprehension targets are not function locals
        comp_targets = set()
        for n in walk_no_nested(self.fi.node):
            if isinstance(n, (ast.ListComp, ast.SetComp, ast.DictComp, ast.GeneratorExp)):
                for g in n.generators:
                    for t in ast.walk(g.target):
                        if isinstance(t, ast.Name):
                            comp_targets.add(t.id)
        stores_outside = set(self.fi.params)
        for n in self._walk_outside_comps(self.fi.node):
            if isinstance(n, ast.Name) and isinstance(n.ctx, (ast.Store, ast.Del)):
                stores_outside.add(n.id)
            elif isinstance(n, (ast.FunctionDef, ast.AsyncFunctionDef, ast.ClassDef)):
                stores_outside.add(n.name)
            elif isinstance(n, (ast.Import, ast.ImportFrom)):
                for al in n.names:
                    stores_outside.add((al.asname or al.name).split(".")[0])
            elif isinstance(n, ast.ExceptHandler) and n.name:
                stores_outside.add(n.name)
        return {n for n in names if n in stores_outside}

    def _test_names_and_stable(self):
        tests = set()
        self.test_attrs = set()
        stores: Dict[str, int] = {}
        attr_stores = set()
        for n in walk_no_nested(self.fi.node):
            t = None
            if isinstance(n, (ast.If, ast.While, ast.IfExp, ast.Assert)):
                t = n.test
            if t is not None:
                for sub in ast.walk(t):
                    if isinstance(sub, ast.Name):
                        tests.add(sub.id)
                    elif isinstance(sub, ast.Attribute):
                        self.test_attrs.add(sub.attr)
            if isinstance(n, ast.Name) and isinstance(n.ctx, (ast.Store, ast.Del)):
                stores[n.id] = stores.get(n.id, 0) + 1
            if isinstance(n, ast.Attribute) and isinstance(n.ctx, (ast.Store, ast.Del)):
                attr_stores.add(n.attr)
            if isinstance(n, ast.AugAssign) and isinstance(n.target, ast.Name):
                stores[n.target.id] = stores.get(n.target.id, 0) + 1
        stable = {x for x in self.locals if stores.get(x, 0) <= (0 if x in self.fi.params else 1)}
        self._attr_stores = attr_stores
        return tests, stable

    def _stable_term(self, t: str) -> bool:
        if t.startswith("#"):
            return True
        if "[" in t:
            return False
        ids = _idents(t)
        if not ids and not t.startswith("@"):
            return False
        if t.startswith("@") or "." in t:
            attr = t.rsplit(".", 1)[-1].rstrip(")")
            if attr in self._attr_stores:
                return False
        return all(i in self.stable or i not in self.locals for i in ids)

    @staticmethod
    def _walk_outside_comps(fn):
        stack = list(ast.iter_child_nodes(fn))
        while stack:
            n = stack.pop()
            yield n
            if isinstance(n, (ast.FunctionDef, ast.AsyncFunctionDef, ast.ClassDef, ast.Lambda)):
                continue
            if isinstance(n, (ast.ListComp, ast.SetComp, ast.DictComp, ast.GeneratorExp)):
                # only the first iterator is evaluated in the enclosing scope
                stack.append(n.generators[0].iter)
                continue
            stack.extend(ast.iter_child_nodes(n))

    # ----------------------------------------------------------- terms
    def term(self, e: ast.AST, p: Part) -> Optional[str]:
        """Canonical term of a 'stable' expression, or None."""
        if isinstance(e, ast.Constant):
            return _const_term(e.value)
        if isinstance(e, ast.UnaryOp) and isinstance(e.op, ast.USub) and isinstance(e.operand, ast.Constant) \
                and isinstance(e.operand.value, (int, float)):
            return _const_term(-e.operand.value)
        if isinstance(e, ast.Name):
            if e.id in p.env:
                v = p.env[e.id][0]
                if isinstance(v, Const):
                    return _const_term(v.v)
            return e.id
        if isinstance(e, ast.Attribute):
            v = self.eval(e, p, record=False)
            if isinstance(v, Const):
                return _const_term(v.v)
            base = e.value
            if isinstance(base, ast.Name) and base.id in p.env and isinstance(p.env[base.id][0], Obj):
                t = f"@{p.env[base.id][0].oid}.{e.attr}"
            else:
                bt = self.term(base, p)
                if bt is None or bt.startswith("#"):
                    return None
                t = f"{bt}.{e.attr}"
            if t not in self.term_domain:
                cls = None
                if isinstance(base, ast.Name):
                    cls = self.param_classes.get(base.id)
                d = self.domains.lookup(e.attr, cls)
                if d is not None:
                    self.term_domain[t] = d
            return t
        if isinstance(e, ast.Subscript):
            bt = self.term(e.value, p)
            it = self.term(e.slice, p) if not isinstance(e.slice, ast.Slice) else None
            if bt is None or it is None or bt.startswith("#"):
                return None
            return f"{bt}[{it}]"
        if isinstance(e, ast.BinOp):
            v = self.eval(e, p, record=False)
            if isinstance(v, Const):
                return _const_term(v.v)
        if isinstance(e, ast.BinOp) and isinstance(e.op, (ast.Add, ast.Sub)):
            # t + c / t - c with constant c: used for "n_seasons - 1"
            lt, rt = self.term(e.left, p), self.term(e.right, p)
            if lt and rt and not lt.startswith("#") and rt.startswith("#") and not rt.startswith("#s"):
                if rt in ("#0", "#0.0"):
                    return lt
                return f"({lt}{'+' if isinstance(e.op, ast.Add) else '-'}{rt[1:]})"
            if lt and rt and lt in ("#0", "#0.0") and isinstance(e.op, ast.Add) and not rt.startswith("#"):
                return rt
            return None
        if isinstance(e, ast.Call) and isinstance(e.func, ast.Name) and e.func.id in ("len", "int", "float") \
                and len(e.args) == 1 and not e.keywords:
            at = self.term(e.args[0], p)
            if at and not at.startswith("#"):
                return f"{e.func.id}({at})"
        return None

    def domain_of(self, t: str, p: Part) -> Optional[frozenset]:
        d = self.term_domain.get(t)
        if d is None and t in self.param_domains:
            d = self.param_domains[t]
        # inherit through equalities
        for (a, b), r in p.pa.rel.items():
            if r == frozenset("="):
                other = b if a == t else a if b == t else None
                if other is not None and not other.startswith("#"):
                    od = self.term_domain.get(other) or self.param_domains.get(other)
                    if od is not None:
                        d = od if d is None else (d & od)
        return d

    def possible_values(self, t: str, p: Part) -> Optional[List[object]]:
        d = self.domain_of(t, p)
        if d is None:
            return None
        out = []
        for val in d:
            ct = _const_term(val)
            ok = True
            for other in p.pa.terms():
                if other.startswith("#"):
                    if not (_const_rel(ct, other) & p.pa.get(t, other)):
                        ok = False
                        break
            if ok:
                out.append(val)
        return out

    # ----------------------------------------------------------- atoms
    def _atom(self, e: ast.AST, p: Part) -> Optional[Tuple[str, str, frozenset]]:
        """test expression -> (term1, term2, relation-if-true) or None."""
        if isinstance(e, ast.Compare) and len(e.ops) == 1 and type(e.ops[0]) in _OPS:
            l, r = self.term(e.left, p), self.term(e.comparators[0], p)
            if l is None or r is None:
                return None
            return (l, r, _OPS[type(e.ops[0])])
        if isinstance(e, (ast.Name, ast.Attribute, ast.Subscript)):
            t = self.term(e, p)
            if t is None:
                return None
            if t.startswith("#"):
                return (t, "#0", frozenset("<>")) if t not in ("#None", "#s''") else (t, t, frozenset("<>"))
            d = self.domain_of(t, p)
            if d is not None and all(isinstance(x, (bool, int)) or x is None for x in d):
                # truthiness over a 0/1/None domain: true iff != 0 (None handled through possible values)
                return (t, "#0", frozenset("<>")) if None not in d else None
            bt = f"bool({t})"
            self.term_domain.setdefault(bt, frozenset([0, 1]))
            return (bt, "#0", frozenset("<>"))
        return None

    @staticmethod
    def _links(e: ast.Compare):
        out, left = [], e.left
        for op, c in zip(e.ops, e.comparators):
            out.append(ast.copy_location(ast.Compare(left=left, ops=[op], comparators=[c]), e))
            left = c
        return out

    def eval_test(self, e: ast.AST, p: Part) -> Optional[bool]:
        if isinstance(e, ast.Compare) and len(e.ops) > 1:
            rs = [self.eval_test(l, p) for l in self._links(e)]
            if any(r is False for r in rs):
                return False
            if all(r is True for r in rs):
                return True
            return None
        v = self.eval(e, p, record=False)
        if isinstance(v, Const):
            try:
                return bool(v.v)
            except Exception:
                return None
        at = self._atom(e, p)
        if at is None:
            # truthiness over domains containing None
            if isinstance(e, (ast.Name, ast.Attribute)):
                t = self.term(e, p)
                if t:
                    pv = self.possible_values(t, p)
                    if pv is not None and pv:
                        tv = {bool(x) for x in pv}
                        if len(tv) == 1:
                            return tv.pop()
            return None
        l, r, rel = at
        if l.startswith("#") and r.startswith("#"):
            cr = _const_rel(l, r)
            return True if cr <= rel else False if not (cr & rel) else None
        cur = p.pa.get(l, r)
        # refine by finite domains
        for t, o, flip in ((l, r, False), (r, l, True)):
            if o.startswith("#") and not t.startswith("#"):
                pv = self.possible_values(t, p)
                if pv is not None:
                    rs = set()
                    for val in pv:
                        cr = _const_rel(_const_term(val), o)
                        rs |= set(_inv(cr) if flip else cr)
                    cur = cur & frozenset(rs) if rs else cur
        if cur <= rel:
            return True
        if not (cur & rel):
            return False
        return None

    def assume(self, e: ast.AST, truth: bool, p: Part) -> bool:
        """Refine p by assuming test e has the given truth value. False = infeasible."""
        if isinstance(e, ast.Compare) and len(e.ops) > 1:
            ev0 = self.eval_test(e, p)
            if ev0 is not None:
                return ev0 == truth
            if truth:
                return all(self.assume(l, True, p) for l in self._links(e))
            return True
        ev = self.eval_test(e, p)
        if ev is not None:
            return ev == truth
        # a + b <= c with a, b >= 0 and c == 0 forces a == b == 0 (sum of non-negatives)
        if isinstance(e, ast.Compare) and len(e.ops) == 1 and isinstance(e.left, ast.BinOp) and isinstance(e.left.op, ast.Add):
            op = e.ops[0]
            if (isinstance(op, ast.Gt) and not truth) or (isinstance(op, ast.LtE) and truth):
                c = self.eval(e.comparators[0], p, False)
                va, vb = self.eval(e.left.left, p, False), self.eval(e.left.right, p, False)
                if _is_num(c) and c.v <= 0 and sign_of(va) in ("+", "0") and sign_of(vb) in ("+", "0"):
                    if c.v < 0:
                        return False
                    for x in (e.left.left, e.left.right):
                        if isinstance(x, ast.Name) and x.id in p.env:
                            p.env[x.id] = (Const(0), p.env[x.id][1])
        at = self._atom(e, p)
        if at is None:
            if isinstance(e, (ast.Name, ast.Attribute)):
                t = self.term(e, p)
                if t and not t.startswith("#"):
                    pv = self.possible_values(t, p)
                    if pv is not None:
                        keep = [x for x in pv if bool(x) == truth]
                        if not keep:
                            return False
                        if len(keep) == 1:
                            return p.pa.add(t, _const_term(keep[0]), frozenset("="))
            return True
        l, r, rel = at
        want = rel if truth else (ALL - rel)
        if not p.pa.add(l, r, want):
            return False
        # domain exhaustion check
        for t in (l, r):
            if not t.startswith("#"):
                pv = self.possible_values(t, p)
                if pv is not None:
                    if not pv:
                        return False
                    if len(pv) == 1:
                        if not p.pa.add(t, _const_term(pv[0]), frozenset("=")):
                            return False
        return True

    # ----------------------------------------------------------- expression evaluation
    def eval(self, e: ast.AST, p: Part, record: bool = True):
        m = getattr(self, "_ev_" + type(e).__name__, None)
        if m is None:
            if record:
                for sub in ast.iter_child_nodes(e):
                    if isinstance(sub, ast.expr):
                        self.eval(sub, p, record)
            return TOP
        return m(e, p, record)

    def _ev_Constant(self, e, p, record):
        if isinstance(e.value, (int, float, bool, str)) or e.value is None:
            return Const(e.value)
        return TOP

    def _ev_Name(self, e, p, record):
        if isinstance(e.ctx, ast.Load):
            if e.id in self.locals:
                if e.id not in p.env:
                    if record:
                        self._use(e, p, True)
                    return TOP
                v, b = p.env[e.id]
                if not b and record:
                    self._use(e, p, False)
                return v
            if e.id in ("True", "False", "None"):
                return Const({"True": True, "False": False, "None": None}[e.id])
        return TOP

    def _use(self, e: ast.Name, p: Part, definitely: bool):
        self.uses.append(Use(e.id, self._cur_node, e, p.pa.describe(), definitely))

    def _ev_Attribute(self, e, p, record):
        base = self.eval(e.value, p, record)
        if isinstance(base, Obj):
            return p.heap.get((base.oid, e.attr), TOP)
        return TOP

    def _ev_Tuple(self, e, p, record):
        return Tup(tuple(self.eval(x, p, record) for x in e.elts))

    def _ev_List(self, e, p, record):
        for x in e.elts:
            self.eval(x, p, record)
        return TOP

    def _ev_Subscript(self, e, p, record):
        b = self.eval(e.value, p, record)
        i = self.eval(e.slice, p, record) if not isinstance(e.slice, ast.Slice) else TOP
        if isinstance(e.slice, ast.Slice) and record:
            for s in (e.slice.lower, e.slice.upper, e.slice.step):
                if s is not None:
                    self.eval(s, p, record)
        if isinstance(b, Tup) and isinstance(i, Const) and isinstance(i.v, int) and -len(b.items) <= i.v < len(b.items):
            return b.items[i.v]
        return TOP

    def _ev_UnaryOp(self, e, p, record):
        v = self.eval(e.operand, p, record)
        if isinstance(v, Const):
            try:
                if isinstance(e.op, ast.USub):
                    return Const(-v.v)
                if isinstance(e.op, ast.UAdd):
                    return Const(+v.v)
                if isinstance(e.op, ast.Not):
                    return Const(not v.v)
            except Exception:
                return TOP
        if isinstance(e.op, ast.Not):
            t = self.eval_test(e.operand, p)
            if t is not None:
                return Const(not t)
        return TOP

    _BIN = {ast.Add: lambda a, b: a + b, ast.Sub: lambda a, b: a - b, ast.Mult: lambda a, b: a * b,
            ast.Div: lambda a, b: a / b, ast.FloorDiv: lambda a, b: a // b, ast.Mod: lambda a, b: a % b,
            ast.Pow: lambda a, b: a ** b}

    def _ev_BinOp(self, e, p, record):
        l = self.eval(e.left, p, record)
        r = self.eval(e.right, p, record)
        f = self._BIN.get(type(e.op))
        if isinstance(e.op, (ast.Div, ast.FloorDiv, ast.Mod)) and isinstance(r, Const) and isinstance(r.v, (int, float)) \
                and not isinstance(r.v, bool) and r.v == 0 and record:
            self.zero_divs.append((e, self._cur_node, p.pa.describe()))
        if f and isinstance(l, Const) and isinstance(r, Const) and isinstance(l.v, (int, float)) \
                and isinstance(r.v, (int, float)):
            try:
                return Const(f(l.v, r.v))
            except Exception:
                return TOP
        if f and isinstance(l, Const) and isinstance(r, Const) and isinstance(l.v, str) and isinstance(r.v, str) \
                and isinstance(e.op, ast.Add):
            return Const(l.v + r.v)
        return TOP

    def _ev_BoolOp(self, e, p, record):
        vals = [self.eval(v, p, record) for v in e.values]
        tv = []
        for v, ex in zip(vals, e.values):
            if isinstance(v, Const):
                tv.append(bool(v.v))
            else:
                tv.append(self.eval_test(ex, p))
        if isinstance(e.op, ast.And):
            if any(t is False for t in tv):
                return Const(False) if all(isinstance(v, Const) or t is False for v, t in zip(vals, tv)) else TOP
            if all(t is True for t in tv) and all(isinstance(v, Const) for v in vals):
                return vals[-1]
        else:
            if all(t is False for t in tv) and all(isinstance(v, Const) for v in vals):
                return vals[-1]
        return TOP

    def _ev_Compare(self, e, p, record):
        l = self.eval(e.left, p, record)
        rs = [self.eval(c, p, record) for c in e.comparators]
        if isinstance(l, Const) and all(isinstance(r, Const) for r in rs):
            try:
                cur = l.v
                res = True
                for op, r in zip(e.ops, rs):
                    o = type(op)
                    ok = {ast.Lt: lambda a, b: a < b, ast.LtE: lambda a, b: a <= b, ast.Gt: lambda a, b: a > b,
                          ast.GtE: lambda a, b: a >= b, ast.Eq: lambda a, b: a == b, ast.NotEq: lambda a, b: a != b,
                          ast.Is: lambda a, b: a is b if isinstance(a, (bool, type(None))) or isinstance(b, (bool, type(None))) else a == b,
                          ast.IsNot: lambda a, b: a is not b if isinstance(a, (bool, type(None))) or isinstance(b, (bool, type(None))) else a != b,
                          ast.In: lambda a, b: a in b, ast.NotIn: lambda a, b: a not in b}[o](cur, r.v)
                    res = res and ok
                    cur = r.v
                return Const(bool(res))
            except Exception:
                return TOP
        return TOP

    def _ev_IfExp(self, e, p, record):
        t = self.eval_test(e.test, p)
        self.eval(e.test, p, record)
        if t is True:
            return self.eval(e.body, p, record)
        if t is False:
            return self.eval(e.orelse, p, record)
        return join_val(self.eval(e.body, p, record), self.eval(e.orelse, p, record))

    def _comp(self, e, p, record):
        if record:
            targets = set()
            for g in e.generators:
                for t in ast.walk(g.target):
                    if isinstance(t, ast.Name):
                        targets.add(t.id)
            for sub in ast.walk(e):
                if isinstance(sub, ast.Name) and isinstance(sub.ctx, ast.Load) and sub.id not in targets:
                    self._ev_Name(sub, p, True)
        return TOP

    _ev_ListComp = _ev_SetComp = _ev_DictComp = _ev_GeneratorExp = _comp

    def _ev_Lambda(self, e, p, record):
        return TOP

    def _ev_JoinedStr(self, e, p, record):
        for v in e.values:
            if isinstance(v, ast.FormattedValue):
                self.eval(v.value, p, record)
        return TOP

    def _ev_Call(self, e: ast.Call, p: Part, record):
        args = [self.eval(a.value if isinstance(a, ast.Starred) else a, p, record) for a in e.args]
        kw = {k.arg: self.eval(k.value, p, record) for k in e.keywords}
        target = self.prog.resolve_call(self.fi, e)
        if isinstance(e.func, ast.Attribute):
            self.eval(e.func.value, p, record)
        # setattr(obj, "f", v) / for f in ("a", "b"): setattr(obj, f, v)  ==  obj.a = v; obj.b = v
        if isinstance(e.func, ast.Name) and e.func.id == "setattr" and "setattr" not in self.locals and len(e.args) == 3 and record:
            from .effects import _literal_names
            names = _literal_names(self.fi, e.args[1])
            if names:
                tv = self.taint_of(e.args[2], p) if self.taint_mode else None
                for f in names:
                    tgt = ast.copy_location(ast.Attribute(value=e.args[0], attr=f, ctx=ast.Store()), e)
                    ast.fix_missing_locations(tgt)
                    if self.taint_mode:
                        self.assign_taint(tgt, tv, p)
                    self.assign(tgt, args[2], p, e.args[2])
                return Const(None)
        if isinstance(target, ClassInfo):
            oid = ("new", self.fi.qualname, e.lineno, e.col_offset)
            for attr, exprs in target.init_fields.items():
                if len(exprs) == 1 and isinstance(exprs[0], ast.Constant):
                    p.heap[(oid, attr)] = Const(exprs[0].value)
                else:
                    p.heap.pop((oid, attr), None)
            return Obj(oid)
        if isinstance(target, FuncInfo):
            if record:
                self.call_log.append((e, target.key))
            if not record:
                return TOP
            if self.interprocedural and self.depth < 6 and not any(isinstance(a, ast.Starred) for a in e.args):
                return self._inline(target, e, args, kw, p)
            # unknown effect on the objects passed
            self._havoc_args(args + list(kw.values()), p)
            return TOP
        # min / max with sign information (from constants, Sgn values and order facts on differences)
        if isinstance(e.func, ast.Name) and e.func.id in ("max", "min") and e.func.id not in self.locals \
                and not kw and len(args) == 2 and not all(isinstance(a, Const) for a in args):
            signs = [sign_of(a) for a in args]
            for i, (ae, sg) in enumerate(zip(e.args, signs)):
                if sg == "?":
                    signs[i] = self._diff_sign(ae, p)
            if e.func.id == "max":
                # max(0, x<=0) = 0 ; max(c>=0, anything) >= 0
                for i in (0, 1):
                    if signs[i] == "0" and signs[1 - i] in ("-", "0"):
                        return Const(0)
                if any(sg in ("+", "0") for sg in signs):
                    return Sgn("+")
                if all(sg == "-" for sg in signs):
                    return Sgn("-")
            else:
                for i in (0, 1):
                    if signs[i] == "0" and signs[1 - i] in ("+", "0"):
                        return Const(0)
                if any(sg in ("-", "0") for sg in signs):
                    return Sgn("-")
                if all(sg == "+" for sg in signs):
                    return Sgn("+")
            return TOP
        # builtins on constants
        if isinstance(e.func, ast.Name) and e.func.id not in self.locals and not kw:
            fn = e.func.id
            if all(isinstance(a, Const) for a in args) and args:
                try:
                    vals = [a.v for a in args]
                    if fn == "float":
                        return Const(float(vals[0]))
                    if fn == "int":
                        return Const(int(vals[0]))
                    if fn == "round":
                        return Const(round(*vals))
                    if fn == "abs":
                        return Const(abs(vals[0]))
                    if fn == "bool":
                        return Const(bool(vals[0]))
                    if fn in ("max", "min") and len(vals) >= 2:
                        return Const(max(vals) if fn == "max" else min(vals))
                    if fn == "str":
                        return Const(str(vals[0]))
                except Exception:
                    return TOP
        ext = self.prog.external_name(self.fi, e.func) if isinstance(e.func, ast.Attribute) else None
        if ext and ext.startswith("numpy.") and args and all(isinstance(a, Const) and isinstance(a.v, (int, float)) for a in args) and not kw:
            import math
            fn = ext.split(".", 1)[1]
            try:
                vals = [a.v for a in args]
                tab = {"log": math.log, "exp": math.exp, "log10": math.log10, "sqrt": math.sqrt, "abs": abs,
                       "floor": math.floor, "ceil": math.ceil, "power": lambda a, b: a ** b,
                       "maximum": max, "minimum": min, "round": round, "float64": float, "int64": int}
                if fn in tab:
                    return Const(tab[fn](*vals))
            except Exception:
                return TOP
        # external call: objects passed are assumed not mutated (library contract A-10),
        # except through the explicitly listed in-place methods, which CP does not track.
        return TOP

    def _diff_sign(self, e: ast.AST, p: Part) -> str:
        """sign of an expression `a - b` from the order facts on (a, b); of a term from facts against 0"""
        if isinstance(e, ast.BinOp) and isinstance(e.op, ast.Sub):
            # value-level signs: (<=0) - (>=0) <= 0 ; (>=0) - (<=0) >= 0
            sa_, sb_ = sign_of(self.eval(e.left, p, False)), sign_of(self.eval(e.right, p, False))
            if sa_ in ("-", "0") and sb_ in ("+", "0"):
                return "-"
            if sa_ in ("+", "0") and sb_ in ("-", "0"):
                return "+"
            a, b = self.term(e.left, p), self.term(e.right, p)
            if a and b:
                r = p.pa.get(a, b)
                if r <= frozenset("<="):
                    return "-"
                if r <= frozenset("=>"):
                    return "+"
            return "?"
        t = self.term(e, p)
        if t and not t.startswith("#"):
            r = p.pa.get(t, "#0")
            if r <= frozenset("<="):
                return "-"
            if r <= frozenset("=>"):
                return "+"
        return "?"

    def _havoc_args(self, vals, p: Part):
        for v in vals:
            if isinstance(v, Obj):
                for k in [k for k in p.heap if k[0] == v.oid]:
                    del p.heap[k]
                pref = f"@{v.oid}."
                p.pa.kill(lambda t, pref=pref: pref in t)

    def _inline(self, target: FuncInfo, call: ast.Call, args, kw, p: Part):
        params = target.params
        a = target.node.args
        pv: Dict[str, object] = {}
        pos = [x.arg for x in a.posonlyargs + a.args]
        for i, v in enumerate(args):
            if i < len(pos):
                pv[pos[i]] = v
        for k, v in kw.items():
            pv[k] = v
        # defaults
        defaults = a.defaults
        for i, d in enumerate(defaults):
            name = pos[len(pos) - len(defaults) + i]
            if name not in pv:
                pv[name] = Const(d.value) if isinstance(d, ast.Constant) else TOP
        # domains for params: from the caller's terms
        pdom: Dict[str, frozenset] = {}
        facts: List[Tuple[str, str, frozenset]] = []
        for i, actual in enumerate(call.args):
            if i >= len(pos) or isinstance(actual, ast.Starred):
                continue
            t = self.term(actual, p)
            if t and not t.startswith("#"):
                d = self.domain_of(t, p)
                if d is not None:
                    pdom[pos[i]] = d
                    pvals = self.possible_values(t, p)
                    if pvals is not None and len(pvals) == 1:
                        pv[pos[i]] = Const(pvals[0]) if not isinstance(pv.get(pos[i]), Const) else pv[pos[i]]
        ptaint = {}
        if self.taint_mode:
            for i, actual in enumerate(call.args):
                if i < len(pos) and not isinstance(actual, ast.Starred):
                    ptaint[pos[i]] = self.taint_of(actual, p)
            for k in call.keywords:
                if k.arg:
                    ptaint[k.arg] = self.taint_of(k.value, p)
        sub = Interp(self.prog, target, domains=self.domains, param_vals=pv, param_domains=pdom,
                     init_heap=p.heap, interprocedural=True, part_key="bound", depth=self.depth + 1,
                     idioms=self.idioms, maxp=4, taint=self.taint_mode, sinks=self.sinks, param_taints=ptaint,
                     init_taint={k: t for k, t in p.taint.items() if k[0] == "h"} if self.taint_mode else None,
                     axioms=self.callee_axioms.get(target.qualname) if hasattr(self, "callee_axioms") else None)
        if hasattr(self, "callee_axioms"):
            sub.callee_axioms = self.callee_axioms
        sub.run()
        self.sub_results = getattr(self, "sub_results", [])
        self.sub_results.append((call, target.key, sub))
        if not sub.returns:
            # callee never returns normally on this valuation (raises): treat as TOP
            self._havoc_args(args + list(kw.values()), p)
            return TOP
        ret = None
        heap = None
        rt = None
        htaint: Dict[tuple, object] = {}
        for v, part, t in sub.returns:
            rt = t if rt is None else tunion(rt, t)
            for k, tt in part.taint.items():
                if k[0] == "h":
                    htaint[k] = tunion(htaint[k], tt) if k in htaint else tt
            ret = v if ret is None else join_val(ret, v)
            if heap is None:
                heap = dict(part.heap)
            else:
                heap = {k: join_val(heap[k], part.heap[k]) for k in set(heap) & set(part.heap)}
                heap = {k: v2 for k, v2 in heap.items() if v2 is not TOP}
        # the callee's heap replaces ours for the objects it could reach; other entries are unchanged
        reach = {v.oid for v in list(args) + list(kw.values()) if isinstance(v, Obj)}
        for k in [k for k in p.heap if k[0] in reach]:
            del p.heap[k]
        for k, v in heap.items():
            if k[0] in reach or (isinstance(k[0], tuple) and k[0][0] == "new"):
                p.heap[k] = v
        for oid in reach:
            pref = f"@{oid}."
            p.pa.kill(lambda t, pref=pref: pref in t)
        if self.taint_mode:
            for k, tt in htaint.items():
                p.taint[k] = tt
            self._call_taint[id(call)] = rt if rt is not None else frozenset()
        return ret if ret is not None else TOP

    # ----------------------------------------------------------- taint (information flow)
    def taint_of(self, e: Optional[ast.AST], p: Part):
        if e is None or not self.taint_mode:
            return frozenset()
        if isinstance(e, ast.Constant):
            return frozenset()
        if isinstance(e, ast.Name):
            return p.taint.get(("n", e.id), frozenset()) if e.id in self.locals else frozenset()
        if isinstance(e, (ast.Tuple, ast.List)):
            return tuple(self.taint_of(x, p) for x in e.elts)
        if isinstance(e, ast.Call):
            if id(e) in self._call_taint:
                return self._call_taint[id(e)]
            t = frozenset()
            for a in e.args:
                t |= tflat(self.taint_of(a.value if isinstance(a, ast.Starred) else a, p))
            for k in e.keywords:
                t |= tflat(self.taint_of(k.value, p))
            if isinstance(e.func, ast.Attribute):
                t |= tflat(self.taint_of(e.func.value, p))
            return t
        # a value that constant propagation determines does not depend on anything
        v = self.eval(e, p, record=False)
        if isinstance(v, Const):
            return frozenset()
        if isinstance(e, ast.Attribute):
            base = self.eval(e.value, p, record=False)
            if isinstance(base, Obj):
                return p.taint.get(("h", base.oid, e.attr), frozenset())
            return tflat(self.taint_of(e.value, p))
        if isinstance(e, ast.Subscript):
            t = self.taint_of(e.value, p)
            if isinstance(t, tuple):
                i = self.eval(e.slice, p, record=False) if not isinstance(e.slice, ast.Slice) else None
                if isinstance(i, Const) and isinstance(i.v, int) and -len(t) <= i.v < len(t):
                    return t[i.v]
            st = frozenset()
            for sub in ast.walk(e.slice):
                if isinstance(sub, (ast.Name, ast.Attribute)):
                    st |= tflat(self.taint_of(sub, p))
            return tflat(t) | st
        if isinstance(e, ast.Starred):
            return self.taint_of(e.value, p)
        t = frozenset()
        for c in ast.iter_child_nodes(e):
            if isinstance(c, ast.expr):
                t |= tflat(self.taint_of(c, p))
            elif isinstance(c, ast.comprehension):
                t |= tflat(self.taint_of(c.iter, p))
                for cond in c.ifs:
                    t |= tflat(self.taint_of(cond, p))
        return t

    def _taint_key(self, e: ast.AST, p: Part):
        if isinstance(e, ast.Name):
            return ("n", e.id)
        if isinstance(e, ast.Attribute):
            base = self.eval(e.value, p, record=False)
            if isinstance(base, Obj):
                return ("h", base.oid, e.attr)
            return self._taint_key(e.value, p)
        if isinstance(e, ast.Subscript):
            return self._taint_key(e.value, p)
        return None

    def assign_taint(self, target: ast.AST, t, p: Part):
        if not self.taint_mode:
            return
        if isinstance(target, ast.Name):
            p.taint[("n", target.id)] = t
        elif isinstance(target, (ast.Tuple, ast.List)):
            n = len(target.elts)
            for i, el in enumerate(target.elts):
                self.assign_taint(el, t[i] if isinstance(t, tuple) and len(t) == n else tflat(t), p)
        elif isinstance(target, ast.Starred):
            self.assign_taint(target.value, tflat(t), p)
        elif isinstance(target, ast.Attribute):
            base = self.eval(target.value, p, record=False)
            if isinstance(base, Obj):
                p.taint[("h", base.oid, target.attr)] = tflat(t)
            else:
                k = self._taint_key(target.value, p)
                if k is not None:
                    p.taint[k] = tunion(p.taint.get(k, frozenset()), tflat(t))
        elif isinstance(target, ast.Subscript):
            k = self._taint_key(target.value, p)
            if k is not None:
                idx = frozenset()
                for sub in ast.walk(target.slice):
                    if isinstance(sub, (ast.Name, ast.Attribute)):
                        idx |= tflat(self.taint_of(sub, p))
                p.taint[k] = tflat(p.taint.get(k, frozenset())) | tflat(t) | idx
            self._inplace(target.value, p)

    def _inplace(self, container: ast.AST, p: Part):
        """record an in-place write to a container whose abstract value is an entry token"""
        v = self.eval(container, p, record=False)
        if isinstance(v, In):
            self.sinks.append(("inplace", self.fi.key, self._cur_node.ast, frozenset([v.name]), ast.unparse(container)))

    # ----------------------------------------------------------- statements
    def assign(self, target: ast.AST, val, p: Part, value_expr: Optional[ast.AST] = None):
        if val is TOP and value_expr is not None:
            sg = self._diff_sign(value_expr, p)
            if sg in ("+", "-"):
                val = Sgn(sg)
        inc_facts = self._increment_facts(target, value_expr, p) if value_expr is not None else []
        if isinstance(target, ast.Name):
            vt = self.term(value_expr, p) if value_expr is not None else None
            name = target.id
            p.pa.kill(lambda t, n=name: _mentions(t, n))
            self._axioms(p)
            p.env[name] = (val, True)
            if vt is not None and not _mentions(vt, name) and name in self.test_names:
                if not isinstance(val, Const):
                    p.pa.add(name, vt, frozenset("="))
            if _is_num(val) and name in self.test_names:
                ct = _const_term(val.v)
                if ct:
                    p.pa.add(name, ct, frozenset("="))
        elif isinstance(target, (ast.Tuple, ast.List)):
            n = len(target.elts)
            for i, t in enumerate(target.elts):
                if isinstance(t, ast.Starred):
                    self.assign(t.value, TOP, p)
                    continue
                v = val.items[i] if isinstance(val, Tup) and len(val.items) == n else TOP
                ve = value_expr.elts[i] if isinstance(value_expr, (ast.Tuple, ast.List)) and len(value_expr.elts) == n else None
                self.assign(t, v, p, ve)
        elif isinstance(target, ast.Attribute):
            base = self.eval(target.value, p)
            if isinstance(base, Obj):
                if val is TOP:
                    p.heap.pop((base.oid, target.attr), None)
                else:
                    p.heap[(base.oid, target.attr)] = val
                key = f"@{base.oid}.{target.attr}"
                p.pa.kill(lambda t, key=key: _mentions_attr(t, key))
                if _is_num(val) and target.attr in self.test_attrs:
                    ct = _const_term(val.v)
                    if ct:
                        p.pa.add(key, ct, frozenset("="))
            else:
                bt = self.term(target.value, p)
                if bt:
                    key = f"{bt}.{target.attr}"
                    p.pa.kill(lambda t, key=key: _mentions_attr(t, key))
        elif isinstance(target, ast.Subscript):
            self.eval(target.value, p)
            if not isinstance(target.slice, ast.Slice):
                self.eval(target.slice, p)
            # the container's content changes: a field that held an entry token no longer holds its entry value
            cont = target.value
            if isinstance(cont, ast.Attribute):
                cb = self.eval(cont.value, p, record=False)
                if isinstance(cb, Obj):
                    p.heap.pop((cb.oid, cont.attr), None)
            elif isinstance(cont, ast.Name) and cont.id in p.env and isinstance(p.env[cont.id][0], In):
                p.env[cont.id] = (TOP, p.env[cont.id][1])
            bt = self.term(target.value, p)
            if bt:
                p.pa.kill(lambda t, bt=bt: (bt + "[") in t)
        elif isinstance(target, ast.Starred):
            self.assign(target.value, TOP, p)
        for tt, other, rel in inc_facts:
            p.pa.add(tt, other, rel)

    def _increment_facts(self, target, value_expr, p: Part):
        """x = x + 1 (integer counter, assumption A-16): a strict bound x < t becomes x <= t"""
        if not (self.integer_counters and isinstance(value_expr, ast.BinOp) and isinstance(value_expr.op, ast.Add)
                and isinstance(value_expr.right, ast.Constant) and value_expr.right.value == 1
                and ast.unparse(value_expr.left) == ast.unparse(target)):
            return []
        tt = self.term(value_expr.left, p)
        if not tt or tt.startswith("#"):
            return []
        out = []
        for o in p.pa.terms():
            if o != tt and not _mentions(o, tt) and tt not in o:
                r = p.pa.get(tt, o)
                if r == frozenset("<"):
                    out.append((tt, o, frozenset("<=")))
        return out

    def _axioms(self, p: Part):
        for a, b, r in self.axioms:
            p.pa.add(a, b, r)

    def transfer(self, n: Node, p: Part) -> List[Tuple[object, Part]]:
        """Returns list of (edge label filter or None, partition) to propagate."""
        self._cur_node = n
        a = n.ast
        if n.kind in ("entry", "exit", "loophead"):
            return [(None, p)]
        if n.kind == "test":
            self.eval(a, p)
            out = []
            ev = self.eval_test(a, p)
            if self.taint_mode and ev is None:
                tt = tflat(self.taint_of(a, p))
                if tt:
                    self.sinks.append(("branch", self.fi.key, a, tt, ast.unparse(a)))
            for truth in (True, False):
                if ev is not None and ev != truth:
                    continue
                q = p.copy()
                if self.assume(a, truth, q):
                    out.append((truth, q))
            return out
        if n.kind == "for":
            itv = self.eval(a.iter, p)
            body = p.copy()
            self.assign(a.target, TOP, body)
            if self.taint_mode:
                self.assign_taint(a.target, tflat(self.taint_of(a.iter, p)), body)
            lid = ("loop", n.id)
            body.tag = tuple(sorted(set(body.tag) | {lid}, key=repr))
            literal_nonempty = isinstance(a.iter, (ast.Tuple, ast.List)) and len(a.iter.elts) > 0
            if (literal_nonempty or ast.unparse(a.iter) in self.nonempty_loops) and lid not in p.tag:
                # assumed to iterate at least once: no exit before the first iteration
                return [("body", body)]
            ex = p
            ex.tag = tuple(x for x in ex.tag if x != lid)
            return [("body", body), ("exit", ex)]
        if n.kind == "handler":
            if a.name:
                p.env[a.name] = (TOP, True)
            return [(None, p)]
        if isinstance(a, ast.Assign):
            if self.idioms:
                r = self.idioms(self, n, p)
                if r is not None:
                    return r
            v = self.eval(a.value, p)
            tv = self.taint_of(a.value, p) if self.taint_mode else None
            for t in a.targets:
                if self.taint_mode:
                    self.assign_taint(t, tv, p)
                self.assign(t, v, p, a.value)
            return [(None, p)]
        if isinstance(a, ast.AnnAssign):
            if a.value is not None:
                v = self.eval(a.value, p)
                tv = self.taint_of(a.value, p) if self.taint_mode else None
                self.assign(a.target, v, p, a.value)
                if self.taint_mode:
                    self.assign_taint(a.target, tv, p)
            return [(None, p)]
        if isinstance(a, ast.AugAssign):
            load = _as_load(a.target)
            binop = ast.BinOp(left=load, op=a.op, right=a.value)
            ast.copy_location(binop, a)
            ast.fix_missing_locations(binop)
            v = self.eval(binop, p)
            tv = tflat(self.taint_of(a.target, p)) | tflat(self.taint_of(a.value, p)) if self.taint_mode else None
            if self.taint_mode:
                self.assign_taint(a.target, tv, p)
            self.assign(a.target, v, p)
            return [(None, p)]
        if isinstance(a, ast.Return):
            v = self.eval(a.value, p) if a.value is not None else Const(None)
            t = self.taint_of(a.value, p) if (self.taint_mode and a.value is not None) else frozenset()
            self.returns.append((v, p, t))
            return [(None, p)]
        if isinstance(a, ast.Expr):
            self.eval(a.value, p)
            return [(None, p)]
        if isinstance(a, (ast.FunctionDef, ast.AsyncFunctionDef, ast.ClassDef)):
            p.env[a.name] = (TOP, True)
            return [(None, p)]
        if isinstance(a, (ast.Import, ast.ImportFrom)):
            for al in a.names:
                p.env[(al.asname or al.name).split(".")[0]] = (TOP, True)
            return [(None, p)]
        if isinstance(a, (ast.With, ast.AsyncWith)):
            for it in a.items:
                v = self.eval(it.context_expr, p)
                if it.optional_vars is not None:
                    self.assign(it.optional_vars, TOP, p)
            return [(None, p)]
        if isinstance(a, ast.Raise):
            if a.exc is not None:
                self.eval(a.exc, p)
            return [(None, p)]
        if isinstance(a, ast.Delete):
            for t in a.targets:
                if isinstance(t, ast.Name):
                    p.env.pop(t.id, None)
            return [(None, p)]
        return [(None, p)]

    # ----------------------------------------------------------- fixpoint
    def _key(self, p: Part):
        if self.part_key == "bound":
            return (frozenset((k, b) for k, (v, b) in p.env.items()), p.tag)
        if self.part_key == "facts":
            return (frozenset((k, b) for k, (v, b) in p.env.items()), p.tag,
                    frozenset((k, r) for k, r in p.pa.rel.items()
                              if self._stable_term(k[0]) and self._stable_term(k[1])))
        if self.part_key == "vars":
            return tuple(repr(p.env.get(v, (None, False))[0]) for v in self.split_vars)
        if self.part_key == "env":
            return (frozenset((k, repr(v), b) for k, (v, b) in p.env.items()),
                    frozenset((repr(k), repr(v)) for k, v in p.heap.items()))
        return 0

    def _merge(self, parts: List[Part], force_one=False) -> List[Part]:
        if force_one and parts:
            acc = parts[0]
            for q in parts[1:]:
                acc = acc.join(q)
            return [acc]
        groups: Dict[object, Part] = {}
        for q in parts:
            k = self._key(q)
            groups[k] = groups[k].join(q) if k in groups else q
        out = list(groups.values())
        if len(out) > self.MAXP:
            acc = out[0]
            for q in out[1:]:
                acc = acc.join(q)
            out = [acc]
        return out

    def initial(self) -> Part:
        p = Part()
        p.heap = dict(self.init_heap)
        p.taint = dict(self.init_taint)
        for name, t in self.param_taints.items():
            p.taint[("n", name)] = t
        self._axioms(p)
        for name in self.fi.params:
            v = self.param_vals.get(name)
            if v is None:
                v = Obj(("param", self.fi.qualname, name))
            p.env[name] = (v, True)
            d = self.param_domains.get(name)
        for a, b, r in self.init_facts:
            p.pa.add(a, b, r)
        return p

    def run(self):
        cfg = self.cfg
        order = cfg.rpo()
        pos = {k: i for i, k in enumerate(order)}
        inq: Dict[int, Dict[object, List[Part]]] = {}
        self.in_states = {cfg.entry: [self.initial()]}
        work = [cfg.entry]
        pending: Dict[int, List[Part]] = {}
        iters = 0
        loop_count: Dict[int, int] = {}
        import heapq
        heap = [(pos[cfg.entry], cfg.entry)]
        queued = {cfg.entry}
        # accumulated in-state per node (joined over visits)
        acc: Dict[int, List[Part]] = {cfg.entry: [self.initial()]}
        fresh: Dict[int, bool] = {cfg.entry: True}
        saved_uses: Dict[int, List[Use]] = {}
        saved_returns: Dict[int, List] = {}
        saved_calls: Dict[int, List] = {}
        while heap:
            iters += 1
            if iters > 20000:
                raise RuntimeError(f"abstract interpretation of {self.fi.key} does not converge")
            _, nid = heapq.heappop(heap)
            queued.discard(nid)
            n = cfg.nodes[nid]
            parts = acc.get(nid, [])
            # re-evaluating a node replaces what it reported before
            self.uses, u0 = [], self.uses
            self.returns, r0 = [], self.returns
            outs: Dict[int, List[Part]] = {}
            for p in parts:
                q = p.copy()
                for label, res in self.transfer(n, q):
                    for t, l in n.succs:
                        if l == "exc":
                            # exceptional edge: state before the statement
                            outs.setdefault(t, []).append(p.copy())
                            continue
                        if n.kind == "test":
                            if l is label:
                                outs.setdefault(t, []).append(res.copy())
                        elif n.kind == "for":
                            if l == label:
                                outs.setdefault(t, []).append(res.copy())
                        else:
                            outs.setdefault(t, []).append(res.copy())
            saved_uses[nid] = self.uses
            saved_returns[nid] = self.returns
            self.uses, self.returns = u0, r0
            self.node_facts[nid] = parts
            for t, newparts in outs.items():
                tn = cfg.nodes[t]
                is_head = tn.kind in ("loophead", "for")
                old = acc.get(t, [])
                merged = self._merge(old + newparts)
                if is_head and old:
                    loop_count[t] = loop_count.get(t, 0) + 1
                    if loop_count[t] > 3:
                        oldk = {self._key(o): o for o in old}
                        merged = [self._widen(oldk[self._key(m)], m) if self._key(m) in oldk else m for m in merged]
                        merged = self._merge(merged)
                    if loop_count[t] > 40:
                        merged = self._merge(merged, force_one=True)
                if not _same_parts(old, merged):
                    acc[t] = merged
                    if t not in queued:
                        heapq.heappush(heap, (pos.get(t, 10 ** 6), t))
                        queued.add(t)
        self.in_states = acc
        self.uses = [u for nid in saved_uses for u in saved_uses[nid]]
        self.returns = [r for nid in saved_returns for r in saved_returns[nid]]
        return self

    @staticmethod
    def _widen(old: Part, new: Part) -> Part:
        env = {}
        for k, (v, b) in new.env.items():
            if k in old.env and old.env[k][0] != v:
                env[k] = (TOP, b and old.env[k][1])
            else:
                env[k] = (v, b)
        heap = {k: v for k, v in new.heap.items() if old.heap.get(k) == v}
        pa = PA({k: r for k, r in new.pa.rel.items() if old.pa.rel.get(k) == r})
        return Part(env, heap, pa, new.tag, dict(new.taint))


def _volatile(term: str) -> bool:
    """constant terms that do not come from the source text are not used in partition keys"""
    return False


def _same_parts(a: List[Part], b: List[Part]) -> bool:
    if len(a) != len(b):
        return False
    return all(x.same(y) for x, y in zip(a, b))


import functools
import re as _re

_IDENT = _re.compile(r"(?<![\w@.'])[A-Za-z_]\w*")


@functools.lru_cache(maxsize=None)
def _idents(term: str) -> frozenset:
    if term.startswith("#"):
        return frozenset()
    return frozenset(_IDENT.findall(term))


def _mentions(term: str, name: str) -> bool:
    return name in _idents(term)


def _mentions_attr(term: str, key: str) -> bool:
    i = term.find(key)
    while i != -1:
        j = i + len(key)
        if j >= len(term) or not (term[j].isalnum() or term[j] == "_"):
            return True
        i = term.find(key, i + 1)
    return False


def _as_load(t: ast.AST) -> ast.AST:
    import copy
    c = copy.deepcopy(t)
    for sub in ast.walk(c):
        if hasattr(sub, "ctx"):
            sub.ctx = ast.Load()
    return c
