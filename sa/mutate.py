"""Scratch copies of the repository, edits on them, and running a check against them.

Scratch trees live under $(mktemp -d) - never under /repo or /verif - contain only the python package
(the checks parse nothing else), are never imported or executed, and are removed when done."""
from __future__ import annotations
import os
import shutil
import subprocess
import sys
import tempfile
from typing import Callable, Dict, List, Optional, Tuple

VERIF = os.path.dirname(os.path.dirname(os.path.abspath(__file__)))
REPO = os.environ.get("AQUACROP_REPO", "/repo")


class Scratch:
    def __init__(self, repo: str = REPO):
        self.dir = tempfile.mkdtemp(prefix="aqverif_")
        shutil.copytree(os.path.join(repo, "aquacrop"), os.path.join(self.dir, "aquacrop"),
                        ignore=shutil.ignore_patterns("__pycache__", "*.pyc", "data"))
        self.evid = os.path.join(self.dir, "_evidence")
        os.makedirs(self.evid)

    def path(self, rel: str) -> str:
        return os.path.join(self.dir, rel)

    def read(self, rel: str) -> str:
        with open(self.path(rel), newline="") as fh:
            return fh.read().replace("\r\n", "\n")

    def write(self, rel: str, text: str):
        with open(self.path(rel), "w", newline="") as fh:
            fh.write(text)

    def replace(self, rel: str, old: str, new: str, count: int = 1) -> bool:
        s = self.read(rel)
        if count == -1:                      # first occurrence
            if old not in s:
                return False
            self.write(rel, s.replace(old, new, 1))
            return True
        if s.count(old) != count:
            return False
        self.write(rel, s.replace(old, new))
        return True

    def apply_patch(self, patch_file: str) -> bool:
        r = subprocess.run(["git", "apply", "--unsafe-paths", f"--directory={self.dir}", patch_file], cwd="/", capture_output=True, text=True)
        if r.returncode != 0:
            r = subprocess.run(["patch", "-p1", "-s", "-i", patch_file], cwd=self.dir, capture_output=True, text=True)
        return r.returncode == 0

    def check(self, pid: str, tier: str = "quick", timeout: int = 600) -> Tuple[int, str]:
        env = dict(os.environ)
        env["AQUACROP_REPO"] = self.dir
        env["VERIF_EVIDENCE_DIR"] = self.evid
        r = subprocess.run(["/venv/bin/python", "-W", "ignore", "-m", "sa.run", pid, "--tier", tier, "--no-selfval"],
                           cwd=VERIF, env=env, capture_output=True, text=True, timeout=timeout)
        return r.returncode, r.stdout + r.stderr

    def close(self):
        shutil.rmtree(self.dir, ignore_errors=True)

    def __enter__(self):
        return self

    def __exit__(self, *a):
        self.close()


def run_corpus(chk, pid: str, mutants: List[dict]):
    """mutants: {name, kind: 'break'|'twin', edits: [(relpath, old, new)], expect_rule (optional substring of the report)}"""
    from concurrent.futures import ThreadPoolExecutor
    results = []

    def one(m):
        with Scratch() as s:
            for rel, old, new in m["edits"]:
                if not s.replace(rel, old, new, m.get("count", 1)):
                    return (m, "not-applicable", "")
            code, out = s.check(pid)
            return (m, code, out)

    with ThreadPoolExecutor(max_workers=min(16, max(1, len(mutants)))) as ex:
        results = list(ex.map(one, mutants))
    fired = silent = na = 0
    details = []
    for m, code, out in results:
        if code == "not-applicable":
            na += 1
            details.append({"mutant": m["name"], "kind": m["kind"], "result": "edit does not apply to the current tree (skipped)"})
            continue
        if m["kind"] == "break":
            ok = code == 1 and ("VIOLATION" in out) and (m.get("expect", "") in out)
            fired += 1 if ok else 0
            details.append({"mutant": m["name"], "kind": "break", "result": "fired" if ok else f"NOT DETECTED (exit {code})"})
            if not ok:
                chk.error(f"self-validation: break mutant '{m['name']}' was not reported (exit {code}); the rule is vacuous for this instance")
        else:
            ok = code == 0
            silent += 1 if ok else 0
            details.append({"mutant": m["name"], "kind": "twin", "result": "silent" if ok else f"FALSE ALARM (exit {code})"})
            if not ok:
                chk.error(f"self-validation: behaviour-preserving twin '{m['name']}' made the check fail (exit {code}): {out[:300]}")
    chk.notes["self_validation"] = {"break_mutants_fired": fired, "twins_silent": silent, "not_applicable": na, "details": details}
    if na:
        # never a failure of the property (the verdict is about /repo's tree), but worth a line: the corpus entry is stale
        print(f"NOTE property={pid} self-validation: {na} corpus edit(s) no longer apply to the current tree and were skipped: "
              + "; ".join(d["mutant"] for d in details if "skipped" in d["result"]))
