"""Checker self-validation on scratch copies of the current tree (thorough tier).

For each property a list of AST-level *break* edits (each must make the check fire, exit 1) and
behaviour-preserving *twin* edits (each must leave the check silent, exit 0) is applied to a scratch
copy of /repo under $(mktemp -d) (outside /repo and /verif, removed afterwards); the scratch copy is only
parsed, never executed.  A rule instance that cannot be made to fire, or a twin that fires, turns the run
into ANALYSIS-ERROR (exit 2) - never into a violation: the verdict is always about /repo's tree.
"""
from __future__ import annotations
import importlib
import os


def run(chk, pid: str):
    from .mutants.registry import MUTANTS
    corpus = MUTANTS.get(pid)
    if not corpus:
        chk.notes["self_validation"] = "no self-validation corpus registered for this property"
        return
    from .mutate import run_corpus
    run_corpus(chk, pid, corpus)
