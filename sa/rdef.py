"""Reaching definitions and AST-node -> CFG-node index for one function."""
from __future__ import annotations
import ast
from typing import Dict, List, Set, Tuple, Optional, FrozenSet

from .cfg import CFG, cfg_of, Node, node_reads
from .model import FuncInfo

ENTRY = -1   # pseudo definition site of parameters


def _store_names(n: Node) -> List[str]:
    a = n.ast
    out: List[str] = []
    if a is None:
        return out

    def tnames(t):
        if isinstance(t, ast.Name):
            out.append(t.id)
        elif isinstance(t, (ast.Tuple, ast.List)):
            for e in t.elts:
                tnames(e)
        elif isinstance(t, ast.Starred):
            tnames(t.value)

    if n.kind == "for":
        tnames(a.target)
    elif n.kind == "handler":
        if a.name:
            out.append(a.name)
    elif isinstance(a, ast.Assign):
        for t in a.targets:
            tnames(t)
    elif isinstance(a, (ast.AugAssign, ast.AnnAssign)):
        tnames(a.target)
    elif isinstance(a, (ast.With, ast.AsyncWith)):
        for it in a.items:
            if it.optional_vars is not None:
                tnames(it.optional_vars)
    elif isinstance(a, (ast.FunctionDef, ast.AsyncFunctionDef, ast.ClassDef)):
        out.append(a.name)
    elif isinstance(a, (ast.Import, ast.ImportFrom)):
        for al in a.names:
            out.append((al.asname or al.name).split(".")[0])
    # walrus anywhere in the node's expressions
    for root in node_reads(n):
        for sub in ast.walk(root):
            if isinstance(sub, ast.NamedExpr) and isinstance(sub.target, ast.Name):
                out.append(sub.target.id)
    return out


class FuncFlow:
    def __init__(self, fi: FuncInfo):
        self.fi = fi
        self.cfg: CFG = cfg_of(fi.node)
        self.index: Dict[int, int] = {}          # id(ast node) -> cfg node id
        self.stmt_node: Dict[int, int] = {}      # id(statement) -> cfg node id (first node of the statement)
        for n in self.cfg.live_nodes():
            roots = list(node_reads(n))
            if n.kind == "for":
                roots.append(n.ast.target)
            if isinstance(n.ast, (ast.With, ast.AsyncWith)):
                roots += [i.optional_vars for i in n.ast.items if i.optional_vars is not None]
            for r in roots:
                for sub in ast.walk(r):
                    self.index.setdefault(id(sub), n.id)
            if n.ast is not None and n.kind in ("stmt", "for", "handler"):
                self.stmt_node.setdefault(id(n.ast), n.id)
        self._rd_in: Optional[Dict[int, FrozenSet[Tuple[str, int]]]] = None
        self.defs_at: Dict[int, List[str]] = {n.id: _store_names(n) for n in self.cfg.live_nodes()}

    def node_of(self, astnode: ast.AST) -> Optional[int]:
        return self.index.get(id(astnode))

    def reaching(self) -> Dict[int, FrozenSet[Tuple[str, int]]]:
        if self._rd_in is not None:
            return self._rd_in
        cfg = self.cfg
        entry_defs = frozenset((p, ENTRY) for p in self.fi.params)
        IN: Dict[int, Set[Tuple[str, int]]] = {n.id: set() for n in cfg.live_nodes()}
        OUT: Dict[int, Set[Tuple[str, int]]] = {n.id: set() for n in cfg.live_nodes()}
        IN[cfg.entry] = set(entry_defs)
        order = cfg.rpo()
        changed = True
        while changed:
            changed = False
            for nid in order:
                n = cfg.nodes[nid]
                if nid != cfg.entry:
                    s: Set[Tuple[str, int]] = set()
                    for p, _ in n.preds:
                        if p in OUT:
                            s |= OUT[p]
                    IN[nid] = s
                names = self.defs_at.get(nid, [])
                if names:
                    out = {d for d in IN[nid] if d[0] not in names} | {(x, nid) for x in names}
                else:
                    out = IN[nid]
                if out != OUT[nid]:
                    OUT[nid] = set(out)
                    changed = True
        self._rd_in = {k: frozenset(v) for k, v in IN.items()}
        self._rd_out = {k: frozenset(v) for k, v in OUT.items()}
        return self._rd_in

    def defs_reaching(self, name: str, nid: int) -> List[int]:
        return sorted(d for (x, d) in self.reaching().get(nid, ()) if x == name)

    def defs_reaching_exit_of(self, name: str, nid: int) -> List[int]:
        self.reaching()
        return sorted(d for (x, d) in self._rd_out.get(nid, ()) if x == name)


_FLOW: Dict[str, FuncFlow] = {}


def flow_of(fi: FuncInfo) -> FuncFlow:
    k = f"{id(fi.node)}"
    if k not in _FLOW:
        _FLOW[k] = FuncFlow(fi)
    return _FLOW[k]
