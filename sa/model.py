"""Program model: parse /repo/aquacrop, import tables, function/class tables, call graph.

Nothing is imported or executed; only ``ast`` is used.  The model fails closed
(AnalysisError -> exit 2) when the tree does not look like the code base the rules
were written for (files missing, parse errors, anchors vanished).
"""
from __future__ import annotations
import ast
import hashlib
import os
from dataclasses import dataclass, field
from typing import Dict, List, Optional, Tuple, Iterable

REPO = os.environ.get("AQUACROP_REPO", "/repo")
PKG = "aquacrop"

MIN_FILES = 60
MIN_FUNCS = 85


class AnalysisError(Exception):
    """The analysis itself cannot be carried out (never a verdict about the property)."""


@dataclass
class FuncInfo:
    key: str                  # "aquacrop.solution.drainage:drainage" / "aquacrop.core:AquaCropModel.run_model"
    module: str
    qualname: str
    node: ast.AST             # FunctionDef
    cls: Optional[str] = None
    path: str = ""

    @property
    def name(self) -> str:
        return self.node.name

    @property
    def params(self) -> List[str]:
        a = self.node.args
        return [x.arg for x in a.posonlyargs + a.args] + ([a.vararg.arg] if a.vararg else []) + \
               [x.arg for x in a.kwonlyargs] + ([a.kwarg.arg] if a.kwarg else [])

    def loc(self, node: Optional[ast.AST] = None) -> str:
        n = node if node is not None else self.node
        return f"{self.path}:{getattr(n, 'lineno', '?')}"


@dataclass
class ClassInfo:
    key: str
    module: str
    name: str
    node: ast.ClassDef
    path: str = ""
    methods: Dict[str, FuncInfo] = field(default_factory=dict)
    # attribute name -> list of value expressions assigned in __init__ (self.X = expr)
    init_fields: Dict[str, List[ast.expr]] = field(default_factory=dict)
    class_attrs: Dict[str, Optional[ast.expr]] = field(default_factory=dict)


@dataclass
class Module:
    name: str
    path: str       # path relative to repo
    abspath: str
    src: str
    tree: ast.Module
    imports: Dict[str, Tuple] = field(default_factory=dict)   # local name -> ("module", modname) | ("symbol", modname, symbol)
    digest: str = ""


def _modname(relpath: str) -> str:
    p = relpath[:-3]
    parts = p.split(os.sep)
    if parts[-1] == "__init__":
        parts = parts[:-1]
    return ".".join(parts)


class Program:
    def __init__(self, repo: str = REPO):
        self.repo = repo
        self.modules: Dict[str, Module] = {}
        self.funcs: Dict[str, FuncInfo] = {}
        self.classes: Dict[str, ClassInfo] = {}
        self._load()
        self._index()

    # ------------------------------------------------------------------ loading
    def _load(self):
        root = os.path.join(self.repo, PKG)
        if not os.path.isdir(root):
            raise AnalysisError(f"package directory {root} not found")
        for d, dirs, files in os.walk(root):
            dirs[:] = sorted(x for x in dirs if x != "__pycache__")
            for f in sorted(files):
                if not f.endswith(".py"):
                    continue
                ap = os.path.join(d, f)
                rel = os.path.relpath(ap, self.repo)
                with open(ap, "rb") as fh:
                    raw = fh.read()
                try:
                    src = raw.decode("utf-8")
                    import warnings
                    with warnings.catch_warnings():
                        warnings.simplefilter("ignore")
                        tree = ast.parse(src, filename=rel)
                except (SyntaxError, UnicodeDecodeError) as e:
                    raise AnalysisError(f"cannot parse {rel}: {e}")
                m = Module(_modname(rel), rel, ap, src, tree, digest=hashlib.sha256(raw).hexdigest())
                self.modules[m.name] = m
        if len(self.modules) < MIN_FILES:
            raise AnalysisError(f"only {len(self.modules)} modules found (< {MIN_FILES}); wrong tree?")

    def _resolve_relative(self, mod: Module, level: int, target: Optional[str]) -> str:
        parts = mod.name.split(".")
        is_pkg = mod.path.endswith("__init__.py")
        base = parts if is_pkg else parts[:-1]
        if level > 1:
            base = base[: len(base) - (level - 1)]
        full = base + (target.split(".") if target else [])
        return ".".join(full)

    def _index(self):
        for mod in self.modules.values():
            # imports (module level and nested under if/try at module level)
            for node in ast.walk(mod.tree):
                if isinstance(node, ast.Import):
                    for a in node.names:
                        mod.imports[a.asname or a.name.split(".")[0]] = ("module", a.name if a.asname else a.name.split(".")[0])
                elif isinstance(node, ast.ImportFrom):
                    src = self._resolve_relative(mod, node.level, node.module) if node.level else (node.module or "")
                    for a in node.names:
                        mod.imports[a.asname or a.name] = ("symbol", src, a.name)
            self._index_body(mod, mod.tree.body, prefix="", cls=None)
        if len(self.funcs) < MIN_FUNCS:
            raise AnalysisError(f"only {len(self.funcs)} functions found (< {MIN_FUNCS}); wrong tree?")

    def _index_body(self, mod: Module, body, prefix: str, cls: Optional[ClassInfo]):
        for node in body:
            if isinstance(node, (ast.FunctionDef, ast.AsyncFunctionDef)):
                qn = prefix + node.name
                fi = FuncInfo(f"{mod.name}:{qn}", mod.name, qn, node, cls.name if cls else None, mod.path)
                # property setters share a name with the getter: keep both under distinct keys
                key = fi.key
                if key in self.funcs:
                    decos = [ast.unparse(d) for d in node.decorator_list]
                    suffix = "@" + (decos[0] if decos else str(node.lineno))
                    fi.key = key = f"{key}{suffix}"
                self.funcs[key] = fi
                if cls is not None:
                    cls.methods.setdefault(node.name, fi)
                    if node.name == "__init__":
                        self._harvest_init(cls, node)
                self._index_body(mod, node.body, qn + ".", None)
            elif isinstance(node, ast.ClassDef):
                ci = ClassInfo(f"{mod.name}:{prefix}{node.name}", mod.name, prefix + node.name, node, mod.path)
                self.classes[ci.key] = ci
                for st in node.body:
                    if isinstance(st, ast.Assign):
                        for t in st.targets:
                            if isinstance(t, ast.Name):
                                ci.class_attrs[t.id] = st.value
                    elif isinstance(st, ast.AnnAssign) and isinstance(st.target, ast.Name):
                        ci.class_attrs[st.target.id] = st.value
                self._index_body(mod, node.body, prefix + node.name + ".", ci)
            elif isinstance(node, (ast.If, ast.Try, ast.With, ast.For, ast.While)):
                for sub in ("body", "orelse", "finalbody"):
                    self._index_body(mod, getattr(node, sub, []) or [], prefix, cls)
                for h in getattr(node, "handlers", []) or []:
                    self._index_body(mod, h.body, prefix, cls)

    @staticmethod
    def _harvest_init(ci: ClassInfo, fn: ast.FunctionDef):
        if not fn.args.args:
            return
        selfname = fn.args.args[0].arg
        for node in ast.walk(fn):
            targets = []
            if isinstance(node, ast.Assign):
                targets = [(t, node.value) for t in node.targets]
            elif isinstance(node, ast.AnnAssign) and node.value is not None:
                targets = [(node.target, node.value)]
            elif isinstance(node, ast.AugAssign):
                targets = [(node.target, node.value)]
            for t, v in targets:
                if isinstance(t, ast.Attribute) and isinstance(t.value, ast.Name) and t.value.id == selfname:
                    ci.init_fields.setdefault(t.attr, []).append(v)

    # ------------------------------------------------------------------ lookup
    def module_of(self, fi: FuncInfo) -> Module:
        return self.modules[fi.module]

    def func(self, key: str) -> FuncInfo:
        if key not in self.funcs:
            raise AnalysisError(f"anchor function {key} not found in the tree")
        return self.funcs[key]

    def find_func(self, name: str) -> FuncInfo:
        """Find the unique module-level function with this simple name."""
        c = [f for f in self.funcs.values() if f.qualname == name]
        if len(c) != 1:
            raise AnalysisError(f"anchor function '{name}' not found uniquely ({len(c)} candidates)")
        return c[0]

    def cls(self, name: str) -> ClassInfo:
        c = [k for k in self.classes.values() if k.name == name]
        if len(c) != 1:
            raise AnalysisError(f"anchor class '{name}' not found uniquely ({len(c)} candidates)")
        return c[0]

    def resolve_name(self, modname: str, name: str, _depth=0):
        """Resolve a global name in a module to FuncInfo / ClassInfo / ('module', m) / None."""
        mod = self.modules.get(modname)
        if mod is None or _depth > 6:
            return None
        k = f"{modname}:{name}"
        if k in self.funcs:
            return self.funcs[k]
        if k in self.classes:
            return self.classes[k]
        imp = mod.imports.get(name)
        if imp is None:
            return None
        if imp[0] == "module":
            return ("module", imp[1])
        _, src, sym = imp
        if src in self.modules:
            r = self.resolve_name(src, sym, _depth + 1)
            if r is not None:
                return r
            sub = f"{src}.{sym}"
            if sub in self.modules:
                return ("module", sub)
            return None
        sub = f"{src}.{sym}" if src else sym
        return ("external", sub)

    def resolve_call(self, fi: FuncInfo, call: ast.Call):
        """Resolve the callee of a call inside function fi -> FuncInfo | ClassInfo | None."""
        f = call.func
        if isinstance(f, ast.Name):
            # nested function defined inside fi?
            k = f"{fi.module}:{fi.qualname}.{f.id}"
            if k in self.funcs:
                return self.funcs[k]
            r = self.resolve_name(fi.module, f.id)
            if isinstance(r, (FuncInfo, ClassInfo)):
                return r
            return None
        if isinstance(f, ast.Attribute):
            # self.method(...)
            if isinstance(f.value, ast.Name) and fi.cls and fi.node.args.args and f.value.id == fi.node.args.args[0].arg:
                for ci in self.classes.values():
                    if ci.name == fi.cls and ci.module == fi.module and f.attr in ci.methods:
                        return ci.methods[f.attr]
            # module.func(...)
            if isinstance(f.value, ast.Name):
                r = self.resolve_name(fi.module, f.value.id)
                if isinstance(r, tuple) and r[0] == "module" and r[1] in self.modules:
                    rr = self.resolve_name(r[1], f.attr)
                    if isinstance(rr, (FuncInfo, ClassInfo)):
                        return rr
            # obj.method(...) where the method name is defined by exactly one class of the package
            if self.external_name(fi, f) is None:
                cands = [ci.methods[f.attr] for ci in self.classes.values() if f.attr in ci.methods and not f.attr.startswith("__")]
                if len(cands) == 1:
                    return cands[0]
        return None

    def external_name(self, fi: FuncInfo, expr: ast.expr) -> Optional[str]:
        """Dotted external name an expression refers to (e.g. 'numpy.zeros'), or None."""
        parts = []
        e = expr
        while isinstance(e, ast.Attribute):
            parts.append(e.attr)
            e = e.value
        if not isinstance(e, ast.Name):
            return None
        imp = self.modules[fi.module].imports.get(e.id)
        if imp is None:
            return None
        if imp[0] == "module":
            base = imp[1]
        else:
            base = f"{imp[1]}.{imp[2]}" if imp[1] else imp[2]
        if base.split(".")[0] == PKG:
            return None
        return ".".join([base] + list(reversed(parts)))

    # ------------------------------------------------------------------ call graph
    def calls_in(self, fi: FuncInfo) -> List[Tuple[ast.Call, object]]:
        out = []
        for node in walk_no_nested(fi.node):
            if isinstance(node, ast.Call):
                out.append((node, self.resolve_call(fi, node)))
        return out

    def callgraph(self) -> Dict[str, List[str]]:
        g: Dict[str, List[str]] = {}
        for k, fi in self.funcs.items():
            outs = []
            for call, r in self.calls_in(fi):
                if isinstance(r, FuncInfo):
                    outs.append(r.key)
                elif isinstance(r, ClassInfo) and "__init__" in r.methods:
                    outs.append(r.methods["__init__"].key)
            g[k] = outs
        return g

    def reachable_from(self, key: str) -> List[str]:
        g = self.callgraph()
        seen, order, stack = set(), [], [key]
        while stack:
            k = stack.pop()
            if k in seen:
                continue
            seen.add(k)
            order.append(k)
            stack.extend(g.get(k, []))
        return order

    def digest(self) -> str:
        h = hashlib.sha256()
        for name in sorted(self.modules):
            h.update(name.encode())
            h.update(self.modules[name].digest.encode())
        return h.hexdigest()


def walk_no_nested(fn_node: ast.AST) -> Iterable[ast.AST]:
    """ast.walk over a function body without descending into nested defs / classes / lambdas."""
    stack = list(ast.iter_child_nodes(fn_node))
    while stack:
        n = stack.pop()
        yield n
        if isinstance(n, (ast.FunctionDef, ast.AsyncFunctionDef, ast.ClassDef, ast.Lambda)):
            continue
        stack.extend(ast.iter_child_nodes(n))


def norm(node: ast.AST) -> str:
    """Normalised source text of a node (formatting independent)."""
    return ast.unparse(node)


class _AnonBases(ast.NodeTransformer):
    def visit_Attribute(self, node):
        v = node.value
        if isinstance(v, ast.Name):
            return ast.Attribute(value=ast.Name(id="_", ctx=ast.Load()), attr=node.attr, ctx=node.ctx)
        return ast.Attribute(value=self.visit(v), attr=node.attr, ctx=node.ctx)


def norm_anon(node: ast.AST) -> str:
    """Normalised text with the base local of every attribute chain replaced by '_' - a key that survives a
    rename of the local holding the object (NewCond.DryYield -> _.DryYield)."""
    import copy
    return ast.unparse(ast.fix_missing_locations(_AnonBases().visit(copy.deepcopy(node))))


_PROGRAM_CACHE: Dict[str, Program] = {}


def load(repo: str = None) -> Program:
    repo = repo or os.environ.get("AQUACROP_REPO", "/repo")
    if repo not in _PROGRAM_CACHE:
        _PROGRAM_CACHE[repo] = Program(repo)
    return _PROGRAM_CACHE[repo]
