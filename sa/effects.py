"""Enumeration and classification of write sites ("stores") of a function."""
from __future__ import annotations
import ast
from dataclasses import dataclass
from typing import List, Set, Optional

from .model import Program, FuncInfo, walk_no_nested, norm
from .roles import Roles, MUTATING_METHODS, INPLACE_KW_METHODS, VIEW_ATTRS


@dataclass
class Store:
    kind: str            # 'attr' (rebind field), 'elem' (in-place element/slice), 'aug' (in-place augmented),
                         # 'mutcall' (mutating method / setattr), 'name' (local rebind)
    node: ast.AST        # statement / call node
    target: ast.AST      # expression denoting what is written (the container for elem, the object for attr)
    field: Optional[str]  # attribute name for 'attr' stores
    paths: Set[str]      # access paths written ('P.a' for attr, 'P[]' for elem)
    text: str

    @property
    def inplace(self) -> bool:
        return self.kind in ("elem", "aug", "mutcall")


def _literal_names(fi: FuncInfo, e: ast.AST) -> List[str]:
    """the attribute names a setattr call can write: a string literal, or the loop variable of an enclosing
    `for v in (<string literals>)`"""
    if isinstance(e, ast.Constant) and isinstance(e.value, str):
        return [e.value]
    if isinstance(e, ast.Name):
        for loop in ast.walk(fi.node):
            if isinstance(loop, ast.For) and isinstance(loop.target, ast.Name) and loop.target.id == e.id \
                    and isinstance(loop.iter, (ast.Tuple, ast.List)) and loop.iter.elts \
                    and all(isinstance(x, ast.Constant) and isinstance(x.value, str) for x in loop.iter.elts) \
                    and any(sub is e for b in loop.body for sub in ast.walk(b)):
                return [x.value for x in loop.iter.elts]
    return []


def _targets(node: ast.AST):
    if isinstance(node, ast.Assign):
        for t in node.targets:
            yield from _flatten(t)
    elif isinstance(node, (ast.AugAssign, ast.AnnAssign)):
        if not (isinstance(node, ast.AnnAssign) and node.value is None):
            yield from _flatten(node.target)
    elif isinstance(node, (ast.For, ast.AsyncFor)):
        yield from _flatten(node.target)
    elif isinstance(node, (ast.With, ast.AsyncWith)):
        for it in node.items:
            if it.optional_vars is not None:
                yield from _flatten(it.optional_vars)
    elif isinstance(node, ast.Delete):
        for t in node.targets:
            yield from _flatten(t)
    elif isinstance(node, ast.NamedExpr):
        yield node.target


def _flatten(t: ast.AST):
    if isinstance(t, (ast.Tuple, ast.List)):
        for e in t.elts:
            yield from _flatten(e)
    elif isinstance(t, ast.Starred):
        yield from _flatten(t.value)
    else:
        yield t


def stores(prog: Program, fi: FuncInfo, roles: Optional[Roles] = None, include_names: bool = False) -> List[Store]:
    out: List[Store] = []

    def P(e):
        return roles.paths(fi, e) if roles is not None else set()

    for n in walk_no_nested(fi.node):
        for t in _targets(n):
            aug = isinstance(n, ast.AugAssign)
            if isinstance(t, ast.Name):
                if aug:
                    out.append(Store("aug", n, t, None, {p for p in P(t)}, norm(n)))
                elif include_names:
                    out.append(Store("name", n, t, None, set(), norm(n)))
            elif isinstance(t, ast.Attribute):
                base = P(t.value)
                paths = {b + "." + t.attr for b in base}
                out.append(Store("attr", n, t.value, t.attr, paths, norm(n)))
                if aug:
                    # X.a += v mutates the old array in place as well (ndarray semantics)
                    out.append(Store("aug", n, t, None, set(P(t)), norm(n)))
            elif isinstance(t, ast.Subscript):
                cont = t.value
                paths = {p + "[]" for p in P(cont)}
                out.append(Store("aug" if aug else "elem", n, cont, None, paths, norm(n)))
        if isinstance(n, ast.Call):
            f = n.func
            if isinstance(f, ast.Attribute):
                recv = f.value
                if f.attr in MUTATING_METHODS:
                    # dict.update on obj.__dict__ writes obj's fields
                    if isinstance(recv, ast.Attribute) and recv.attr == "__dict__":
                        paths = {p + ".*" for p in P(recv.value)}
                        out.append(Store("mutcall", n, recv.value, "*", paths, norm(n)))
                    elif f.attr == "__setattr__":
                        paths = {p + ".*" for p in P(recv)}
                        out.append(Store("mutcall", n, recv, "*", paths, norm(n)))
                    else:
                        # only count it when the receiver is not a resolved repo function/module
                        if prog.external_name(fi, f) is None and prog.resolve_call(fi, n) is None:
                            out.append(Store("mutcall", n, recv, None, {p + "[]" for p in P(recv)}, norm(n)))
                elif f.attr in INPLACE_KW_METHODS and any(
                        k.arg == "inplace" and not (isinstance(k.value, ast.Constant) and k.value.value is False)
                        for k in n.keywords):
                    out.append(Store("mutcall", n, recv, None, {p + "[]" for p in P(recv)}, norm(n)))
            elif isinstance(f, ast.Name) and f.id == "setattr" and len(n.args) >= 2:
                names = _literal_names(fi, n.args[1])
                if names and len(n.args) >= 3:
                    # setattr(obj, "field", v) / for field in ("a", "b"): setattr(obj, field, v)  ==  obj.a = v; obj.b = v
                    if not hasattr(n, "value"):
                        n.value = n.args[2]          # lets users of Store.node read the stored value as for an Assign
                    for fld in names:
                        out.append(Store("attr", n, n.args[0], fld, {b + "." + fld for b in P(n.args[0])}, f"{norm(n.args[0])}.{fld} = {norm(n.args[2])}"))
                else:
                    paths = {p + ".*" for p in P(n.args[0])}
                    out.append(Store("mutcall", n, n.args[0], "*", paths, norm(n)))
            elif isinstance(f, ast.Name) and f.id == "delattr" and n.args:
                paths = {p + ".*" for p in P(n.args[0])}
                out.append(Store("mutcall", n, n.args[0], "*", paths, norm(n)))
    return out
