"""Polynomial / rational normal forms over opaque atoms (exact Fractions).

``nf(expr)`` maps an arithmetic expression to a canonical polynomial:
    { monomial : coefficient }   with monomial = sorted tuple of (atom, integer power)
Atoms are names, attribute chains, subscripts and any sub-expression the normaliser does not
interpret (calls, comparisons ...), identified by their normalised source text.  Division by
a single-monomial polynomial becomes negative powers; division by a sum becomes the atom
``inv(<canonical text of the sum>)``.  Two expressions are *identical over the reals* when
their normal forms are equal; re-association, distribution, temporaries (via ``subst``) and
literal formatting do not matter.
"""
from __future__ import annotations
import ast
from fractions import Fraction
from typing import Dict, Tuple, Optional, Callable

Mono = Tuple[Tuple[str, int], ...]
Poly = Dict[Mono, Fraction]

ONE: Mono = ()


def const(c) -> Poly:
    c = Fraction(c).limit_denominator(10 ** 12) if isinstance(c, float) else Fraction(c)
    return {ONE: c} if c != 0 else {}


def atom(name: str) -> Poly:
    return {((name, 1),): Fraction(1)}


def add(a: Poly, b: Poly, sign: int = 1) -> Poly:
    out = dict(a)
    for m, c in b.items():
        v = out.get(m, Fraction(0)) + sign * c
        if v == 0:
            out.pop(m, None)
        else:
            out[m] = v
    return out


def _mul_mono(m1: Mono, m2: Mono) -> Mono:
    d: Dict[str, int] = {}
    for a, p in m1 + m2:
        d[a] = d.get(a, 0) + p
    return tuple(sorted((a, p) for a, p in d.items() if p != 0))


def mul(a: Poly, b: Poly) -> Poly:
    out: Poly = {}
    for m1, c1 in a.items():
        for m2, c2 in b.items():
            m = _mul_mono(m1, m2)
            v = out.get(m, Fraction(0)) + c1 * c2
            if v == 0:
                out.pop(m, None)
            else:
                out[m] = v
    return out


def text(p: Poly) -> str:
    if not p:
        return "0"
    parts = []
    for m in sorted(p):
        c = p[m]
        ms = "*".join(a if pw == 1 else f"{a}^{pw}" for a, pw in m)
        cs = str(c)
        parts.append(f"{cs}*{ms}" if ms and c != 1 else (ms or cs))
    return " + ".join(parts)


def inverse(p: Poly) -> Optional[Poly]:
    if not p:
        return None
    if len(p) == 1:
        (m, c), = p.items()
        return {tuple(sorted((a, -pw) for a, pw in m)): 1 / c}
    # normalise the sum so that inv(2a+2b) == 1/2 inv(a+b)
    lead = p[sorted(p)[0]]
    q = {m: c / lead for m, c in p.items()}
    return {((f"inv({text(q)})", 1),): 1 / lead}


class NF:
    def __init__(self, subst: Optional[Callable[[ast.AST], Optional[ast.AST]]] = None,
                 atom_name: Optional[Callable[[ast.AST], Optional[str]]] = None, max_depth: int = 25):
        """subst(node) may return an expression to use in place of a Name (single-definition temporaries);
        atom_name(node) may canonicalise the name of an atom (e.g. through aliases)."""
        self.subst = subst
        self.atom_name = atom_name
        self.depth = 0
        self.max_depth = max_depth

    def nf(self, e: ast.AST) -> Poly:
        if isinstance(e, ast.Constant) and isinstance(e.value, (int, float)) and not isinstance(e.value, bool):
            return const(e.value)
        if isinstance(e, ast.UnaryOp) and isinstance(e.op, ast.USub):
            return mul(const(-1), self.nf(e.operand))
        if isinstance(e, ast.UnaryOp) and isinstance(e.op, ast.UAdd):
            return self.nf(e.operand)
        if isinstance(e, ast.BinOp):
            if isinstance(e.op, ast.Add):
                return add(self.nf(e.left), self.nf(e.right))
            if isinstance(e.op, ast.Sub):
                return add(self.nf(e.left), self.nf(e.right), -1)
            if isinstance(e.op, ast.Mult):
                return mul(self.nf(e.left), self.nf(e.right))
            if isinstance(e.op, ast.Div):
                inv = inverse(self.nf(e.right))
                if inv is None:
                    return atom(f"div0({ast.unparse(e)})")
                return mul(self.nf(e.left), inv)
            if isinstance(e.op, ast.Pow) and isinstance(e.right, ast.Constant) and isinstance(e.right.value, int) \
                    and 0 <= e.right.value <= 6:
                out = const(1)
                base = self.nf(e.left)
                for _ in range(e.right.value):
                    out = mul(out, base)
                return out
        if isinstance(e, ast.Name) and self.subst is not None and self.depth < self.max_depth:
            r = self.subst(e)
            if r is not None:
                self.depth += 1
                try:
                    return self.nf(r)
                finally:
                    self.depth -= 1
        if isinstance(e, ast.Call) and isinstance(e.func, ast.Name) and e.func.id == "float" and len(e.args) == 1:
            return self.nf(e.args[0])
        name = self.atom_name(e) if self.atom_name is not None else None
        if name is None:
            name = self._opaque(e)
        return atom(name)

    def _opaque(self, e: ast.AST) -> str:
        """canonical text of an uninterpreted expression: its arithmetic sub-terms are normalised too"""
        if isinstance(e, (ast.Name, ast.Attribute)):
            return ast.unparse(e)
        if isinstance(e, ast.Subscript):
            return f"{self._opaque(e.value)}[{ast.unparse(e.slice)}]"
        if isinstance(e, ast.Call):
            args = ",".join(text(self.nf(a)) if not isinstance(a, ast.Starred) else ast.unparse(a) for a in e.args)
            kws = ",".join(f"{k.arg}={ast.unparse(k.value)}" for k in e.keywords)
            return f"{ast.unparse(e.func)}({args}{',' + kws if kws else ''})"
        return ast.unparse(e)


def equal(a: Poly, b: Poly) -> bool:
    return add(a, b, -1) == {}
