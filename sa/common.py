"""Shared anchors and root bindings used by several property checks."""
from __future__ import annotations
from typing import Dict, Set
from .model import Program
from .roles import Roles

STEP_ROOT = "aquacrop.core:AquaCropModel._perform_timestep"
INIT_ROOT = "aquacrop.core:AquaCropModel._initialize"
RUN_ROOT = "aquacrop.core:AquaCropModel.run_model"
STEP_FN = "aquacrop.timestep.run_single_timestep:solution_single_time_step"
RESET_FN = "aquacrop.timestep.reset_initial_conditions:reset_initial_conditions"
UPDATE_FN = "aquacrop.timestep.update_time:update_time"

STEP_SELF = {"_init_cond": {"STATE"}, "_param_struct": {"PARAM"}, "_clock_struct": {"CLOCK"},
             "_outputs": {"OUT"}, "_weather": {"WEATHER"}, "crop": {"USER.crop"},
             # the remaining constructor arguments are not read while stepping; bound for completeness
             "soil": {"USER.soil"}, "weather_df": {"USER.weather_df"},
             "irrigation_management": {"USER.irrigation_management"},
             "field_management": {"USER.field_management"},
             "fallow_field_management": {"USER.fallow_field_management"},
             "groundwater": {"USER.groundwater"}, "co2_concentration": {"USER.co2_concentration"},
             "initial_water_content": {"USER.initial_water_content"}}

_ROLES: Dict[str, Roles] = {}


def step_roles(prog: Program) -> Roles:
    if "step" not in _ROLES:
        prog.func(STEP_ROOT)
        _ROLES["step"] = Roles(prog, {STEP_ROOT: {}}, self_attrs=STEP_SELF)
    return _ROLES["step"]


INIT_SELF = {"_init_cond": {"STATE"}, "_param_struct": {"PARAM"}, "_clock_struct": {"CLOCK"},
             "_outputs": {"OUT"}, "_weather": {"WEATHER"}, "crop": {"USER.crop"},
             "soil": {"USER.soil"}, "weather_df": {"USER.weather_df"},
             "irrigation_management": {"USER.irrigation_management"},
             "field_management": {"USER.field_management"},
             "fallow_field_management": {"USER.fallow_field_management"},
             "groundwater": {"USER.groundwater"}, "co2_concentration": {"USER.co2_concentration"},
             "initial_water_content": {"USER.initial_water_content"},
             "sim_start_time": {"USER.sim_start_time"}, "sim_end_time": {"USER.sim_end_time"},
             "off_season": {"USER.off_season"}}


def init_roles(prog: Program) -> Roles:
    if "init" not in _ROLES:
        prog.func(INIT_ROOT)
        _ROLES["init"] = Roles(prog, {INIT_ROOT: {}}, self_attrs=INIT_SELF,
                               new_as={"InitialCondition": "STATE", "ParamStruct": "PARAM", "ClockStruct": "CLOCK",
                                       "Output": "OUT", "SoilProfile": "PARAM.Soil.Profile"})
    return _ROLES["init"]
