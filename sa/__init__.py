"""Static analysis machinery for the aquacrop properties (see /verif/DESIGN.md)."""
