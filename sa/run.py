"""CLI: python -m sa.run <property id> [--tier quick|thorough] [--replay path] [--repo path]"""
from __future__ import annotations
import argparse
import importlib
import os
import sys
import traceback


def main(argv=None) -> int:
    ap = argparse.ArgumentParser()
    ap.add_argument("pid")
    ap.add_argument("--tier", default=os.environ.get("VERIF_TIER", "quick"), choices=["quick", "thorough"])
    ap.add_argument("--replay", default=None)
    ap.add_argument("--repo", default=None)
    ap.add_argument("--no-selfval", action="store_true")
    args = ap.parse_args(argv)
    if args.repo:
        os.environ["AQUACROP_REPO"] = args.repo
    pid = args.pid.upper()
    try:
        from .model import load, AnalysisError
        from .report import Check
        mod = importlib.import_module(f"sa.props.{pid.lower()}")
        prog = load()
        chk = Check(pid, args.tier, getattr(mod, "EXPLANATION", ""))
        mod.run(chk, prog, args.tier)
        if args.tier == "thorough" and not args.no_selfval and not args.repo:
            from . import selfval
            selfval.run(chk, pid)
        return chk.finish()
    except Exception as e:          # analysis broken: never a verdict
        kind = type(e).__name__
        print(f"ANALYSIS-ERROR property={pid} {kind}: {e}")
        traceback.print_exc(file=sys.stdout)
        return 2


if __name__ == "__main__":
    sys.exit(main())
