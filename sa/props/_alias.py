"""Run a rule of one property under another property's rule id (a rule that is a necessary condition of clauses of both)."""


class Alias:
    def __init__(self, chk, old, new: str = ""):
        self._chk = chk
        self._map = dict(old) if isinstance(old, dict) else {old: new}

    def _m(self, rule: str) -> str:
        for old, new in self._map.items():
            if rule.startswith(old):
                return new + rule[len(old):]
        return rule

    def __getattr__(self, name):
        return getattr(self._chk, name)

    def ok(self, rule, *a, **k):
        return self._chk.ok(self._m(rule), *a, **k)

    def violation(self, rule, *a, **k):
        return self._chk.violation(self._m(rule), *a, **k)

    def floor(self, rule, *a, **k):
        return self._chk.floor(self._m(rule), *a, **k)
