"""Run a rule of one property under another property's rule id (a rule that is a necessary condition of clauses of both)."""


class Alias:
    def __init__(self, chk, old: str, new: str):
        self._chk, self._old, self._new = chk, old, new

    def _m(self, rule: str) -> str:
        return self._new + rule[len(self._old):] if rule.startswith(self._old) else rule

    def __getattr__(self, name):
        return getattr(self._chk, name)

    def ok(self, rule, *a, **k):
        return self._chk.ok(self._m(rule), *a, **k)

    def violation(self, rule, *a, **k):
        return self._chk.violation(self._m(rule), *a, **k)

    def floor(self, rule, *a, **k):
        return self._chk.floor(self._m(rule), *a, **k)
