"""C05 - crop state inside its envelope (off-season zeros and finiteness-by-table only)."""
from __future__ import annotations
from ..cp import batch, is_zero, row_writers
from ..common import STEP_FN
from ._tablediv import table_divisors

EXPLANATION = (
    "C05.a: interprocedural constant propagation of the daily step under growing_season=False: the values reaching the "
    "crop_growth columns dap, gdd_cum, z_root, canopy_cover, canopy_cover_ns, biomass, biomass_ns, harvest_index, "
    "harvest_index_adj, DryYield, FreshYield, YieldPot are the constant 0 (through root_development, canopy_cover, "
    "biomass_accumulation, harvest_index, HIref_current_day). C05.b: every division / logarithm whose argument is a pure "
    "function of crop parameters is evaluated over the 37 effective catalogue crops (defaults + catalogue + "
    "calculate_additional_params + calendar copies, constant-folded), honouring crop-pure guards; a zero divisor makes "
    "crop outputs non-finite. C05.c (sibling agreement): the four implementations of the degree-day formula (scalar daily, "
    "vectorised season reset, two pandas versions of the crop calendar) apply, for each method 1-3, exactly the temperature "
    "clamps of the method's definition, which keep daily degree days in [0, Tupp - Tbase]. NOT decided: canopy/root/harvest-index envelopes and monotonicity, degree-day range "
    "(numeric trajectories).")

ZERO_COLS = ["dap", "gdd_cum", "z_root", "canopy_cover", "canopy_cover_ns", "biomass", "biomass_ns",
             "harvest_index", "harvest_index_adj", "DryYield", "FreshYield", "YieldPot"]


def run(chk, prog, tier):
    res = batch(prog, [{}])[0]
    chk.fn(STEP_FN)
    loc = prog.func(STEP_FN).loc(row_writers(prog)["crop_growth"])
    rows = res.rows["crop_growth"][False]
    chk.floor("C05.a", len(rows), 1, "partitions of the crop_growth row writer with growing_season=False")
    missing = [c for c in ZERO_COLS if c not in res.cols["crop_growth"]]
    if missing:
        chk.error(f"C05.a: columns {missing} no longer exist in the crop_growth table")
    for col in ZERO_COLS:
        if col in missing:
            continue
        for r in rows:
            v = r[col]
            construct = f"crop_growth.{col} | growing_season=False"
            if is_zero(v):
                chk.ok("C05.a", STEP_FN, construct, f"constant {v}")
            else:
                chk.violation("C05.a", STEP_FN, construct,
                              f"value reaching column {col} outside a growing season is {v}, not the constant 0", loc=loc)
    for c in res.calls:
        chk.callsite(c)
    chk.valuation("growing_season=False")
    table_divisors(chk, prog, "C05.b")
    from ._siblings import gdd_clamp_agreement
    gdd_clamp_agreement(chk, prog, "C05.c")
    chk.assume("A-1")
    chk.exhaustive = True
