"""C05 - crop state inside its envelope (off-season zeros and finiteness-by-table only)."""
from __future__ import annotations
from ..cp import batch, is_zero, row_writers
from ..common import STEP_FN
from ._tablediv import table_divisors
import ast
from ..model import norm, walk_no_nested, AnalysisError
from ..rdef import flow_of, ENTRY

EXPLANATION = (
    "C05.a: interprocedural constant propagation of the daily step under growing_season=False: the values reaching the "
    "crop_growth columns dap, gdd_cum, z_root, canopy_cover, canopy_cover_ns, biomass, biomass_ns, harvest_index, "
    "harvest_index_adj, DryYield, FreshYield, YieldPot are the constant 0 (through root_development, canopy_cover, "
    "biomass_accumulation, harvest_index, HIref_current_day). C05.b: every division / logarithm whose argument is a pure "
    "function of crop parameters is evaluated over the 37 effective catalogue crops (defaults + catalogue + "
    "calculate_additional_params + calendar copies, constant-folded), honouring crop-pure guards; a zero divisor makes "
    "crop outputs non-finite. C05.c (sibling agreement): the four implementations of the degree-day formula (scalar daily, "
    "vectorised season reset, two pandas versions of the crop calendar) apply, for each method 1-3, exactly the temperature "
    "clamps of the method's definition, which keep daily degree days in [0, Tupp - Tbase]. C05.d (water-table cap of the rooting depth, must-pass-through on the CFG): in root_development every "
    "definition of the returned rooting depth other than the literal 0 reaches the return only through the comparison "
    "`depth > water-table depth` or by leaving through the False edge of the water-table guard (presence flag, depth > 0), and "
    "on the True branch of that comparison the depth is set to the water-table depth, floored at the crop's minimum rooting depth "
    "and nothing else. C05.e (twin evaluations of one curve): the daily root expansion is the difference of the potential-depth curve "
    "at today's and yesterday's development time; the two evaluations receive the same sequence of definitions (after renaming the "
    "time variable) - in particular the restrictive-layer correction is applied to both or to neither - otherwise the difference is "
    "negative and the roots shrink. C05.f: the stress multiplier of the harvest index reaches the adjusted index only through the limit 1 + dHI0/100 (must-pass-through; the cap on the product of the pre- and post-anthesis factors, not on one factor). C05.g: in the restrictive-layer correction the penetrability fraction multiplies potential depth (potential -> actual) and divides the crossed thickness (actual -> potential). C05.h: = C04.d (the submergence factor of ponded-water transpiration stays >= 0: a negative daily transpiration makes biomass decrease). C05.i: yesterday's development time in root_development is today's delay-adjusted time minus the day's increment (1 day / the day's degree days), per calendar type, by polynomial normal form. C05.j (canopy cover <= CCx, structural half): in canopy_cover a raw arithmetic value reaches the canopy-cover fields only through a bound - cc_development, min with a bounded arm, a dominating clamp `if v > B: v = B`, a guard `v < bounded`, or a clamp right after the store. C05.k (deviant sibling): every division of the thermal-time conversion by a difference of calendar stages is preceded by a test of that difference against 0 (raise or positive fallback). C05.l (T-ARGS): no call below the daily step binds two positional arguments crosswise (e.g. the day's minimum and maximum temperature handed to the degree-day routine). C05.m (= T-TIME): development times, delays and stage lengths are combined in one unit per calendar type. C05.n: the season reset clears the cumulative degree days and the two delay counters on every path (not only for thermal-time crops): the reported cumulative value is the sum of the season's daily degree days. C05.o: in the daily step the groundwater check (which loads the day's table depth into the state) dominates root development. NOT decided: canopy envelope, harvest-index monotonicity, root depth <= Zmax, degree-day range "
    "(numeric trajectories).")

ZERO_COLS = ["dap", "gdd_cum", "z_root", "canopy_cover", "canopy_cover_ns", "biomass", "biomass_ns",
             "harvest_index", "harvest_index_adj", "DryYield", "FreshYield", "YieldPot"]


def run(chk, prog, tier):
    from ._timeunits import time_units
    from ..common import STEP_FN as _STEP, RESET_FN as _RESET
    chk.floor("C05.m", time_units(chk, prog, "C05.m", set(prog.reachable_from(_STEP)) | set(prog.reachable_from(_RESET)) | {_STEP}), 120,
              "expressions and stores carrying a time unit below the daily step and the season reset")
    res = batch(prog, [{}])[0]
    chk.fn(STEP_FN)
    loc = prog.func(STEP_FN).loc(row_writers(prog)["crop_growth"])
    rows = res.rows["crop_growth"][False]
    chk.floor("C05.a", len(rows), 1, "partitions of the crop_growth row writer with growing_season=False")
    missing = [c for c in ZERO_COLS if c not in res.cols["crop_growth"]]
    if missing:
        chk.error(f"C05.a: columns {missing} no longer exist in the crop_growth table")
    for col in ZERO_COLS:
        if col in missing:
            continue
        for r in rows:
            v = r[col]
            construct = f"crop_growth.{col} | growing_season=False"
            if is_zero(v):
                chk.ok("C05.a", STEP_FN, construct, f"constant {v}")
            else:
                chk.violation("C05.a", STEP_FN, construct,
                              f"value reaching column {col} outside a growing season is {v}, not the constant 0", loc=loc)
    for c in res.calls:
        chk.callsite(c)
    chk.valuation("growing_season=False")
    table_divisors(chk, prog, "C05.b")
    from ._siblings import gdd_clamp_agreement
    gdd_clamp_agreement(chk, prog, "C05.c")
    rule_d(chk, prog)
    rule_e(chk, prog)
    rule_f(chk, prog)
    rule_g(chk, prog)
    rule_j(chk, prog)
    rule_k(chk, prog)
    rule_o(chk, prog)
    # C05.n: the thermal-time counters start every season at 0 (cumulative degree days = sum of the season's daily values)
    from .c07 import rule_f as cleared_by_reset
    cleared_by_reset(chk, prog, rule="C05.n", flags={"gdd_cum": 0, "delayed_gdds": 0, "delayed_cds": 0})
    from ._args import arg_swaps
    chk.floor("C05.l", arg_swaps(chk, prog, "C05.l", prog.reachable_from(STEP_FN)), 45, "positional calls of repository functions below the daily step")
    chk.assume("A-1")
    # C05.h: biomass never decreases within a season only if the daily transpiration it is built from is >= 0: the submergence factor that
    # scales transpiration from ponded water is evaluated only where day_submerged <= LagAer (= C04.d)
    from .c04 import rule_d as submergence_factor
    submergence_factor(chk, prog, rule="C05.h")
    chk.exhaustive = True


CANOPY_FIELDS = ("canopy_cover", "canopy_cover_ns")


def rule_j(chk, prog):
    """C05.j (canopy cover <= CCx - structural half): in canopy_cover() a value computed by raw arithmetic (an exponential, a product) reaches the
    state's canopy cover (actual or no-stress) only through a bound: the growth / decline curve `cc_development` (which limits its result), a
    `min(..)` with a bounded arm, a clamp `if v > B: v = B` that dominates the store, a guard `v < <bounded>` on the store, or a clamp of the
    stored field right after the store. Bounded without more: literals, yesterday's values (parameters of the function), other fields / crop
    parameters, and locals all of whose definitions are bounded."""
    fi = prog.find_func("canopy_cover")
    flow = flow_of(fi)
    cfg = flow.cfg
    dom = cfg.dominators()
    where = f"{fi.module}:{fi.qualname}"
    chk.fn(fi.key)
    parents = {}
    for n in ast.walk(fi.node):
        for c in ast.iter_child_nodes(n):
            parents[id(c)] = n

    def clamp_dominates(name_text, at):
        """a test `<name> > B` whose True branch assigns `<name> = B` dominates node `at`"""
        for t in dom.get(at, ()):
            tn = cfg.nodes[t]
            c = tn.ast
            if tn.kind == "test" and isinstance(c, ast.Compare) and len(c.ops) == 1 and isinstance(c.ops[0], (ast.Gt, ast.GtE)) and norm(c.left) == name_text:
                for s_, l in tn.succs:
                    a = cfg.nodes[s_].ast
                    if l is True and isinstance(a, ast.Assign) and norm(a.targets[0]) == name_text and norm(a.value) == norm(c.comparators[0]):
                        return True
        return False

    def guarded_below(name_text, at):
        for t, l in cfg.transitive_control_deps(at):
            c = cfg.nodes[t].ast
            if cfg.nodes[t].kind == "test" and l is True and isinstance(c, ast.Compare) and len(c.ops) == 1 and isinstance(c.ops[0], (ast.Lt, ast.LtE)) \
                    and norm(c.left) == name_text and kind(c.comparators[0], t) == "bounded":
                return True
        return False

    def kind(e, at, depth=0):
        e = _strip_float(e)
        if isinstance(e, ast.Constant):
            return "bounded" if isinstance(e.value, (int, float)) and 0 <= e.value <= 1 else "raw"
        if isinstance(e, ast.Attribute):
            return "bounded"
        if isinstance(e, ast.Call):
            f = norm(e.func)
            if f.split(".")[-1] == "cc_development":
                return "bounded"
            if f in ("min", "np.minimum") and any(kind(a, at, depth + 1) == "bounded" for a in e.args):
                return "bounded"
            return "raw"
        if isinstance(e, ast.Name):
            if at is None or depth > 6:
                return "raw"
            if clamp_dominates(e.id, at) or guarded_below(e.id, at):
                return "bounded"
            ks = []
            for d in flow.defs_reaching(e.id, at):
                if d == ENTRY:
                    ks.append("bounded" if e.id in fi.params else "raw")
                    continue
                a = cfg.nodes[d].ast
                v = getattr(a, "value", None)
                ks.append(kind(v, d, depth + 1) if isinstance(a, ast.Assign) and v is not None else "raw")
            return "bounded" if ks and all(k == "bounded" for k in ks) else "raw"
        return "raw"

    n = 0
    for a in walk_no_nested(fi.node):
        if not (isinstance(a, ast.Assign) and len(a.targets) == 1 and isinstance(a.targets[0], ast.Attribute) and a.targets[0].attr in CANOPY_FIELDS):
            continue
        at = flow.stmt_node.get(id(a))
        if at is None:
            continue
        n += 1
        construct = norm(a)[:100]
        k = kind(a.value, at)
        if k == "raw":
            # a clamp of the stored field right after the store
            blk = None
            par = parents.get(id(a))
            for fld in ("body", "orelse", "finalbody"):
                lst = getattr(par, fld, None)
                if isinstance(lst, list) and any(x is a for x in lst):
                    blk = lst
            nxt = blk[[i for i, x in enumerate(blk) if x is a][0] + 1] if blk and blk[-1] is not a else None
            tgt = norm(a.targets[0])
            if isinstance(nxt, ast.If) and isinstance(nxt.test, ast.Compare) and isinstance(nxt.test.ops[0], (ast.Gt, ast.GtE)) and norm(nxt.test.left) == tgt \
                    and nxt.body and isinstance(nxt.body[0], ast.Assign) and norm(nxt.body[0].targets[0]) == tgt and norm(nxt.body[0].value) == norm(nxt.test.comparators[0]):
                k = "bounded"
        if k == "bounded":
            chk.ok("C05.j", where, construct, "a literal, a previous / other bounded value, the limited growth curve, or a clamped local")
        else:
            chk.violation("C05.j", where, construct, "a raw arithmetic value reaches the canopy cover without a limit: with a large daily time increment (a thermal calendar "
                          "of few degree days and a warm day) the canopy cover exceeds the crop's maximum (values of 31.8 and 5e20 were produced)", loc=fi.loc(a))
    chk.floor("C05.j", n, 25, "stores to the canopy cover fields in canopy_cover")


def rule_k(chk, prog):
    """C05.k (finite crop parameters; deviant-sibling rule): when the calendar is converted to thermal time, quotients divide by a difference of
    converted stages (degree days between two stages). Two of them protect the difference (`if t <= 0: t = <fallback>`); every such division must be
    preceded by a test of the difference against 0 that raises or replaces it - a planting period too cold for the crop makes the stages
    coincide and the quotient inf / NaN for the whole season."""
    fi = prog.find_func("compute_crop_calendar")
    flow = flow_of(fi)
    cfg = flow.cfg
    dom = cfg.dominators()
    where = f"{fi.module}:{fi.qualname}"
    chk.fn(fi.key)

    def stage_diff(e, at, depth=0):
        """is e (through single-definition locals) a difference of two crop attributes?"""
        for x in ast.walk(e):
            if isinstance(x, ast.BinOp) and isinstance(x.op, ast.Sub) and isinstance(x.left, ast.Attribute) and isinstance(x.right, ast.Attribute) \
                    and isinstance(x.left.value, ast.Name) and isinstance(x.right.value, ast.Name) and x.left.value.id == x.right.value.id:
                return True
            if isinstance(x, ast.Name) and at is not None and depth < 3:
                for d in flow.defs_reaching(x.id, at):
                    a = cfg.nodes[d].ast if d != ENTRY else None
                    if isinstance(a, ast.Assign) and stage_diff(a.value, d, depth + 1):
                        return True
        return False

    n = 0
    for x in walk_no_nested(fi.node):
        if not (isinstance(x, ast.BinOp) and isinstance(x.op, ast.Div)):
            continue
        at = flow.node_of(x)
        if at is None or not stage_diff(x.right, at):
            continue
        n += 1
        construct = f"... / ({norm(x.right)[:70]})"
        names = {y.id for y in ast.walk(x.right) if isinstance(y, ast.Name)}
        ok = False
        for t in dom.get(at, ()):
            tn = cfg.nodes[t]
            c = tn.ast
            if tn.kind == "test" and isinstance(c, ast.Compare) and len(c.ops) == 1 and isinstance(c.left, ast.Name) and c.left.id in names \
                    and isinstance(c.ops[0], (ast.LtE, ast.Lt, ast.Eq)) and isinstance(c.comparators[0], ast.Constant):
                for s_, l in tn.succs:
                    a = cfg.nodes[s_].ast
                    if l is True and (isinstance(a, ast.Raise) or (isinstance(a, ast.Assign) and norm(a.targets[0]) == c.left.id and isinstance(a.value, ast.Constant) and a.value.value > 0)):
                        ok = True
        if ok:
            chk.ok("C05.k", where, construct, "the difference of stages is tested against 0 first (raise / positive fallback)")
        else:
            chk.violation("C05.k", where, construct, "division by a difference of converted calendar stages with no test of the difference: with a planting period too cold for "
                          "the crop the stages coincide (0 degree days apart) and the coefficient is inf - canopy cover, potential biomass and yield are NaN all season", loc=fi.loc(x))
    chk.floor("C05.k", n, 2, "divisions by a difference of calendar stages in compute_crop_calendar")


def rule_o(chk, prog):
    """C05.o (roots never below a present water table - the table of the day): in the daily step the groundwater check, which loads the
    day's water-table depth into the state, precedes root development (it is never reached after it): the rooting depth is
    limited by today's table, the one reported in the same row."""
    step = prog.func(STEP_FN)
    flow = flow_of(step)
    dom = flow.cfg.dominators()
    gw = [flow.node_of(c) for c, t in prog.calls_in(step) if getattr(t, "name", "") == "check_groundwater_table"]
    rd = [flow.node_of(c) for c, t in prog.calls_in(step) if getattr(t, "name", "") == "root_development"]
    if len(gw) != 1 or len(rd) != 1 or None in gw + rd:
        raise AnalysisError("expected one call each of check_groundwater_table and root_development in the step")
    construct = "check_groundwater_table(...) before root_development(...)"
    # (the check may be skipped without a water table; what must not happen is that it runs after the roots were limited)
    if not flow.cfg.paths_exist_avoiding(rd[0], gw[0], set()) and flow.cfg.paths_exist_avoiding(gw[0], rd[0], set()):
        chk.ok("C05.o", STEP_FN, construct, "the day's water-table depth is in the state when the rooting depth is limited")
    else:
        chk.violation("C05.o", STEP_FN, construct, "root development runs before the day's water-table depth is loaded: the rooting depth is limited by yesterday's table "
                      "(a rising table leaves the roots below it, and pulls them up a day late)", loc=step.loc())
    chk.floor("C05.o", 1, 1, "ordering of the groundwater check and root development")


def _strip_float(e):
    while True:
        if isinstance(e, ast.Call) and isinstance(e.func, ast.Name) and e.func.id == "float" and len(e.args) == 1:
            e = e.args[0]
        elif isinstance(e, ast.BinOp) and isinstance(e.op, ast.Mult) and isinstance(e.right, ast.Constant) and e.right.value in (1, 1.0):
            e = e.left
        else:
            return e


def rule_d(chk, prog):
    step = prog.func(STEP_FN)
    rd = prog.find_func("root_development")
    chk.fn(rd.key)
    where = f"{rd.module}:{rd.qualname}"
    calls = [c for c, t in prog.calls_in(step) if getattr(t, "key", None) == rd.key]
    if len(calls) != 1:
        raise AnalysisError("expected one call of root_development in the step")
    call = calls[0]
    P = rd.params
    G = next((P[i] for i, a in enumerate(call.args) if isinstance(a, ast.Attribute) and a.attr == "z_gw"), None)
    W = next((P[i] for i, a in enumerate(call.args) if isinstance(a, ast.Attribute) and a.attr == "water_table"), None)
    C = next((P[i] for i, a in enumerate(call.args) if isinstance(a, ast.Name) and a.id == "crop"), None)
    rets = [r for r in walk_no_nested(rd.node) if isinstance(r, ast.Return)]
    if not (G and W and C) or len(rets) != 1 or not isinstance(rets[0].value, ast.Tuple) or not isinstance(rets[0].value.elts[0], ast.Name):
        raise AnalysisError("root_development: water-table depth / presence formals or the returned depth not found")
    R = rets[0].value.elts[0].id
    flow = flow_of(rd)
    cfg = flow.cfg
    ret_nid = flow.stmt_node[id(rets[0])]
    caps = [n for n in cfg.live_nodes() if n.kind == "test" and isinstance(n.ast, ast.Compare) and len(n.ast.ops) == 1
            and ((isinstance(n.ast.ops[0], ast.Gt) and norm(n.ast.left) == R and norm(n.ast.comparators[0]) == G)
                 or (isinstance(n.ast.ops[0], ast.Lt) and norm(n.ast.left) == G and norm(n.ast.comparators[0]) == R))]
    construct = f"{R} > {G} (rooting depth against the water table)"
    if not caps:
        chk.violation("C05.d", where, construct, "the rooting depth is never compared with the water-table depth: roots grow below a present water table",
                      loc=rd.loc())
        return
    guards = [n for n in cfg.live_nodes() if n.kind == "test" and any(isinstance(x, ast.Name) and x.id == W for x in ast.walk(n.ast))]
    guards += [n for n in cfg.live_nodes() if n.kind == "test" and isinstance(n.ast, ast.Compare) and norm(n.ast.left) == G
               and isinstance(n.ast.ops[0], ast.GtE) and isinstance(n.ast.comparators[0], ast.Constant) and n.ast.comparators[0].value == 0]
    # (the model's convention, used by check_groundwater_table and the initial conditions: a depth >= 0 is a present table, negative means none -
    # a guard `depth > 0` would let the roots pass a table lying exactly at the surface: F51)
    removed = {(g.id, False) for g in guards} | {(c.id, True) for c in caps} | {(c.id, False) for c in caps}
    cap_true = {(c.id, True) for c in caps}
    def allowed(e) -> bool:
        e = _strip_float(e)
        if isinstance(e, ast.Name) and e.id == G:
            return True
        if isinstance(e, ast.Attribute) and e.attr == "Zmin" and isinstance(e.value, ast.Name) and e.value.id == C:
            return True
        if isinstance(e, ast.Call) and isinstance(e.func, ast.Name) and e.func.id == "max" and e.args:
            return all(allowed(a) for a in e.args) and any(isinstance(_strip_float(a), ast.Name) and _strip_float(a).id == G for a in e.args)
        return False
    n_defs = 0
    for d in flow.defs_reaching(R, ret_nid):
        if d == ENTRY:
            # the incoming depth reaches the return only off-season paths that overwrite it; treat like any other definition
            src, val, txt = cfg.entry, None, f"{R} (incoming)"
        else:
            a = cfg.nodes[d].ast
            if not isinstance(a, ast.Assign):
                continue
            src, val, txt = d, a.value, norm(a)
        n_defs += 1
        cons = f"{txt[:90]} reaches the return"
        if val is not None and isinstance(val, ast.Constant) and val.value == 0:
            chk.ok("C05.d", where, cons, "no roots (literal 0)")
            continue
        under_cap = d != ENTRY and bool(cfg.transitive_control_deps(d) & cap_true)
        if under_cap:
            if allowed(val):
                chk.ok("C05.d", where, cons, "set to the water-table depth / the minimum rooting depth on the branch where the roots were below the table")
            else:
                chk.violation("C05.d", where, cons, f"on the branch where the rooting depth exceeds the water-table depth it is set to `{norm(val)}`, "
                              "which is neither the water-table depth nor the crop's minimum rooting depth: roots can stay below the water table",
                              loc=rd.loc(a))
            continue
        if cfg.reachable_without_edges(ret_nid, removed, src=src):
            chk.violation("C05.d", where, cons, f"a path from this definition to the return avoids the comparison with the water-table depth although "
                          "a water table is present", loc=rd.loc(cfg.nodes[src].ast) if src != cfg.entry else rd.loc())
        else:
            chk.ok("C05.d", where, cons, "only through the water-table comparison or with no water table")
    chk.floor("C05.d", n_defs, 3, "definitions of the returned rooting depth")


def rule_f(chk, prog):
    """C05.f: the stress-adjusted harvest index is <multiplier> * <reference index (possibly pollination-limited)>; the multiplier that
    reaches these products is limited to 1 + dHI0/100 on every path (must-pass-through: every definition of the multiplier either is
    the cap or reaches the products only through the comparison with the cap whose exceed-branch assigns the cap)"""
    hi = prog.find_func("harvest_index")
    chk.fn(hi.key)
    where = f"{hi.module}:{hi.qualname}"
    flow = flow_of(hi)
    cfg = flow.cfg
    # the local stored into <state>.harvest_index_adj
    st = [a for a in walk_no_nested(hi.node) if isinstance(a, ast.Assign) and isinstance(a.targets[0], ast.Attribute)
          and a.targets[0].attr == "harvest_index_adj" and isinstance(a.value, ast.Name)]
    if not st:
        raise AnalysisError("harvest_index: store of the adjusted harvest index from a local not found")
    loc = {a.value.id for a in st}
    prods = [a for a in walk_no_nested(hi.node) if isinstance(a, ast.Assign) and isinstance(a.targets[0], ast.Name) and a.targets[0].id in loc
             and isinstance(a.value, ast.BinOp) and isinstance(a.value.op, ast.Mult) and isinstance(a.value.left, ast.Name) and isinstance(a.value.right, ast.Name)]
    chk.floor("C05.f", len(prods), 2, "products <multiplier> * <reference harvest index>")
    common = set.intersection(*[{a.value.left.id, a.value.right.id} for a in prods]) if prods else set()
    if len(common) != 1:
        raise AnalysisError(f"harvest_index: cannot identify the stress multiplier common to the adjusted-index products ({common})")
    M = common.pop()
    def is_cap(e):
        return any(isinstance(x, ast.Attribute) and x.attr == "dHI0" for x in ast.walk(e)) and not any(isinstance(x, ast.Name) and x.id == M for x in ast.walk(e))
    tests = [n for n in cfg.live_nodes() if n.kind == "test" and isinstance(n.ast, ast.Compare) and len(n.ast.ops) == 1
             and isinstance(n.ast.ops[0], (ast.Gt, ast.GtE)) and norm(n.ast.left) == M and is_cap(n.ast.comparators[0])]
    good_tests = set()
    for t in tests:
        caps = [d for d in cfg.live_nodes() if isinstance(d.ast, ast.Assign) and isinstance(d.ast.targets[0], ast.Name) and d.ast.targets[0].id == M
                and norm(d.ast.value) == norm(t.ast.comparators[0]) and (t.id, True) in cfg.control_deps().get(d.id, set())]
        if caps:
            good_tests.add(t.id)
    for a in prods:
        use = flow.stmt_node[id(a)]
        for d in flow.defs_reaching(M, use):
            da = cfg.nodes[d].ast if d != ENTRY else None
            construct = f"{norm(da)[:60] if da is not None else M + ' (parameter)'} reaches `{norm(a)[:50]}`"
            if isinstance(da, ast.Assign) and is_cap(da.value) and norm(da.value).replace(" ", "").startswith("1+"):
                chk.ok("C05.f", where, construct, "the cap itself")
                continue
            if isinstance(da, ast.Assign) and isinstance(da.value, ast.Call) and isinstance(da.value.func, ast.Name) and da.value.func.id == "min" \
                    and any(is_cap(x) and norm(x).replace(" ", "").startswith("1+") for x in da.value.args):
                chk.ok("C05.f", where, construct, "min(., 1 + dHI0/100)")
                continue
            src = d if d != ENTRY else cfg.entry
            if good_tests and not cfg.paths_exist_avoiding(src, use, good_tests):
                chk.ok("C05.f", where, construct, f"only through the comparison of {M} with 1 + dHI0/100, whose exceed-branch assigns the cap")
            else:
                chk.violation("C05.f", where, construct, f"the multiplier {M} reaches the adjusted harvest index without passing the limit 1 + dHI0/100: the "
                              "stress-adjusted index can exceed the reference by more than the crop's allowed maximum increase",
                              loc=hi.loc(da) if da is not None else hi.loc())


def rule_g(chk, prog):
    """C05.g (rooting depth <= Zmax on soils with restrictive layers - structural half): the restrictive-layer correction converts potential
    depth to actual depth by multiplying with the layer's penetrability fraction (`adjusted + remaining * p`) and, when a layer is crossed,
    takes the layer's actual thickness off the remaining potential by the inverse conversion (`remaining - thickness / p`). The two uses of
    the fraction must be a multiplication and a division by the same fraction."""
    fi = prog.find_func("_depth_with_restrictive_layers") if any(f.name == "_depth_with_restrictive_layers" for f in prog.funcs.values()) else prog.find_func("root_development")
    chk.fn(fi.key)
    where = f"{fi.module}:{fi.qualname}"
    flow = flow_of(fi)
    def frac_names():
        # expressions denoting penetrability / 100, and locals bound to it
        out = set()
        for a in walk_no_nested(fi.node):
            if isinstance(a, ast.Assign) and isinstance(a.targets[0], ast.Name) and any(isinstance(x, ast.Attribute) and x.attr == "Penetrability" for x in ast.walk(a.value)) \
                    and isinstance(a.value, ast.BinOp) and isinstance(a.value.op, ast.Div):
                out.add(a.targets[0].id)
        return out
    fr = frac_names()
    def is_frac(e):
        if isinstance(e, ast.Name) and e.id in fr:
            return True
        return isinstance(e, ast.BinOp) and isinstance(e.op, ast.Div) and any(isinstance(x, ast.Attribute) and x.attr == "Penetrability" for x in ast.walk(e.left)) \
            and isinstance(e.right, ast.Constant) and e.right.value == 100
    mults, divs, other = [], [], []
    for a in walk_no_nested(fi.node):
        if not isinstance(a, ast.Assign):
            continue
        for b in ast.walk(a.value):
            if isinstance(b, ast.BinOp) and isinstance(b.op, (ast.Mult, ast.Div)):
                if is_frac(b.right) and not is_frac(b):
                    (mults if isinstance(b.op, ast.Mult) else divs).append((a, b))
                elif isinstance(b.op, ast.Mult) and is_frac(b.left):
                    mults.append((a, b))
    chk.floor("C05.g", len(mults) + len(divs), 2, "uses of the penetrability fraction in the restrictive-layer correction")
    # the remaining potential: the name multiplied by the fraction; its decrement must divide
    rem = {norm(b.left if is_frac(b.right) else b.right) for _, b in mults}
    for a, b in mults + divs:
        tgt = a.targets[0].id if isinstance(a.targets[0], ast.Name) else norm(a.targets[0])
        construct = norm(a)[:90]
        if tgt in rem:
            # update of the remaining potential: thickness / fraction
            if isinstance(b.op, ast.Div):
                chk.ok("C05.g", where, construct, "actual thickness converted to potential depth by dividing by the fraction")
            else:
                chk.violation("C05.g", where, construct, "the crossed layer's thickness is taken off the remaining potential depth multiplied by the penetrability "
                              "fraction instead of divided by it: too much potential remains and the roots end below the maximum rooting depth", loc=fi.loc(a))
        else:
            if isinstance(b.op, ast.Mult):
                chk.ok("C05.g", where, construct, "potential depth converted to actual depth by multiplying with the fraction")
            else:
                chk.violation("C05.g", where, construct, "potential depth is converted to actual depth by dividing by the penetrability fraction", loc=fi.loc(a))


def rule_e(chk, prog):
    """dZr = A - B where A, B are the potential-depth curve at today's / yesterday's development time"""
    rd = prog.find_func("root_development")
    where = f"{rd.module}:{rd.qualname}"
    rets = [r for r in walk_no_nested(rd.node) if isinstance(r, ast.Return)]
    R = rets[0].value.elts[0].id
    # the increment: R = float(<init> + D); D = A - B
    D = None
    for a in walk_no_nested(rd.node):
        if isinstance(a, ast.Assign) and isinstance(a.targets[0], ast.Name) and a.targets[0].id == R:
            v = _strip_float(a.value)
            if isinstance(v, ast.BinOp) and isinstance(v.op, ast.Add) and isinstance(v.right, ast.Name):
                D = v.right.id
    diffs = [a for a in walk_no_nested(rd.node) if isinstance(a, ast.Assign) and isinstance(a.targets[0], ast.Name) and a.targets[0].id == D
             and isinstance(a.value, ast.BinOp) and isinstance(a.value.op, ast.Sub) and isinstance(a.value.left, ast.Name) and isinstance(a.value.right, ast.Name)]
    if D is None or not diffs:
        raise AnalysisError("root_development: the daily expansion `<today's potential depth> - <yesterday's>` not found")
    pairs = {(d.value.left.id, d.value.right.id) for d in diffs}
    if len(pairs) != 1:
        raise AnalysisError(f"root_development: several different expansion differences {pairs}")
    A_, B_ = pairs.pop()
    # time variables: the names compared in the curve's case split for A resp. B
    def defs(nm):
        out = []
        for a in walk_no_nested(rd.node):
            if isinstance(a, ast.Assign) and len(a.targets) == 1 and isinstance(a.targets[0], ast.Name) and a.targets[0].id == nm:
                out.append(a)
        return out
    dA, dB = defs(A_), defs(B_)
    flow = flow_of(rd)
    cfg = flow.cfg
    def guard_names(ds):
        names = set()
        for a in ds:
            nid = flow.stmt_node.get(id(a))
            for t, l in cfg.control_deps().get(nid, set()):
                tn = cfg.nodes[t]
                if tn.kind == "test":
                    names |= {x.id for x in ast.walk(tn.ast) if isinstance(x, ast.Name)}
        return names
    tA = guard_names(dA) - guard_names(dB)
    tB = guard_names(dB) - guard_names(dA)
    tA -= {A_}
    tB -= {B_}
    if len(tA) != 1 or len(tB) != 1:
        raise AnalysisError(f"root_development: cannot identify the development-time variables of the two curve evaluations ({tA}, {tB})")
    ta, tb = tA.pop(), tB.pop()
    class Ren(ast.NodeTransformer):
        def __init__(s, mp): s.mp = mp
        def visit_Name(s, n):
            return ast.copy_location(ast.Name(id=s.mp.get(n.id, n.id), ctx=n.ctx), n)
    import copy
    def shape(ds, me, tv):
        out = []
        for a in ds:
            nid = flow.stmt_node.get(id(a))
            g = sorted((norm(Ren({me: "Z", tv: "t"}).visit(copy.deepcopy(cfg.nodes[t].ast))), str(l))
                       for t, l in cfg.control_deps().get(nid, set()) if cfg.nodes[t].kind == "test")
            out.append((norm(Ren({me: "Z", tv: "t"}).visit(copy.deepcopy(a.value))), tuple(g)))
        return out
    sA, sB = shape(dA, A_, ta), shape(dB, B_, tb)
    # intermediate locals of the curve (X) are shared; definitions that merely snapshot (ZrPot = Zr) are not definitions of A
    construct = f"{D} = {A_} - {B_}: definitions of {A_} (time {ta}) and {B_} (time {tb})"
    onlyA = [x for x in sA if x not in sB]
    onlyB = [x for x in sB if x not in sA]
    if not onlyA and not onlyB:
        chk.ok("C05.e", where, construct, f"{len(sA)} definitions each, identical after renaming")
    else:
        chk.violation("C05.e", where, construct,
                      "the two evaluations of the potential-depth curve are not treated alike: "
                      + (f"only today's depth gets {[x[0][:70] for x in onlyA]}; " if onlyA else "")
                      + (f"only yesterday's depth gets {[x[0][:70] for x in onlyB]}; " if onlyB else "")
                      + "their difference (the daily root expansion) can be negative and the rooting depth shrinks",
                      loc=rd.loc(diffs[0]))
    chk.floor("C05.e", min(len(sA), len(sB)), 4, "definitions per curve evaluation")
    # C05.i: yesterday's development time is today's minus today's increment - one day (calendar days) or the day's degree days (thermal time);
    # the delay adjustment of the clock is common to both. Anything else (the unadjusted clock, a different delay) puts the two evaluations on
    # different clocks: after a delay the "previous" depth lies ahead of today's and the expansion is negative.
    from .. import affine as A
    from fractions import Fraction

    def cal_guard(a):
        nid = flow.stmt_node.get(id(a))
        for t, l in cfg.transitive_control_deps(nid) if nid is not None else ():
            c = cfg.nodes[t].ast
            if cfg.nodes[t].kind == "test" and l is True and isinstance(c, ast.Compare) and len(c.ops) == 1 and isinstance(c.ops[0], ast.Eq) \
                    and isinstance(c.left, ast.Attribute) and c.left.attr == "CalendarType" and isinstance(c.comparators[0], ast.Constant):
                return c.comparators[0].value
        return None
    d_ta = {cal_guard(a): a for a in defs(ta)}
    n_i = 0
    for b in defs(tb):
        c = cal_guard(b)
        a = d_ta.get(c, d_ta.get(None))
        construct = f"{norm(b)}  [CalendarType == {c}]"
        if a is None:
            chk.violation("C05.i", where, construct, f"no definition of today's development time {ta} under the same calendar type", loc=rd.loc(b))
            continue
        n_i += 1
        nfa = A.NF().nf(a.value)
        nfb = A.NF(subst=lambda nm, a=a: a.value if nm.id == ta else None).nf(b.value)
        diff = A.add(nfb, nfa, -1)
        ok = False
        if len(diff) == 1:
            (mono, coef), = diff.items()
            if mono == A.ONE:
                ok = coef == -1 and c in (1, None)
            elif len(mono) == 1 and mono[0][1] == 1 and coef == -1 and mono[0][0] in rd.params and c in (2, None):
                ok = not any(mono[0][0] == x for m in nfa for x, _ in m)
        if ok:
            chk.ok("C05.i", where, construct, f"{tb} - {ta} = {A.text(diff)}: yesterday's time on today's (delay-adjusted) clock")
        else:
            chk.violation("C05.i", where, construct, f"yesterday's development time minus today's is `{A.text(diff)}`, not minus the day's increment (1 day / the day's "
                          "degree days): the two evaluations of the potential-depth curve are on different clocks; after a development delay the previous "
                          "depth exceeds today's and the rooting depth shrinks", loc=rd.loc(b))
    chk.floor("C05.i", n_i, 2, "definitions of yesterday's development time in root_development")
