"""C10 - deterministic runs, isolated instances."""
from __future__ import annotations
import ast
from typing import Dict, List, Set, Tuple

from ..common import step_roles, init_roles
from ..effects import stores
from ..model import norm, walk_no_nested, FuncInfo, ClassInfo
from ..roles import MUTATING_METHODS, INPLACE_KW_METHODS
from ..tables import crop_catalogue
from ..rdef import flow_of, ENTRY

EXPLANATION = (
    "C10.a (audit of process-global mutable state): every object that outlives one model instance is enumerated - "
    "module-level containers, class-level attributes, default argument values evaluated at import (list/dict/set "
    "displays, calls, instances of repository classes) - and the effect analysis must show that none is mutated: no "
    "store through the module-level name, class attributes are assigned only through instances, a mutable default is "
    "neither written through its parameter nor through the attribute it is stored in (anywhere in the package, by "
    "attribute name), a default that is an instance of a repository class is rejected if the model writes fields of "
    "the object it is stored in; values copied out of the crop catalogue are immutable scalars (all 37 entries). "
    "C10.b (sources of nondeterminism): no call into random / numpy.random / uuid / secrets / os.urandom / hash() / "
    "id(); no order-sensitive use of a set (hash-seed dependent order); no numpy.empty / empty_like / ndarray allocation except as the backing of a frame whose every declared column is assigned in the same function; time.time() results reach only the execution-time "
    "fields; os.getenv selects between identical imports. C10.c (isolation through shared inputs): no store of initialisation or stepping reaches an object the user handed in - the "
    "objects a run has to write to (crop, soil, CO2) enter as deepcopy(self.<obj>), the others are never written - so two models built from the same "
    "Soil / CO2 / management objects, run one after the other or stepped alternately, do not affect each other (same rule as C11.a). "
    "Trusted: numpy / pandas are deterministic (A-10). NOT "
    "decided: bitwise equality itself.")

IMMUTABLE_CALLS = {"str", "int", "float", "bool", "tuple", "frozenset", "dirname", "abspath", "join"}
NONDET_PREFIX = ("random.", "numpy.random.", "uuid.", "secrets.", "os.urandom", "numpy.random")


def _is_mutable_display(e: ast.AST, prog, fi_mod) -> str:
    """'' if immutable / unknown-safe, else a description of the mutable object"""
    if isinstance(e, (ast.List, ast.Dict, ast.Set, ast.ListComp, ast.DictComp, ast.SetComp)):
        return type(e).__name__.lower()
    if isinstance(e, ast.BinOp):
        l, r = _is_mutable_display(e.left, prog, fi_mod), _is_mutable_display(e.right, prog, fi_mod)
        return l or r
    if isinstance(e, ast.Call):
        f = e.func
        name = f.id if isinstance(f, ast.Name) else (f.attr if isinstance(f, ast.Attribute) else "")
        if name in IMMUTABLE_CALLS:
            return ""
        r = prog.resolve_name(fi_mod, name) if isinstance(f, ast.Name) else None
        if isinstance(r, ClassInfo):
            return f"instance of {r.name}"
        if name in ("list", "dict", "set", "defaultdict", "OrderedDict", "array", "zeros", "ones", "DataFrame", "Series"):
            return f"{name}(...)"
        return f"result of {name}(...)"
    return ""


def rule_a(chk, prog):
    objs = 0
    all_funcs = list(prog.funcs.values())
    # ---------------- module-level containers
    for mod in prog.modules.values():
        for st in mod.tree.body:
            targets = []
            if isinstance(st, ast.Assign):
                targets = [(t, st.value) for t in st.targets if isinstance(t, ast.Name)]
            elif isinstance(st, ast.AnnAssign) and isinstance(st.target, ast.Name) and st.value is not None:
                targets = [(st.target, st.value)]
            for t, v in targets:
                kind = _is_mutable_display(v, prog, mod.name)
                if not kind:
                    continue
                objs += 1
                name = t.id
                where = f"{mod.name}:<module>"
                # any store through this global in any function of any module that can see it
                hits = []
                for fi in all_funcs:
                    r = prog.resolve_name(fi.module, name) if fi.module != mod.name else None
                    visible = fi.module == mod.name or (prog.modules[fi.module].imports.get(name, (None, None, None))[1:] == (mod.name, name))
                    if not visible:
                        continue
                    local_names = set(fi.params)
                    for n in walk_no_nested(fi.node):
                        if isinstance(n, ast.Name) and isinstance(n.ctx, ast.Store) and n.id == name:
                            local_names.add(name)
                    if name in local_names:
                        continue
                    # locals that alias (a part of) the global: X = G, X = G[k], X = G.attr  (no call in between: .copy(), dict(...) give fresh objects)
                    aliases = set()
                    for a_ in walk_no_nested(fi.node):
                        if isinstance(a_, ast.Assign) and len(a_.targets) == 1 and isinstance(a_.targets[0], ast.Name):
                            b_ = a_.value
                            while isinstance(b_, (ast.Attribute, ast.Subscript)):
                                b_ = b_.value
                            if isinstance(b_, ast.Name) and b_.id == name:
                                aliases.add(a_.targets[0].id)
                    for s in stores(prog, fi, None):
                        base = s.target
                        while isinstance(base, (ast.Attribute, ast.Subscript)):
                            base = base.value
                        if isinstance(base, ast.Name) and base.id == name and s.kind != "name":
                            hits.append((fi, s))
                        elif isinstance(base, ast.Name) and base.id in aliases and s.kind != "name":
                            hits.append((fi, s))
                    for n in walk_no_nested(fi.node):
                        if isinstance(n, ast.Global) and name in n.names:
                            hits.append((fi, None))
                construct = f"module-level {kind} `{name}`"
                if hits:
                    fi, s = hits[0]
                    chk.violation("C10.a", where, construct, f"process-global mutable object is written in {fi.qualname}: {s.text if s else 'global statement'}",
                                  loc=fi.loc(s.node) if s else fi.loc())
                else:
                    chk.ok("C10.a", where, construct, "never written through its name in any function")
        # ---------------- module-level statements that mutate at import are fine (executed once, deterministic)
    # ---------------- class-level attributes
    for ci in prog.classes.values():
        for attr, v in ci.class_attrs.items():
            if v is None:
                continue
            objs += 1
            kind = _is_mutable_display(v, prog, ci.module)
            where = f"{ci.module}:{ci.name}"
            construct = f"class attribute {ci.name}.{attr}"
            if kind:
                chk.violation("C10.a", where, construct, f"class-level {kind} is shared by all instances", loc=f"{ci.path}:{v.lineno}")
                continue
            # assigned through the class (ClassName.attr = / cls.attr = / type(self).attr =)?
            bad = None
            mangled = f"_{ci.name}{attr}" if attr.startswith("__") and not attr.endswith("__") else attr
            for fi in all_funcs:
                for n in walk_no_nested(fi.node):
                    if isinstance(n, ast.Attribute) and isinstance(n.ctx, ast.Store) and n.attr in (attr, mangled):
                        b = n.value
                        if isinstance(b, ast.Name) and (b.id == ci.name or b.id == "cls"):
                            bad = (fi, n)
                        if isinstance(b, ast.Call) and isinstance(b.func, ast.Name) and b.func.id == "type":
                            bad = (fi, n)
                        if isinstance(b, ast.Attribute) and b.attr == "__class__":
                            bad = (fi, n)
            if bad:
                chk.violation("C10.a", where, construct, f"assigned on the class in {bad[0].qualname}: state shared by all instances", loc=bad[0].loc(bad[1]))
            else:
                chk.ok("C10.a", where, construct, "immutable literal, assigned only through instances")
    # ---------------- default argument values
    roles = [init_roles(prog), step_roles(prog)]
    for fi in all_funcs:
        a = fi.node.args
        pos = a.posonlyargs + a.args
        defaults = list(zip(pos[len(pos) - len(a.defaults):], a.defaults)) + [(k, d) for k, d in zip(a.kwonlyargs, a.kw_defaults) if d is not None]
        for arg, d in defaults:
            kind = _is_mutable_display(d, prog, fi.module)
            if not kind:
                continue
            objs += 1
            where = f"{fi.module}:{fi.qualname}"
            construct = f"default {arg.arg}={norm(d)[:40]} ({kind})"
            # (i) written through the parameter itself
            problem = None
            stored_as: Set[str] = set()
            for s in stores(prog, fi, None):
                base = s.target
                while isinstance(base, (ast.Attribute, ast.Subscript)):
                    base = base.value
                if isinstance(base, ast.Name) and base.id == arg.arg and s.inplace:
                    # a rebinding of the parameter name before the store makes it a different object
                    flow = flow_of(fi)
                    nid = flow.node_of(s.node) if not isinstance(s.node, ast.stmt) else flow.stmt_node.get(id(s.node))
                    if nid is None or ENTRY in flow.defs_reaching(arg.arg, nid):
                        problem = f"the default object is mutated in place: {s.text}"
            for n in walk_no_nested(fi.node):
                if isinstance(n, ast.Assign) and isinstance(n.value, ast.Name) and n.value.id == arg.arg:
                    for t in n.targets:
                        if isinstance(t, ast.Attribute):
                            stored_as.add(t.attr)
            # (ii) written through the attribute it is stored in (any function, by attribute name)
            if not problem and stored_as:
                for g in all_funcs:
                    for s in stores(prog, g, None):
                        t = s.target
                        if s.inplace and isinstance(t, ast.Attribute) and t.attr in stored_as:
                            problem = f"stored as .{t.attr} and mutated in place in {g.qualname}: {s.text}"
            # (iii) an instance of a repository class: any field write on the object it is stored in
            if not problem and kind.startswith("instance of") and stored_as:
                for r in roles:
                    for key in r.reached:
                        g = prog.funcs[key]
                        for s in stores(prog, g, r):
                            if any(p.startswith(f"USER.{x}.") or p.startswith(f"USER.{x}[") for x in stored_as for p in s.paths):
                                problem = f"shared default {kind} is stored as .{sorted(stored_as)[0]} and the model writes its fields in {g.qualname}: {s.text}"
                                break
            if problem:
                chk.violation("C10.a", where, construct, "a default value evaluated once at import is shared by every call: " + problem, loc=fi.loc(d))
            else:
                chk.ok("C10.a", where, construct, "never mutated (through the parameter or the attribute it is stored in)")
    chk.floor("C10.a", objs, 12, "process-global objects audited")
    # ---------------- catalogue values are immutable scalars
    cat = crop_catalogue(prog)
    nvals = 0
    for cname, d in cat.items():
        for k, v in d.items():
            nvals += 1
            if not isinstance(v, (int, float, str, bool)) and v is not None:
                chk.violation("C10.a", "aquacrop.entities.crops.crop_params:<module>", f"crop_params[{cname!r}][{k!r}]",
                              f"catalogue value of type {type(v).__name__} would be shared by reference between Crop instances")
    chk.ok("C10.a", "aquacrop.entities.crops.crop_params:<module>", f"{len(cat)} catalogue entries / {nvals} values", "all immutable scalars")


def rule_b(chk, prog):
    calls = 0
    for fi in prog.funcs.values():
        where = f"{fi.module}:{fi.qualname}"
        for n in walk_no_nested(fi.node):
            if isinstance(n, ast.Call):
                calls += 1
                ext = prog.external_name(fi, n.func) if isinstance(n.func, (ast.Attribute, ast.Name)) else None
                if ext is None and isinstance(n.func, ast.Name):
                    imp = prog.modules[fi.module].imports.get(n.func.id)
                    if imp and imp[0] == "symbol" and not imp[1].startswith("aquacrop"):
                        ext = f"{imp[1]}.{imp[2]}"
                if ext and ext.startswith(NONDET_PREFIX):
                    chk.violation("C10.b", where, norm(n)[:80], f"call into a source of nondeterminism ({ext})", loc=fi.loc(n))
                if isinstance(n.func, ast.Name) and n.func.id in ("hash", "id") and n.func.id not in fi.params:
                    chk.violation("C10.b", where, norm(n)[:80], f"{n.func.id}() depends on the hash seed / memory layout", loc=fi.loc(n))
                if ext in ("time.time", "time.perf_counter", "time.monotonic", "datetime.datetime.now", "datetime.now", "time.time_ns"):
                    # must be directly assigned to an execution-time field
                    flow = flow_of(fi)
                    st = flow.cfg.nodes[flow.node_of(n)].ast if flow.node_of(n) is not None else None
                    ok = isinstance(st, ast.Assign) and isinstance(st.targets[0], ast.Attribute) and "model_execution" in st.targets[0].attr
                    if ok:
                        chk.ok("C10.b", where, norm(st), "wall-clock value only stored in the execution-time field")
                    else:
                        chk.violation("C10.b", where, norm(n), "wall-clock time flows into something else than the execution-time fields", loc=fi.loc(n))
            # order-sensitive consumers of sets
            it = None
            if isinstance(n, (ast.For, ast.AsyncFor)):
                it = n.iter
            elif isinstance(n, ast.comprehension):
                it = n.iter
            if it is not None:
                if _is_set_expr(it, fi):
                    chk.violation("C10.b", where, norm(it)[:80], "iteration over a set: order depends on the hash seed", loc=fi.loc(it))
    # every other use of a set-valued expression must be order-insensitive
    ORDER_FREE_CALLS = {"len", "sorted", "set", "frozenset", "min", "max", "any", "all", "bool", "isinstance", "print"}
    SET_METHODS = {"add", "discard", "remove", "update", "union", "intersection", "difference", "symmetric_difference", "issubset",
                   "issuperset", "isdisjoint", "copy", "clear", "intersection_update", "difference_update"}
    n_sets = 0
    for fi in prog.funcs.values():
        where = f"{fi.module}:{fi.qualname}"
        parent = {}
        for x in walk_no_nested(fi.node):
            for c in ast.iter_child_nodes(x):
                parent[id(c)] = x
        for x in walk_no_nested(fi.node):
            if not isinstance(x, ast.expr) or not _is_set_expr(x, fi):
                continue
            if isinstance(x, ast.Name) and isinstance(x.ctx, ast.Store):
                continue
            n_sets += 1
            par = parent.get(id(x))
            ok = False
            if isinstance(par, ast.Compare) and any(isinstance(o, (ast.In, ast.NotIn)) for o in par.ops) and x in par.comparators:
                ok = True
            elif isinstance(par, ast.Compare) and all(isinstance(o, (ast.Eq, ast.NotEq, ast.LtE, ast.GtE, ast.Lt, ast.Gt)) for o in par.ops):
                ok = True          # set comparisons
            elif isinstance(par, ast.Call) and x in par.args and isinstance(par.func, ast.Name) and par.func.id in ORDER_FREE_CALLS:
                ok = True
            elif isinstance(par, ast.Attribute) and par.attr in SET_METHODS:
                ok = True
            elif isinstance(par, ast.Call) and isinstance(par.func, ast.Attribute) and par.func.attr in SET_METHODS and x in par.args:
                ok = True
            elif isinstance(par, ast.BinOp) and isinstance(par.op, (ast.BitOr, ast.BitAnd, ast.Sub, ast.BitXor)):
                ok = True
            elif isinstance(par, (ast.Assign, ast.AugAssign, ast.AnnAssign, ast.If, ast.While, ast.BoolOp, ast.UnaryOp, ast.Expr, ast.IfExp)):
                ok = True          # binding / truth value; the bound name is followed by reaching definitions
            elif isinstance(par, (ast.For, ast.AsyncFor, ast.comprehension)) and par.iter is x:
                continue           # reported above as iteration
            if ok:
                chk.ok("C10.b", where, norm(par)[:80] if par is not None else norm(x), "order-insensitive use of a set", nontrivial=False)
            else:
                chk.violation("C10.b", where, norm(par)[:90] if par is not None else norm(x),
                              f"the set `{norm(x)[:40]}` is turned into / consumed as an ordered sequence: its order depends on the hash seed of the "
                              "process, so do the results", loc=fi.loc(x))
    chk.notes["set_valued_expressions"] = n_sets
    # uninitialised memory: numpy.empty / empty_like hand out whatever the allocator left there (depends on what ran before in the
    # process). Allowed only as the backing of a frame every declared column of which is assigned in the same function.
    n_empty = 0
    for fi in prog.funcs.values():
        where = f"{fi.module}:{fi.qualname}"
        parent = {}
        for x in walk_no_nested(fi.node):
            for c in ast.iter_child_nodes(x):
                parent[id(c)] = x
        for c in walk_no_nested(fi.node):
            if not (isinstance(c, ast.Call) and isinstance(c.func, ast.Attribute) and c.func.attr in ("empty", "empty_like", "ndarray")
                    and (prog.external_name(fi, c.func) or "").startswith("numpy.")):
                continue
            n_empty += 1
            par = parent.get(id(c))
            ok = False
            if isinstance(par, ast.Call) and isinstance(par.func, ast.Attribute) and par.func.attr == "DataFrame":
                cols = next((k.value for k in par.keywords if k.arg == "columns"), None)
                asg = parent.get(id(par))
                if isinstance(cols, ast.List) and all(isinstance(e, ast.Constant) for e in cols.elts) and isinstance(asg, ast.Assign):
                    tgt = norm(asg.targets[0])
                    assigned = set()
                    for a in walk_no_nested(fi.node):
                        if isinstance(a, ast.Assign):
                            t = a.targets[0]
                            if isinstance(t, ast.Attribute) and norm(t.value) == tgt:
                                assigned.add(t.attr)
                            if isinstance(t, ast.Subscript) and norm(t.value) == tgt and isinstance(t.slice, ast.Constant):
                                assigned.add(t.slice.value)
                    missing = [e.value for e in cols.elts if e.value not in assigned]
                    if not missing:
                        ok = True
                        chk.ok("C10.b", where, norm(par)[:80], "uninitialised backing array, every declared column assigned in the same function")
                    else:
                        chk.violation("C10.b", where, norm(par)[:80], f"columns {missing} of a frame backed by numpy.empty are never assigned: they hold whatever the "
                                      "allocator left in that memory", loc=fi.loc(c))
                        ok = True
            if not ok:
                chk.violation("C10.b", where, norm(par if par is not None else c)[:90], "numpy.empty hands out uninitialised memory: cells the run never writes (days "
                              "skipped between seasons, days after the last harvest) depend on what ran earlier in the process", loc=fi.loc(c))
    chk.notes["uninitialised_allocations"] = n_empty
    chk.floor("C10.b", calls, 400, "call sites scanned")
    chk.ok("C10.b", "aquacrop", f"{calls} call sites / all loops", "no nondeterminism source, no set iteration")
    # os.getenv selecting imports: both branches import the same symbols from the same modules
    for mod in prog.modules.values():
        for st in ast.walk(mod.tree):
            if isinstance(st, ast.If) and any(isinstance(x, ast.Call) and norm(x.func).endswith("getenv") for x in ast.walk(st.test)):
                a = sorted(norm(x) for x in st.body if isinstance(x, (ast.Import, ast.ImportFrom)))
                b = sorted(norm(x) for x in st.orelse if isinstance(x, (ast.Import, ast.ImportFrom)))
                construct = f"if {norm(st.test)}: imports"
                if a == b and len(st.body) == len(a) and len(st.orelse) == len(b):
                    chk.ok("C10.b", f"{mod.name}:<module>", construct, "environment variable selects between identical imports")
                else:
                    chk.violation("C10.b", f"{mod.name}:<module>", construct, "behaviour depends on an environment variable", loc=f"{mod.path}:{st.lineno}")
    chk.assume("A-10")


def _is_set_expr(e: ast.AST, fi: FuncInfo) -> bool:
    if isinstance(e, (ast.Set, ast.SetComp)):
        return True
    if isinstance(e, ast.Call) and isinstance(e.func, ast.Name) and e.func.id in ("set", "frozenset"):
        return True
    if isinstance(e, ast.Name):
        flow = flow_of(fi)
        nid = flow.node_of(e)
        if nid is None:
            return False
        for d in flow.defs_reaching(e.id, nid):
            if d == ENTRY:
                continue
            st = flow.cfg.nodes[d].ast
            if isinstance(st, ast.Assign) and _is_set_expr(st.value, fi) and st.value is not e:
                return True
    return False


def run(chk, prog, tier):
    rule_a(chk, prog)
    rule_b(chk, prog)
    # C10.c: models share nothing mutable even when the user shares input objects between them
    from .c11 import user_object_stores
    user_object_stores(chk, prog, "C10.c")
    chk.exhaustive = True
