"""Cross-checks between sibling implementations (Engler-style agreement rules) shared by several properties."""
from __future__ import annotations
import ast
import re
from typing import Dict, List, Optional, Set, Tuple

from .. import affine as A
from ..affine import NF
from ..common import step_roles, init_roles
from ..model import norm, walk_no_nested, AnalysisError
from ..pure import CROP_OBJ
from ..rdef import flow_of, ENTRY


# ----------------------------------------------------------------------------- degree-day clamps (C05.c)
GDD_SPEC = {
    1: {("tmean", "upper"), ("tmean", "lower")},
    2: {("tmax", "upper"), ("tmax", "lower"), ("tmin", "upper"), ("tmin", "lower")},
    3: {("tmax", "upper"), ("tmax", "lower"), ("tmin", "upper"), ("tmean", "lower")},
}


def _canon_var(name: str) -> Optional[str]:
    n = name.lower()
    if "mean" in n:
        return "tmean"
    if "max" in n:
        return "tmax"
    if "min" in n:
        return "tmin"
    return None


def _bound_kind(e: ast.AST) -> Optional[str]:
    t = norm(e)
    if t.endswith("Tupp"):
        return "upper"
    if t.endswith("Tbase"):
        return "lower"
    return None


def _clamps(stmts: List[ast.stmt]) -> Set[Tuple[str, str]]:
    out = set()
    for st in stmts:
        for a in ast.walk(st):
            if not isinstance(a, ast.Assign) or len(a.targets) != 1:
                continue
            t, v = a.targets[0], a.value
            # scalar: x = min(x, Tupp) / x = max(x, Tbase)
            if isinstance(t, ast.Name) and isinstance(v, ast.Call) and isinstance(v.func, ast.Name) and v.func.id in ("min", "max") and len(v.args) == 2:
                var = _canon_var(t.id)
                for arg in v.args:
                    k = _bound_kind(arg)
                    if var and k and ((v.func.id == "min" and k == "upper") or (v.func.id == "max" and k == "lower")):
                        out.add((var, k))
            # numpy mask: x[x > Tupp] = Tupp / x[x < Tbase] = Tbase
            if isinstance(t, ast.Subscript) and isinstance(t.value, ast.Name) and isinstance(t.slice, ast.Compare):
                var = _canon_var(t.value.id)
                k = _bound_kind(v)
                c = t.slice
                if var and k and norm(c.left) == t.value.id and norm(c.comparators[0]) == norm(v) and \
                        ((isinstance(c.ops[0], ast.Gt) and k == "upper") or (isinstance(c.ops[0], ast.Lt) and k == "lower")):
                    out.add((var, k))
            # pandas: x = x.clip(lower=Tbase, upper=Tupp)
            if isinstance(t, ast.Name) and isinstance(v, ast.Call) and isinstance(v.func, ast.Attribute) and v.func.attr == "clip" \
                    and isinstance(v.func.value, ast.Name) and v.func.value.id == t.id:
                var = _canon_var(t.id)
                for kw in v.keywords:
                    k = _bound_kind(kw.value)
                    if var and kw.arg in ("lower", "upper") and k == kw.arg:
                        out.add((var, k))
    return out


def gdd_clamp_agreement(chk, prog, rule: str):
    """every implementation of the growing-degree-day formula applies, per method, the clamps of the method's definition"""
    impls = 0
    for fname in ("growing_degree_day", "reset_initial_conditions", "compute_crop_calendar"):
        fi = prog.find_func(fname)
        chk.fn(fi.key)
        where = f"{fi.module}:{fi.qualname}"
        for node in walk_no_nested(fi.node):
            if not isinstance(node, ast.If):
                continue
            # an if / elif chain on GDDmethod == k
            chain = []
            cur = node
            while isinstance(cur, ast.If):
                tst = cur.test
                if isinstance(tst, ast.Compare) and norm(tst.left).endswith("GDDmethod") and isinstance(tst.comparators[0], ast.Constant):
                    chain.append((tst.comparators[0].value, cur.body))
                else:
                    chain = []
                    break
                cur = cur.orelse[0] if len(cur.orelse) == 1 and isinstance(cur.orelse[0], ast.If) else None
            if len(chain) < 3:
                continue
            # only top of chain (avoid re-processing elif nodes)
            parent_is_chain = False
            for other in walk_no_nested(fi.node):
                if isinstance(other, ast.If) and len(other.orelse) == 1 and other.orelse[0] is node and \
                        isinstance(other.test, ast.Compare) and norm(other.test.left).endswith("GDDmethod"):
                    parent_is_chain = True
            if parent_is_chain:
                continue
            impls += 1
            for method, body in chain:
                got = _clamps(body)
                want = GDD_SPEC.get(method)
                construct = f"GDDmethod == {method} (line {body[0].lineno if False else ''}chain #{impls})".replace("(line ", "(")
                construct = f"degree-day method {method}, implementation #{impls} in {fi.qualname}"
                if want is None:
                    chk.violation(rule, where, construct, f"unknown degree-day method {method}", loc=fi.loc(body[0]))
                elif got == want:
                    chk.ok(rule, where, construct, "clamps: " + ", ".join(f"{v}:{k}" for v, k in sorted(got)))
                else:
                    miss = sorted(want - got)
                    extra = sorted(got - want)
                    chk.violation(rule, where, construct,
                                  "temperature clamps differ from the method's definition and from the sibling implementations"
                                  + (f"; missing {miss}" if miss else "") + (f"; extra {extra}" if extra else "")
                                  + ": daily degree days can leave [0, Tupp - Tbase]", loc=fi.loc(body[0]))
    chk.floor(rule, impls, 4, "implementations of the degree-day formula")


# ----------------------------------------------------------------------------- yield-formation clock (C16.e)

def _canon_atom_factory(prog, fi, roles_list):
    def paths(e):
        out = set()
        for r in roles_list:
            if fi.key in r.reached:
                out |= r.paths(fi, e)
        return out

    def atom_name(e):
        if isinstance(e, (ast.Name, ast.Attribute)):
            ps = paths(e)
            names = set()
            for p in ps:
                m = re.match(r"^STATE\.(\w+)$", p)
                if m:
                    names.add("STATE." + m.group(1))
                    continue
                m = re.match(r"^(.*)\.(\w+)$", p)
                if m and CROP_OBJ.match(m.group(1)):
                    names.add("CROP." + m.group(2))
                    continue
                return None
            if len(names) == 1:
                return names.pop()
        return None
    return atom_name


def yield_clock_agreement(chk, prog, rule: str):
    """every expression measuring time since the start of yield formation is dap - delayed_cds - HIstartCD - 1"""
    roles_list = [step_roles(prog)]
    want = A.add(A.add(A.add(A.atom("STATE.dap"), A.atom("STATE.delayed_cds"), -1), A.atom("CROP.HIstartCD"), -1), A.const(1), -1)
    n = 0
    for key in sorted(roles_list[0].reached):
        fi = prog.funcs[key]
        flow = flow_of(fi)
        an = _canon_atom_factory(prog, fi, roles_list)

        def subst(name_node):
            nid = flow.node_of(name_node)
            if nid is None or an(name_node) is not None:
                return None
            ds = flow.defs_reaching(name_node.id, nid)
            if len(ds) == 1 and ds[0] != ENTRY:
                st = flow.cfg.nodes[ds[0]].ast
                if isinstance(st, ast.Assign) and len(st.targets) == 1 and isinstance(st.targets[0], ast.Name):
                    return st.value
            return None
        for a in walk_no_nested(fi.node):
            if not (isinstance(a, ast.Assign) and len(a.targets) == 1 and isinstance(a.targets[0], ast.Name)):
                continue
            if flow.stmt_node.get(id(a)) is None:
                continue
            nf = NF(subst=subst, atom_name=an)
            try:
                p = nf.nf(a.value)
            except RecursionError:
                continue
            coef = {m: c for m, c in p.items()}
            if coef.get((("STATE.dap", 1),)) == 1 and coef.get((("CROP.HIstartCD", 1),)) == -1 and len(p) <= 5:
                n += 1
                chk.fn(key)
                where = f"{fi.module}:{fi.qualname}"
                construct = norm(a)[:100]
                if A.equal(p, want):
                    chk.ok(rule, where, construct, "== dap - delayed_cds - HIstartCD - 1")
                else:
                    chk.violation(rule, where, construct,
                                  f"time since the start of yield formation is computed as {A.text(p)} here but as "
                                  "dap - delayed_cds - HIstartCD - 1 by the sibling routines: their guards (HIt > 0) no longer protect "
                                  "the divisions by that quantity (ZeroDivisionError when germination was delayed)", loc=fi.loc(a))
    chk.floor(rule, n, 4, "definitions of the yield-formation clock")


# --------------------------------------------------------------------------------------------- calendar conversion scope

AGGREGATORS = {"mean", "median", "average", "nanmean", "nanmedian", "max", "min", "amax", "amin", "nanmax", "nanmin", "quantile", "percentile", "nanpercentile", "nanquantile"}


def season_aggregate_calendar(chk, prog, rule: str):
    """The calendar-day -> thermal-time conversion of a SwitchGDD crop must not make one season's calendar depend on the weather of the
    other seasons in the window. Reported: a function below _initialize that sets attributes of a crop parameter object (its formal) to
    an aggregate (mean / median) of values collected over a loop - the per-season stage thresholds averaged over all seasons."""
    from ..common import INIT_ROOT
    n = 0
    for key in sorted(prog.reachable_from(INIT_ROOT)):
        fi = prog.funcs.get(key)
        if fi is None:
            continue
        where = f"{fi.module}:{fi.qualname}"
        params = set(fi.params)
        loops = [x for x in walk_no_nested(fi.node) if isinstance(x, ast.For)]
        if not loops:
            continue
        for c in walk_no_nested(fi.node):
            tgt = val = None
            if isinstance(c, ast.Call) and isinstance(c.func, ast.Name) and c.func.id == "setattr" and len(c.args) == 3 \
                    and isinstance(c.args[0], ast.Name) and c.args[0].id in params:
                tgt, val = c.args[0].id, c.args[2]
            elif isinstance(c, ast.Assign) and isinstance(c.targets[0], ast.Attribute) and isinstance(c.targets[0].value, ast.Name) \
                    and c.targets[0].value.id in params:
                tgt, val = c.targets[0].value.id, c.value
            if tgt is None:
                continue
            if isinstance(val, ast.Call) and isinstance(val.func, ast.Attribute) and val.func.attr in AGGREGATORS:
                n += 1
                chk.fn(key)
                agg = val.func.attr
                chk.violation(rule, where, f"{tgt}.<stage> = {agg}(values collected per season)",
                              f"the thermal-time calendar of a SwitchGDD crop is the {agg} over all seasons of the simulation window "
                              f"(`{norm(c)[:70]}`): season k of a multi-season run gets a different calendar than a single-season run of the same "
                              "year, and extending the end date changes the calendar - hence the results - of seasons already completed",
                              loc=fi.loc(c))
    chk.notes[rule + "_season_aggregates"] = n
    return n


# --------------------------------------------------------------------------------------------- adjusted field capacity: two implementations

class _CanonFC(ast.NodeTransformer):
    """spell-independent form of the adjusted-field-capacity loop: the hydraulic properties of a compartment -> FC[<idx>] / S[<idx>], the
    compartment centre -> Z[<idx>], the water-table depth (any name / attribute whose last component contains 'gw') -> G. <idx> is the
    compartment the value belongs to: 'k' for the counter of the enclosing while loop, 'i' for the variable of an inner for loop. Row locals
    (`row = profile.loc[idx]`, then `row.th_fc`) and hoisted scalars (`th_fc = prof.th_fc[idx]`) are resolved through `subst`."""
    def __init__(self, idx_names=None, subst=None):
        self.idx_names = idx_names or {}
        self.subst = subst or {}

    def _idx(self, sl):
        return _fc_index(sl, self.idx_names)

    def _prop(self, attr, idx):
        base = "FC" if attr == "th_fc" else "S"
        if idx is None:
            return ast.Name(id=base, ctx=ast.Load())
        return ast.Subscript(value=ast.Name(id=base, ctx=ast.Load()), slice=ast.Name(id=idx, ctx=ast.Load()), ctx=ast.Load())

    def visit_Subscript(self, n):
        t = ast.unparse(n.value)
        if "zmid" in t.lower():
            return ast.Subscript(value=ast.Name(id="Z", ctx=ast.Load()), slice=ast.Name(id=self._idx(n.slice), ctx=ast.Load()), ctx=ast.Load())
        v = n.value
        if isinstance(v, ast.Attribute) and v.attr in ("th_fc", "th_s"):
            return self._prop(v.attr, self._idx(n.slice))
        return self.generic_visit(n)

    def visit_Attribute(self, n):
        if n.attr in ("th_fc", "th_s"):
            # a row local: the index the row was taken at
            if isinstance(n.value, ast.Name) and n.value.id in self.subst and self.subst[n.value.id][0] == "row":
                return self._prop(n.attr, self.subst[n.value.id][1])
            return self._prop(n.attr, None)
        if "gw" in n.attr.lower():
            return ast.Name(id="G", ctx=ast.Load())
        return self.generic_visit(n)

    def visit_Name(self, n):
        if "gw" in n.id.lower():
            return ast.Name(id="G", ctx=n.ctx)
        if isinstance(n.ctx, ast.Load) and n.id in self.subst and self.subst[n.id][0] == "scalar":
            return self._prop(self.subst[n.id][1], self.subst[n.id][2])
        return n

    def visit_BinOp(self, n):
        n = self.generic_visit(n)
        if isinstance(n.op, ast.Pow) and isinstance(n.right, ast.Constant) and n.right.value == 2:
            import copy
            return ast.BinOp(left=n.left, op=ast.Mult(), right=copy.deepcopy(n.left))
        return n


def _fc_index(sl, idx_names):
    """canonical compartment index; the slice `[: k + 1]` (all compartments down to the counter's) is the range the inner loop `i` runs over"""
    if isinstance(sl, ast.Slice) and sl.lower is None and sl.step is None and isinstance(sl.upper, ast.BinOp) and isinstance(sl.upper.op, ast.Add) \
            and isinstance(sl.upper.left, ast.Name) and idx_names.get(sl.upper.left.id) == "k" and isinstance(sl.upper.right, ast.Constant) and sl.upper.right.value == 1:
        return "i"
    t = ast.unparse(sl)
    return idx_names.get(t, t)


def _fc_shape(fn_node: ast.AST):
    """(tests, defining expressions) of the loop that computes the adjusted field capacity"""
    import copy
    loops = [w for w in ast.walk(fn_node) if isinstance(w, ast.While) and any(isinstance(x, ast.Name) and x.id == "Xmax" for x in ast.walk(w))]
    if len(loops) != 1:
        return None
    w = loops[0]
    # canonical names of the compartment indices
    idx_names = {}
    if isinstance(w.test, ast.Compare) and isinstance(w.test.left, ast.Name):
        idx_names[w.test.left.id] = "k"
    for x in ast.walk(w):
        if isinstance(x, ast.For) and isinstance(x.target, ast.Name):
            idx_names[x.target.id] = "i"
    # row locals and hoisted scalars defined inside the loop (one definition each; otherwise left alone)
    cand = {}
    for x in ast.walk(w):
        if isinstance(x, ast.Assign) and len(x.targets) == 1 and isinstance(x.targets[0], ast.Name):
            cand.setdefault(x.targets[0].id, []).append(x.value)
    subst = {}
    for nm, vals in cand.items():
        if len(vals) != 1:
            continue
        v = vals[0]
        if isinstance(v, ast.Subscript) and isinstance(v.value, ast.Attribute) and v.value.attr in ("loc", "iloc"):
            t = ast.unparse(v.slice)
            subst[nm] = ("row", idx_names.get(t, t))
        elif isinstance(v, ast.Subscript) and isinstance(v.value, ast.Attribute) and v.value.attr in ("th_fc", "th_s"):
            t = ast.unparse(v.slice)
            subst[nm] = ("scalar", v.value.attr, idx_names.get(t, t))
    for nm, vals in cand.items():
        v = vals[0]
        if len(vals) == 1 and isinstance(v, ast.Attribute) and v.attr in ("th_fc", "th_s") and isinstance(v.value, ast.Name) and subst.get(v.value.id, ("",))[0] == "row":
            subst[nm] = ("scalar", v.attr, subst[v.value.id][1])
    canon = lambda e: ast.unparse(_CanonFC(idx_names, subst).visit(copy.deepcopy(e)))
    tests, defs = [], []
    for x in ast.walk(w):
        if isinstance(x, (ast.If, ast.While)):
            tests.append(canon(x.test))
        if isinstance(x, ast.Assign) and isinstance(x.targets[0], ast.Name) and x.targets[0].id in ("Xmax", "pF", "dV", "dFC"):
            defs.append(x.targets[0].id + " = " + canon(x.value))
        if isinstance(x, ast.Assign) and isinstance(x.targets[0], ast.Subscript) and isinstance(x.targets[0].value, ast.Name) and "fc" in x.targets[0].value.id.lower():
            defs.append(f"ADJ[{_fc_index(x.targets[0].slice, idx_names)}] = " + canon(x.value))
    return sorted(tests), sorted(defs)


def adjusted_fc_agreement(chk, prog, rule: str):
    """the adjusted field capacity is computed twice - at initialisation (read_model_initial_conditions) and every day
    (check_groundwater_table); after renaming, the two loops have the same tests and the same defining expressions"""
    a = prog.find_func("check_groundwater_table")
    b = prog.find_func("read_model_initial_conditions")
    sa_, sb_ = _fc_shape(a.node), _fc_shape(b.node)
    if sa_ is None or sb_ is None:
        raise AnalysisError("adjusted field capacity: one of the two implementations (loop over compartments with Xmax) vanished")
    chk.fn(a.key); chk.fn(b.key)
    for label, xa, xb in (("tests", sa_[0], sb_[0]), ("defining expressions", sa_[1], sb_[1])):
        only_a = [x for x in xa if x not in xb]
        only_b = [x for x in xb if x not in xa]
        construct = f"adjusted field capacity: {label} of the daily and the initialisation implementation"
        if not only_a and not only_b:
            chk.ok(rule, f"{a.module}:{a.qualname}", construct, f"{len(xa)} {label}, identical after renaming")
        else:
            chk.violation(rule, f"{a.module}:{a.qualname}", construct,
                          f"the two implementations differ: only daily {only_a}; only initialisation {only_b} - the adjusted field capacity of day 1 "
                          "differs from the one the initial water content was laid out with", loc=a.loc())


# --------------------------------------------------------------------------------------------- CO2 factor: first season vs season reset

CO2_NAMES = ("fw", "fCO2old", "fshape", "CO2rel", "fCO2new", "ftype")


def _defs_of(fn_node: ast.AST, names):
    from ..model import norm_anon
    out = {}
    for a in ast.walk(fn_node):
        if isinstance(a, ast.Assign) and isinstance(a.targets[0], ast.Name) and a.targets[0].id in names:
            out.setdefault(a.targets[0].id, set()).add(norm_anon(a.value))
        if isinstance(a, ast.Assign) and isinstance(a.targets[0], ast.Attribute) and a.targets[0].attr == "fCO2":
            out.setdefault("<crop>.fCO2", set()).add(norm_anon(a.value))
        # the case splits that select between these expressions: atoms of the tests that mention the crop's WP or the concentration
        if isinstance(a, ast.If):
            atoms = a.test.values if isinstance(a.test, ast.BoolOp) else [a.test]
            for t in atoms:
                txt = norm_anon(t)
                if txt.startswith("(") and txt.endswith(")"):
                    txt = txt[1:-1]
                if "_.WP" in txt or ("CO2conc" in txt and not "constant_conc" in txt):
                    out.setdefault("<case splits>", set()).add(txt)
    return out


def co2_factor_agreement(chk, prog, rule: str):
    """the CO2 adjustment of the water productivity is computed for the first season by compute_variables and for every later season
    by reset_initial_conditions; a single-season run started at season k uses the former, the multi-season run the latter: the defining
    expressions of the weighting factor, the old and new coefficients, the shape factor, the crop-type factor and the final
    adjustment must be the same sets of expressions (object names anonymised)"""
    a = prog.find_func("compute_variables")
    b = prog.find_func("reset_initial_conditions")
    da, db = _defs_of(a.node, CO2_NAMES), _defs_of(b.node, CO2_NAMES)
    chk.fn(a.key); chk.fn(b.key)
    n = 0
    for nm in list(CO2_NAMES) + ["<crop>.fCO2", "<case splits>"]:
        xa, xb = da.get(nm, set()), db.get(nm, set())
        if not xa or not xb:
            raise AnalysisError(f"CO2 factor: {nm} is no longer defined in both compute_variables and reset_initial_conditions")
        n += 1
        construct = f"{nm}: first-season vs season-reset definitions"
        if xa == xb:
            chk.ok(rule, f"{b.module}:{b.qualname}", construct, f"{len(xa)} expression(s), identical")
        else:
            chk.violation(rule, f"{b.module}:{b.qualname}", construct,
                          f"the season reset computes {nm} as {sorted(xb - xa)} where the first-season initialisation has {sorted(xa - xb)}: season k of a "
                          "multi-season run gets a different CO2 adjustment than a single-season run started at its planting date", loc=b.loc())
    return n


def wt_in_soil_agreement(chk, prog, rule: str):
    """'the water table is inside the profile' is decided twice (initialisation, daily): both compare the depth with 0 and the compartment
    centres with the depth using the same operators (a table exactly at the surface, or exactly at a centre, is treated alike)"""
    import copy
    out = {}
    for fn in ("check_groundwater_table", "read_model_initial_conditions"):
        fi = prog.find_func(fn)
        flow = flow_of(fi)
        cfg = flow.cfg
        sets = [n for n in cfg.live_nodes() if isinstance(n.ast, ast.Assign) and not (isinstance(n.ast.value, ast.Constant) and n.ast.value.value in (False, None))
                and "in" in norm(n.ast.targets[0]).lower() and "soil" in norm(n.ast.targets[0]).lower()]
        if not sets:
            raise AnalysisError(f"{fn}: no assignment that can set 'water table in soil' to True")
        forms = set()
        for s_ in sets:
            for t, l in cfg.transitive_control_deps(s_.id):
                tn = cfg.nodes[t]
                if tn.kind == "test" and isinstance(tn.ast, ast.Compare) and any("gw" in ast.unparse(x).lower() for x in ast.walk(tn.ast) if isinstance(x, (ast.Name, ast.Attribute))):
                    forms.add(ast.unparse(_CanonFC().visit(copy.deepcopy(tn.ast))) + f" [{l}]")
        # the selection of centres at or below the table
        for x in ast.walk(fi.node):
            if isinstance(x, ast.Compare) and any("zmid" in ast.unparse(y).lower() for y in ast.walk(x.left) if isinstance(y, ast.Name)) \
                    and any("gw" in ast.unparse(y).lower() for y in ast.walk(x.comparators[0]) if isinstance(y, (ast.Name, ast.Attribute))):
                c = copy.deepcopy(x)
                txt = ast.unparse(c.left).lower()
                forms.add("centres " + type(x.ops[0]).__name__ + " table")
        out[fn] = forms
        chk.fn(fi.key)
    a, b = out["check_groundwater_table"], out["read_model_initial_conditions"]
    fa = prog.find_func("check_groundwater_table")
    construct = "'water table inside the profile': daily vs initialisation tests"
    # the emptiness test is spelled differently (len(...) == 0 vs idx.shape[0] == 0): compare the depth-vs-0 test and the centre selection
    key = lambda fs: sorted(f for f in fs if f.startswith("G ") or f.startswith("centres"))
    if key(a) == key(b) and key(a):
        chk.ok(rule, f"{fa.module}:{fa.qualname}", construct, "; ".join(key(a)))
    else:
        chk.violation(rule, f"{fa.module}:{fa.qualname}", construct, f"daily {key(a)} vs initialisation {key(b)}: a table exactly at the surface (or at a compartment "
                      "centre) is inside the profile for one and outside for the other - compartments below it are then not saturated", loc=fa.loc())


# --------------------------------------------------------------------------------------------- evaporation stage 1 / stage 2 extraction loops

def evap_stage_agreement(chk, prog, rule: str):
    """soil_evaporation extracts water compartment by compartment in two sibling loops (stage 1 from the readily evaporable layer, stage 2
    from the expanding evaporation layer). After renaming the stage potential and the layer depth, the bodies must consist of the same
    statements and tests - in particular the clamp `available water < 0 -> 0` for the compartment below the layer must be in both."""
    import copy
    se = prog.find_func("soil_evaporation")
    chk.fn(se.key)
    loops = [w for w in ast.walk(se.node) if isinstance(w, ast.While) and any(isinstance(x, ast.Name) and x.id == "AvW" for x in ast.walk(w))]
    if len(loops) != 2:
        raise AnalysisError(f"soil_evaporation: expected two compartment extraction loops, found {len(loops)}")
    shapes = []
    for w in loops:
        # the stage potential: the name compared with 0 in the loop test; the layer depth: the name compared with prof.dzsum[comp]
        pot = next((c.left.id for c in ast.walk(w.test) if isinstance(c, ast.Compare) and isinstance(c.left, ast.Name) and isinstance(c.comparators[0], ast.Constant)
                    and c.comparators[0].value == 0), None)
        depth = None
        for c in ast.walk(w):
            if isinstance(c, ast.Compare) and isinstance(c.left, ast.Subscript) and "dzsum" in ast.unparse(c.left) and isinstance(c.comparators[0], ast.Name):
                depth = c.comparators[0].id
        if pot is None or depth is None:
            raise AnalysisError("soil_evaporation: cannot identify the stage potential / layer depth of an extraction loop")
        class R(ast.NodeTransformer):
            def visit_Name(self, n):
                return ast.copy_location(ast.Name(id={pot: "POT", depth: "Z"}.get(n.id, n.id), ctx=n.ctx), n)
        items = []
        for st in ast.walk(w):
            if isinstance(st, ast.If):
                items.append("if " + ast.unparse(R().visit(copy.deepcopy(st.test))))
            elif isinstance(st, ast.Assign):
                items.append(ast.unparse(R().visit(copy.deepcopy(st))))
        shapes.append(sorted(items))
    a, b = shapes
    only1 = [x for x in a if x not in b]
    only2 = [x for x in b if x not in a]
    where = f"{se.module}:{se.qualname}"
    construct = "stage-1 vs stage-2 extraction loop bodies"
    if not only1 and not only2:
        chk.ok(rule, where, construct, f"{len(a)} statements / tests each, identical after renaming")
    else:
        chk.violation(rule, where, construct, f"the two extraction loops differ: only stage 1 has {only1}; only stage 2 has {only2} - e.g. without the clamp of negative "
                      "available water the compartment below the evaporation layer gains water every sub-step", loc=se.loc(loops[1]))



# --------------------------------------------------------------------------------------------- CO2 forcing

def co2_series_rules(chk, prog, rule_interp: str = None, rule_lookup: str = None):
    """(rule_interp) the yearly CO2 series is interpolated from the *whole* table the user supplied: the table handed to np.interp in
    compute_variables is not row-selected by anything derived from the clock (start / end date) - the concentration of year y is a function
    of y and the table, so extending the end date cannot change a completed season's forcing.
    (rule_lookup) the season reset reads the concentration of the season's year from that series by *label* (`.loc[<year of the clock's step
    start>]`), not by position (`.iloc[season_counter]`): positions and seasons differ whenever the simulation does not start in the first
    planting year; `.iloc[0]` is allowed only for a constant concentration."""
    cv = prog.find_func("compute_variables")
    rs = prog.find_func("reset_initial_conditions")
    if rule_interp:
        chk.fn(cv.key)
        where = f"{cv.module}:{cv.qualname}"
        # names derived from the clock
        clock = {p for p in cv.params if "clock" in p.lower()}
        tainted = set()
        changed = True
        while changed:
            changed = False
            for a in walk_no_nested(cv.node):
                if isinstance(a, ast.Assign):
                    dep = any((isinstance(x, ast.Name) and (x.id in clock or x.id in tainted)) for x in ast.walk(a.value))
                    if dep:
                        for t in a.targets:
                            for e in (t.elts if isinstance(t, ast.Tuple) else [t]):
                                if isinstance(e, ast.Name) and e.id not in tainted:
                                    tainted.add(e.id); changed = True
        calls = [c for c in walk_no_nested(cv.node) if isinstance(c, ast.Call) and norm(c.func) in ("np.interp", "numpy.interp") and len(c.args) >= 3]
        n = 0
        for c in calls:
            bases = {x.id for a in c.args[1:3] for x in ast.walk(a) if isinstance(x, ast.Name)}
            if not bases:
                continue
            n += 1
            construct = norm(c)[:90]
            bad = sorted(b for b in bases if b in tainted)
            # also a direct selection inside the argument
            direct = any(isinstance(x, ast.Name) and (x.id in tainted or x.id in clock) for a in c.args[1:3] for x in ast.walk(a) if isinstance(x, ast.Name) and x.id not in bases)
            if bad or direct:
                chk.violation(rule_interp, where, construct, f"the CO2 table that is interpolated ({', '.join(bad) or 'argument'}) depends on the simulation window: the "
                              "concentration of an already completed year changes when the end date is extended", loc=cv.loc(c))
            else:
                chk.ok(rule_interp, where, construct, "interpolated from the whole table; only the target years come from the clock")
        chk.floor(rule_interp, n, 1, "interpolations of the CO2 table")
    if rule_lookup:
        chk.fn(rs.key)
        where = f"{rs.module}:{rs.qualname}"
        from ..rdef import flow_of as _flow_of
        flow = _flow_of(rs)
        cfg = flow.cfg
        n = 0
        for x in walk_no_nested(rs.node):
            if not (isinstance(x, ast.Subscript) and isinstance(x.value, ast.Attribute) and x.value.attr in ("loc", "iloc") and isinstance(x.value.value, ast.Attribute)
                    and x.value.value.attr == "co2_data_processed"):
                continue
            n += 1
            construct = norm(x)
            nid = flow.node_of(x)
            deps = {(norm(cfg.nodes[t].ast), l) for t, l in cfg.transitive_control_deps(nid) if cfg.nodes[t].kind == "test"} if nid is not None else set()
            const_branch = any("constant_conc" in t and l is True for t, l in deps)
            if x.value.attr == "iloc":
                if const_branch and norm(x.slice) == "0":
                    chk.ok(rule_lookup, where, construct, "first value of the series, only for a constant concentration")
                else:
                    chk.violation(rule_lookup, where, construct, "the season's CO2 concentration is read from the yearly series by position: the series starts with the "
                                  "year of the simulation start, seasons with the first planting date on or after it", loc=rs.loc(x))
                continue
            # .loc[<name>]: the name is the year of the clock's step start
            good = False
            if isinstance(x.slice, ast.Name) and nid is not None:
                for d in flow.defs_reaching(x.slice.id, nid):
                    a = cfg.nodes[d].ast if d != ENTRY else None
                    if isinstance(a, ast.Assign) and "year" in norm(a.value) and any(isinstance(y, ast.Attribute) and y.attr in ("step_start_time", "planting_dates") for y in ast.walk(a.value)):
                        good = True
            if good:
                chk.ok(rule_lookup, where, construct, "by label: the year of the clock's step start")
            else:
                chk.violation(rule_lookup, where, construct, "the label used to read the season's CO2 concentration is not the year of the clock's step start", loc=rs.loc(x))
        chk.floor(rule_lookup, n, 2, "reads of the yearly CO2 series in the season reset")



# --------------------------------------------------------------------------------------------- np.interp needs ascending x

def interp_sorted(chk, prog, rule: str, only_func: str) -> int:
    """np.interp(x, xp, fp) silently returns nonsense when xp is not ascending. In `only_func` the xp of every np.interp call is ordered by
    construction: its definition chain (through order-preserving prepends / appends `np.append([c], X)`, `np.append(X, [c])`) ends in
    `Y[order]` with `order = np.argsort(Y...)` - and fp is permuted with the same `order` - or in a column of a frame whose reaching
    definition is `.sort_values("<that column>")` (fp a column of the same frame)."""
    fi = prog.find_func(only_func)
    flow = flow_of(fi)
    cfg = flow.cfg
    where = f"{fi.module}:{fi.qualname}"
    n = 0

    def sources(name, at, depth=0):
        """definitions a name bottoms out in, skipping order-preserving np.append wrappers: list of (ast value, node id)"""
        out = []
        for d in flow.defs_reaching(name, at):
            if d == ENTRY:
                out.append((None, d))
                continue
            a = cfg.nodes[d].ast
            v = a.value if isinstance(a, ast.Assign) else None
            if isinstance(v, ast.Call) and norm(v.func) in ("np.append", "numpy.append") and len(v.args) == 2 and depth < 6:
                inner = [x for x in v.args if isinstance(x, ast.Name) and x.id == name]
                if inner:
                    out += sources(name, d, depth + 1)
                    continue
            out.append((v, d))
        return out

    def pre_sort_endpoint_appends(name, at, depth=0):
        """np.append definitions of `name` reaching node `at` (the permutation) that add an element read at position 0 / -1"""
        out = []
        if depth > 6:
            return out
        for d in flow.defs_reaching(name, at):
            a = cfg.nodes[d].ast if d != ENTRY else None
            v = a.value if isinstance(a, ast.Assign) else None
            if isinstance(v, ast.Call) and norm(v.func) in ("np.append", "numpy.append", "np.concatenate", "np.insert", "np.hstack"):
                if any(isinstance(x, ast.Subscript) and isinstance(x.slice, (ast.Constant, ast.UnaryOp)) and norm(x.slice) in ("0", "-1") for x in ast.walk(v)):
                    out.append(norm(a)[:70])
                out += pre_sort_endpoint_appends(name, d, depth + 1)
        return out

    def perm_of(v, at):
        """('perm', base, order-name) for v = base[order] with order = argsort(base ...)"""
        if isinstance(v, ast.Subscript) and isinstance(v.value, ast.Name) and isinstance(v.slice, ast.Name):
            for d in flow.defs_reaching(v.slice.id, at):
                a = cfg.nodes[d].ast if d != ENTRY else None
                if isinstance(a, ast.Assign) and isinstance(a.value, ast.Call) and norm(a.value.func) in ("np.argsort", "numpy.argsort") and a.value.args:
                    return ("perm", v.value.id, v.slice.id, norm(a.value.args[0]))
        return None

    for c in walk_no_nested(fi.node):
        if not (isinstance(c, ast.Call) and norm(c.func) in ("np.interp", "numpy.interp") and len(c.args) >= 3):
            continue
        n += 1
        chk.fn(fi.key)
        nid = flow.node_of(c)
        xp, fp = c.args[1], c.args[2]
        construct = norm(c)[:80]
        ok, why = False, "xp is not ordered by construction"
        if isinstance(xp, ast.Name) and isinstance(fp, ast.Name):
            sx = sources(xp.id, nid)
            sf = sources(fp.id, nid)
            px = [perm_of(v, d) for v, d in sx]
            pf = [perm_of(v, d) for v, d in sf]
            if px and all(px) and all(p[3] == p[1] for p in px):
                # end points added BEFORE the sort from the first / last listed element belong to the wrong point once the points are permuted
                early = []
                for (v, d), p_ in list(zip(sx, px)) + list(zip(sf, pf if pf and all(pf) else [])):
                    early += pre_sort_endpoint_appends(p_[1], d)
                if early:
                    why = (f"an end point is added from the first / last *listed* element (`{early[0]}`) before the points are sorted: after the permutation it "
                           "belongs to another depth")
                elif pf and all(pf) and {p[2] for p in pf} == {p[2] for p in px}:
                    ok, why = True, f"xp = {px[0][1]}[{px[0][2]}] with {px[0][2]} = argsort({px[0][1]}); fp permuted with the same order"
                else:
                    why = "xp is sorted through an argsort but fp is not permuted with the same order: values no longer belong to their points"
        elif isinstance(xp, ast.Attribute) and isinstance(fp, ast.Attribute) and isinstance(xp.value, ast.Name) and isinstance(fp.value, ast.Name):
            if xp.value.id == fp.value.id:
                defs = [cfg.nodes[d].ast if d != ENTRY else None for d in flow.defs_reaching(xp.value.id, nid)]
                good = bool(defs)
                for a in defs:
                    v = a.value if isinstance(a, ast.Assign) else None
                    srt = isinstance(v, ast.Call) and isinstance(v.func, ast.Attribute) and v.func.attr == "sort_values" and (
                        (v.args and isinstance(v.args[0], ast.Constant) and v.args[0].value == xp.attr)
                        or any(k.arg == "by" and isinstance(k.value, ast.Constant) and k.value.value == xp.attr for k in v.keywords))
                    good = good and srt
                if good:
                    ok, why = True, f"both columns of `{xp.value.id}`, sorted by '{xp.attr}' on every reaching definition"
                else:
                    why = f"the frame `{xp.value.id}` is not sorted by '{xp.attr}' before the interpolation"
            else:
                why = "xp and fp are columns of different frames"
        if ok:
            chk.ok(rule, where, construct, why)
        else:
            chk.violation(rule, where, construct, why + ": np.interp requires ascending x values and returns nonsense silently otherwise (points given in another order are "
                          "valid input)", loc=fi.loc(c))
    return n


# --------------------------------------------------------------------------------------------- derived harvest-index parameters: first season vs reset

def derived_crop_params_agreement(chk, prog, rule: str) -> int:
    """the crop parameters that are derived from the season's calendar by a repository routine (`calculate_HIGC`, `calculate_HI_linear`) are
    computed for the first season by compute_variables and for every later season of a thermal-time crop by reset_initial_conditions: for each
    such attribute the two functions assign the same expressions (object names anonymised) under the same crop-type tests - a parameter the
    reset recomputes for some crop types only keeps the first season's value for the others."""
    from ..model import norm_anon
    a = prog.find_func("compute_variables")
    b = prog.find_func("reset_initial_conditions")
    chk.fn(a.key); chk.fn(b.key)

    def collect(fi):
        flow = flow_of(fi)
        cfg = flow.cfg
        out = {}
        derived = set()
        for st in walk_no_nested(fi.node):
            if not (isinstance(st, ast.Assign) and len(st.targets) == 1):
                continue
            t = st.targets[0]
            elts = t.elts if isinstance(t, ast.Tuple) else [t]
            if not all(isinstance(e, ast.Attribute) and isinstance(e.value, ast.Name) for e in elts):
                continue
            nid = flow.stmt_node.get(id(st))
            if nid is None:
                continue
            key = ",".join(e.attr for e in elts)
            guards = set()
            for tn, lab in cfg.transitive_control_deps(nid):
                c = cfg.nodes[tn].ast
                if cfg.nodes[tn].kind == "test" and any(isinstance(x, ast.Attribute) and x.attr == "CropType" for x in ast.walk(c)):
                    guards.add(f"{norm_anon(c)} [{lab}]")
            out.setdefault(key, set()).add((norm_anon(st.value), tuple(sorted(guards))))
            callee = prog.resolve_call(fi, st.value) if isinstance(st.value, ast.Call) else None
            if getattr(callee, "name", "").startswith("calculate_"):
                derived.add(key)
                # the fall-back constants of the same attributes (the `else` arm) belong to the comparison too
                for e in elts:
                    derived.add(e.attr)
        return out, derived

    oa, da = collect(a)
    ob, db = collect(b)
    keys = sorted(k for k in (da | db) if k in oa and k in ob)
    if not keys:
        raise AnalysisError("derived crop parameters: no attribute is computed by a calculate_* routine in both compute_variables and reset_initial_conditions")
    for k in keys:
        construct = f"<crop>.{k}: first-season vs season-reset definitions"
        if oa[k] == ob[k]:
            chk.ok(rule, f"{b.module}:{b.qualname}", construct, f"{len(oa[k])} definition(s), same expressions under the same crop-type tests")
        else:
            chk.violation(rule, f"{b.module}:{b.qualname}", construct,
                          f"the season reset defines {k} as {sorted(ob[k] - oa[k])} where the first-season initialisation has {sorted(oa[k] - ob[k])}: for the crop "
                          "types left out, season k of a multi-season run keeps the value derived from the first season's calendar and differs from a "
                          "single-season run started at its planting date", loc=b.loc())
    return len(keys)


def season_table_index(chk, prog, rule):
    """Per-season tables of the clock (planting_dates, harvest_dates) are read, while stepping, only at the season counter (or at the counter
    + 1 for the next planting date). An index that reads the number of seasons of the window, a constant, or counts from the end makes a
    season's calendar depend on another season's dates - and the last season's dates move when the end date is extended. Local names in the
    index are followed through their reaching definitions (plain assignments); an index that is a formal parameter is not decided."""
    import ast
    from ..model import norm, walk_no_nested
    from ..rdef import flow_of, ENTRY
    TABLES = ("planting_dates", "harvest_dates")
    n = 0
    for key in sorted(prog.funcs):
        fi = prog.funcs[key]
        if not fi.module.startswith(("aquacrop.timestep", "aquacrop.solution")):
            continue
        sites = [s for s in walk_no_nested(fi.node) if isinstance(s, ast.Subscript) and isinstance(s.ctx, ast.Load)
                 and isinstance(s.value, ast.Attribute) and s.value.attr in TABLES]
        if not sites:
            continue
        chk.fn(key)
        flow = flow_of(fi)
        where = f"{fi.module}:{fi.qualname}"

        def expand(e, at, seen):
            """-> (attribute names read, bad constructs, opaque names) of the index expression with locals replaced by their definitions"""
            attrs, bad, opaque = set(), [], set()
            for x in ast.walk(e):
                if isinstance(x, ast.Attribute):
                    attrs.add(x.attr)
                elif isinstance(x, ast.UnaryOp) and isinstance(x.op, ast.USub):
                    bad.append(norm(x))
                elif isinstance(x, ast.BinOp) and not isinstance(x.op, ast.Add):
                    bad.append(norm(x))
                elif isinstance(x, ast.Constant) and x.value not in (1,):
                    bad.append(norm(x))
                elif isinstance(x, (ast.Call, ast.Subscript, ast.IfExp)):
                    bad.append(norm(x))
                elif isinstance(x, ast.Name):
                    defs = flow.defs_reaching(x.id, at) if at is not None else {ENTRY}
                    for d in defs:
                        if d == ENTRY:
                            opaque.add(x.id)
                            continue
                        if (x.id, d) in seen:
                            continue
                        seen.add((x.id, d))
                        a = flow.cfg.nodes[d].ast
                        if isinstance(a, ast.Assign) and len(a.targets) == 1 and isinstance(a.targets[0], ast.Name):
                            a2, b2, o2 = expand(a.value, d, seen)
                            attrs |= a2; bad += b2; opaque |= o2
                        else:
                            bad.append(f"{x.id} defined by `{norm(a)[:40]}`")
            return attrs, bad, opaque

        for s in sites:
            n += 1
            construct = norm(s)[:100]
            at = flow.node_of(s)
            attrs, bad, opaque = expand(s.slice, at, set())
            if "n_seasons" in attrs or bad or (not opaque and "season_counter" not in attrs) or (attrs - {"season_counter", "n_seasons"} and not opaque and "season_counter" not in attrs):
                why = ("the index reads the number of seasons of the window" if "n_seasons" in attrs else
                       f"the index is not the season counter ({', '.join(bad) or 'no read of season_counter'})")
                chk.violation(rule, where, construct, why + ": a season's calendar is taken from another season's dates - from the last one's, "
                              "which move when the end date is extended", loc=fi.loc(s))
            elif opaque and "season_counter" not in attrs:
                chk.ok(rule, where, construct, f"index is the formal {sorted(opaque)} - not decided", nontrivial=False)
            else:
                chk.ok(rule, where, construct, "indexed by the season counter (or counter + 1)")
    # 6 on today's tree; the season reset's read may legitimately go (the corpus twin that slices the weather at the time-step counter)
    chk.floor(rule, n, 5, "reads of the per-season date tables while stepping")
