"""C12 - configured parameters and weather stay read-only while stepping.

Rule C12.a (effect / who-may-write): in every function reachable from
AquaCropModel._perform_timestep, no store (attribute rebind, element/slice store, augmented
assignment, mutating method, setattr) goes through an access path rooted at the soil, the
management structures, the groundwater series, the weather matrix, the calendar tables, or
the user's crop object.  Exemptions are an explicit table (one symbol each).
"""
from __future__ import annotations
import re
from ..common import step_roles, STEP_ROOT
from ..effects import stores
from ..model import norm

EXPLANATION = ("C12.a who-may-write: every store (attribute, subscript, augmented, mutating method, setattr) in the "
               "44 functions reachable from _perform_timestep is resolved to the access paths it may write "
               "(flow-sensitive alias/role propagation from the model object's fields, numpy view-vs-copy table); "
               "a store reaching the soil, management, groundwater, weather, calendar or user-crop objects is a "
               "violation unless it is in the explicit exemption table. C12.b: the one object that table lets the step rewrite outside a season start (the filler crop used "
               "before the first season) is bound at initialisation only to a freshly constructed object or a copy - never to an object "
               "shared with a season's crop, the user's crop or another configured structure. C12.g (= C06.d pairing; a season's crop "
               "parameters change only at that season's start): the season reset, which rewrites Seasonal_Crop_List[season_counter], is "
               "called only right after the counter has been advanced to the starting season (dominating increment in the same block, locals resolved). "
               "Decided for all inputs; does not depend on run-time values.")

PROTECTED = ("PARAM.Soil", "PARAM.IrrMngt", "PARAM.FallowIrrMngt", "PARAM.FieldMngt", "PARAM.FallowFieldMngt",
             "PARAM.z_gw", "PARAM.zGW_dates", "PARAM.water_table", "PARAM.WTMethod", "PARAM.CropChoices",
             "PARAM.CropList", "PARAM.NCrops", "PARAM.Seasonal_Crop_List", "PARAM.Fallow_Crop", "PARAM.CO2",
             "WEATHER", "USER.", "CLOCK.time_span", "CLOCK.planting_dates", "CLOCK.harvest_dates",
             "CLOCK.simulation_start_date", "CLOCK.simulation_end_date", "CLOCK.n_seasons", "CLOCK.n_steps",
             "CLOCK.sim_off_season", "CLOCK.evap_time_steps")

# (function qualname, regex on path, reason)
ALLOWED = [
    ("reset_initial_conditions", r"^PARAM\.Seasonal_Crop_List\[\](\.\w+)?$",
     "a season's crop parameters change only at that season's start (thermal calendar, CO2 factor): the statement of C12 allows it"),
    ("reset_initial_conditions", r"^PARAM\.CO2\.current_concentration$",
     "CO2 concentration of the starting season, part of the same season-start update"),
    ("solution_single_time_step", r"^PARAM\.Fallow_Crop\.(Aer|Zmin)$",
     "filler crop used before the first season; constant literal rewrites (checked to be literals)"),
]


# objects the exemptions let the daily solution write (C12.b checks they are private)
STEP_WRITABLE_OBJECTS = ["PARAM.Fallow_Crop"]


def protected(path: str) -> bool:
    return any(path == p or path.startswith(p + ".") or path.startswith(p + "[") or (p.endswith(".") and path.startswith(p))
               for p in PROTECTED)


def run(chk, prog, tier):
    # C12.g (a season's crop parameters change only at that season's start): shared with C06.d
    from .c06 import reset_paired_with_counter
    reset_paired_with_counter(chk, prog, "C12.g")
    roles = step_roles(prog)
    nstores = 0
    allowed_used = set()
    for key in sorted(roles.reached):
        fi = prog.funcs[key]
        chk.fn(key)
        for st in stores(prog, fi, roles):
            nstores += 1
            hit = sorted(p for p in st.paths if protected(p))
            where = f"{fi.module}:{fi.qualname}"
            if not hit:
                chk.ok("C12.a", where, st.text, "writes " + (", ".join(sorted(st.paths)) or "a fresh local object"),
                       nontrivial=bool(st.paths))
                continue
            bad = []
            for p in hit:
                ok = False
                for i, (fn, rx, why) in enumerate(ALLOWED):
                    if fi.qualname == fn and re.match(rx, p):
                        if fn == "solution_single_time_step":
                            import ast
                            v = getattr(st.node, "value", None)
                            if not isinstance(v, ast.Constant):
                                continue
                        ok = True
                        allowed_used.add(i)
                        break
                if not ok:
                    bad.append(p)
            if bad:
                chk.violation("C12.a", where, st.text,
                              f"{st.kind} store writes configured/read-only data through {', '.join(bad)}",
                              loc=fi.loc(st.node))
            else:
                chk.ok("C12.a", where, st.text, "exempt: " + ", ".join(hit))
    chk.floor("C12.a", nstores, 330, "stores classified below _perform_timestep")
    chk.floor("C12.a-functions", len(roles.reached), 40, "functions reachable from _perform_timestep")
    for i, (fn, rx, why) in enumerate(ALLOWED):
        if i not in allowed_used:
            chk.notes.setdefault("stale_exemptions", []).append(f"{fn} {rx}")
    chk.notes["exemptions"] = [f"{fn}: {rx} -- {why}" for fn, rx, why in ALLOWED]
    rule_b(chk, prog)
    chk.assume("A-10")
    chk.exhaustive = True


def rule_b(chk, prog):
    """the objects the exemption table lets the step write outside a season start (the filler crop used before the first season)
    are private: at initialisation they are bound only to freshly constructed objects or copies, never to an object that is also
    reachable as a season's crop, the user's crop or any other configured structure"""
    import ast
    from ..common import init_roles
    targets = list(STEP_WRITABLE_OBJECTS)
    for fn, rx, _ in ALLOWED:
        if fn == "solution_single_time_step" and not any(rx.strip("^").replace("\\.", ".").startswith(t) for t in targets):
            chk.error(f"C12.b: exemption {rx} has no entry in STEP_WRITABLE_OBJECTS")
    ir = init_roles(prog)
    n = 0
    for key in sorted(ir.reached):
        fi = prog.funcs[key]
        for st in stores(prog, fi, ir):
            hit = [p for p in st.paths if p in targets]
            if not hit or st.kind != "attr":
                continue
            v = getattr(st.node, "value", None)
            if v is None or (isinstance(v, ast.Constant)):
                continue        # placeholder literal in a constructor
            n += 1
            where = f"{fi.module}:{fi.qualname}"
            rhs = sorted(ir.paths(fi, v))
            is_copy = isinstance(v, ast.Call) and (getattr(v.func, "id", None) or getattr(v.func, "attr", None)) in ("deepcopy", "copy")
            shared = [p for p in rhs if not p.startswith("NEW.")]
            if is_copy or not shared:
                chk.ok("C12.b", where, st.text, "bound to a private object (" + (", ".join(rhs) or "copy") + ")")
            else:
                chk.violation("C12.b", where, st.text,
                              f"{hit[0]} - which the step rewrites on every day before the first season - is bound to an object shared with "
                              f"{', '.join(shared)}: those parameters then change while stepping", loc=fi.loc(st.node))
    chk.floor("C12.b", n, 1, "initialisation-time bindings of the step-writable filler crop")
