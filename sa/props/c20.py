"""C20 - disabled features and neutral settings are inert."""
from __future__ import annotations
import ast
import re
from typing import Dict, List, Optional, Set, Tuple

from .. import affine as A
from ..symb import Sym
from ..cp import batch, is_zero, step_local
from ..common import step_roles, init_roles, STEP_FN
from ..effects import stores
from ..model import norm, walk_no_nested, FuncInfo, AnalysisError
from ..rdef import flow_of, ENTRY

EXPLANATION = (
    "C20.a (switch guards, control dependence incl. short-circuit position, followed through formals): every read of a "
    "feature parameter - mulch factor / cover -> mulches; bund height / initial bund water -> bunds; curve-number "
    "percentage -> curve_number_adj; SMT -> method 1; IrrInterval -> 2; Schedule -> 3; NetIrrSMT -> 4; depth -> 5; "
    "wetted surface -> irrigation applied and method != 4 - in the functions reachable from stepping and "
    "initialisation is either passed on unchanged as an argument (then checked in the callee) or control dependent on a "
    "test of its switch; application efficiency may additionally appear as a factor of the irrigation depth. C20.b "
    "(neutral values): polynomial normal forms with the parameter fixed at its neutral value show mulch factor 0 or "
    "mulch cover 0 give EsPotMul == EsPot - and the potential evaporation finally returned has the same normal form as with mulches off, so the switch does not change how the mulch and partial-wetting adjustments are combined - and Irr = 0 removes the efficiency term from infiltration; interprocedural "
    "constant propagation shows depth = 0 (method 5), MaxIrr = 0 and - with the seasonal counter >= 0, A-19 - a seasonal maximum of 0 "
    "give Irr == 0 for every strategy that applies water. C20.c (stated default): the block "
    "executed only when the harvest date is unset passes no user-owned object to a callee that writes it - the default "
    "harvest date is derived without changing what a run with the date stated explicitly would see. NOT decided: empty "
    "schedule, numerical identity of the runs.")

# parameter attribute -> (kind of switch, switch attribute / value)
FEATURES = {
    "f_mulch": ("flag", "mulches"), "mulch_pct": ("flag", "mulches"),
    "z_bund": ("flag", "bunds"), "bund_water": ("flag", "bunds"),
    "curve_number_adj_pct": ("flag", "curve_number_adj"),
    "SMT": ("method", 1), "IrrInterval": ("method", 2), "Schedule": ("method", 3), "NetIrrSMT": ("method", 4), "depth": ("method", 5),
    "WetSurf": ("irr", None), "AppEff": ("irr", None),
}
MGMT = re.compile(r"^PARAM\.(FieldMngt|FallowFieldMngt|IrrMngt|FallowIrrMngt)\.(\w+)$")


class Guards:
    def __init__(self, prog, roles_list):
        self.prog = prog
        self.roles_list = roles_list

    def paths(self, fi, e) -> Set[str]:
        out = set()
        for r in self.roles_list:
            if fi.key in r.reached:
                out |= r.paths(fi, e)
        return out

    def attr_of(self, fi, e) -> Optional[str]:
        """management attribute an expression denotes (through formals / locals), if unique"""
        ps = self.paths(fi, e)
        attrs = set()
        for p in ps:
            m = MGMT.match(p)
            if not m:
                return None
            attrs.add(m.group(2))
        return attrs.pop() if len(attrs) == 1 else None

    def mentions_switch(self, fi, test: ast.AST, kind: str, sw) -> bool:
        for sub in ast.walk(test):
            if isinstance(sub, (ast.Name, ast.Attribute)):
                a = self.attr_of(fi, sub)
                if kind == "flag" and a == sw:
                    return True
                if kind == "method" and a == "irrigation_method":
                    return True
                if kind == "irr":
                    if a == "irrigation_method":
                        return True
                    if isinstance(sub, ast.Name) and sub.id in ("Irr", "IrrReq") or (isinstance(sub, ast.Name) and re.fullmatch(r"Irr\w*", sub.id) and sub.id != "IrrMngt"):
                        return True
        return False

    def method_ok(self, fi, test: ast.AST, label, k: int) -> bool:
        """test `method == k` with outcome True (or `method != k` False)"""
        if isinstance(test, ast.Compare) and len(test.ops) == 1 and isinstance(test.comparators[0], ast.Constant):
            a = self.attr_of(fi, test.left)
            if a == "irrigation_method" and test.comparators[0].value == k:
                if isinstance(test.ops[0], ast.Eq) and label is True:
                    return True
                if isinstance(test.ops[0], ast.NotEq) and label is False:
                    return True
        return False


def rule_a(chk, prog):
    roles_list = [step_roles(prog), init_roles(prog)]
    g = Guards(prog, roles_list)
    reached = set()
    for r in roles_list:
        reached |= r.reached
    # formals that receive a feature parameter *directly* (attribute load or such a formal handed on);
    # a formal fed from a local has been checked (and possibly neutralised) where that local was defined
    qual: Set[Tuple[str, str]] = set()
    changed = True
    while changed:
        changed = False
        for key in sorted(reached):
            fi = prog.funcs.get(key)
            if fi is None:
                continue
            for c, t in prog.calls_in(fi):
                if not isinstance(t, FuncInfo):
                    continue
                pos = t.params[1:] if (t.cls and t.params and t.params[0] in ("self", "cls")) else t.params
                pairs = [(pos[i], a) for i, a in enumerate(c.args) if i < len(pos)] + [(k.arg, k.value) for k in c.keywords if k.arg]
                for formal, a in pairs:
                    direct = isinstance(a, ast.Attribute) and g.attr_of(fi, a) in FEATURES
                    handed = isinstance(a, ast.Name) and (fi.key, a.id) in qual
                    if (direct or handed) and (t.key, formal) not in qual:
                        qual.add((t.key, formal))
                        changed = True
    n_reads = 0
    per_feature: Dict[str, int] = {}
    for key in sorted(reached):
        fi = prog.funcs.get(key)
        if fi is None or fi.cls in ("FieldMngt", "IrrigationManagement", "FieldMngtStruct", "IrrMngtStruct"):
            continue
        flow = flow_of(fi)
        cfg = flow.cfg
        where = f"{fi.module}:{fi.qualname}"
        # call-argument positions (pure pass-through)
        passed = set()
        for c in walk_no_nested(fi.node):
            if isinstance(c, ast.Call) and prog.resolve_call(fi, c) is not None:
                for a in list(c.args) + [k.value for k in c.keywords]:
                    passed.add(id(a))
        for n in walk_no_nested(fi.node):
            if not isinstance(n, (ast.Name, ast.Attribute)) or not isinstance(n.ctx, ast.Load):
                continue
            if isinstance(n, ast.Name) and (n.id not in fi.params or (fi.key, n.id) not in qual):
                # a local, or a formal fed from a caller's local: the defining read has been checked where the
                # attribute was loaded
                continue
            attr = g.attr_of(fi, n)
            if attr not in FEATURES:
                continue
            if id(n) in passed:
                continue            # handed on unchanged; the callee's reads are checked
            nid = flow.node_of(n)
            if nid is None:
                continue
            kind, sw = FEATURES[attr]
            n_reads += 1
            per_feature[attr] = per_feature.get(attr, 0) + 1
            chk.fn(key)
            # edges on which the switch is known to be ON; the read must not be reachable without passing one
            on_edges = set()
            for tn in cfg.live_nodes():
                if tn.kind != "test":
                    continue
                if kind == "method":
                    for lab in (True, False):
                        if g.method_ok(fi, tn.ast, lab, sw):
                            on_edges.add((tn.id, lab))
                elif kind == "flag":
                    t_ = tn.ast
                    if isinstance(t_, (ast.Name, ast.Attribute)) and g.attr_of(fi, t_) == sw:
                        on_edges.add((tn.id, True))
                    elif isinstance(t_, ast.Compare) and len(t_.ops) == 1 and g.attr_of(fi, t_.left) == sw and isinstance(t_.comparators[0], ast.Constant):
                        val, op = t_.comparators[0].value, t_.ops[0]
                        if isinstance(op, (ast.Eq, ast.Is)):
                            on_edges.add((tn.id, bool(val)))
                        elif isinstance(op, (ast.NotEq, ast.IsNot)):
                            on_edges.add((tn.id, not bool(val)))
                else:   # irrigation applied
                    if g.mentions_switch(fi, tn.ast, kind, sw):
                        on_edges.add((tn.id, True))
                        on_edges.add((tn.id, False))
            own = cfg.nodes[nid]
            ok = bool(on_edges) and not cfg.reachable_without_edges(nid, on_edges)
            why = "every path to the read passes a test that establishes the switch" if ok else ""
            if not ok and isinstance(n, ast.Name) and n.id in fi.params:
                # a formal of a helper: guarded if EVERY call of the helper is made under the switch in its caller
                sites = []
                for ck in sorted(reached):
                    cf = prog.funcs.get(ck)
                    if cf is None:
                        continue
                    for call, tgt in prog.calls_in(cf):
                        if getattr(tgt, "key", None) == fi.key:
                            sites.append((cf, call))
                def guarded_in(cf, call):
                    cflow = flow_of(cf)
                    ccfg = cflow.cfg
                    cn = cflow.node_of(call)
                    if cn is None:
                        return False
                    edges = set()
                    for tn in ccfg.live_nodes():
                        if tn.kind != "test":
                            continue
                        if kind == "method":
                            for lab in (True, False):
                                if g.method_ok(cf, tn.ast, lab, sw):
                                    edges.add((tn.id, lab))
                        elif kind == "flag":
                            t_ = tn.ast
                            if isinstance(t_, (ast.Name, ast.Attribute)) and g.attr_of(cf, t_) == sw:
                                edges.add((tn.id, True))
                    return bool(edges) and not ccfg.reachable_without_edges(cn, edges)
                if sites and all(guarded_in(cf, call) for cf, call in sites):
                    ok, why = True, f"formal of a helper all of whose {len(sites)} call(s) are made under the switch in the caller"
            # the read may itself be the second operand of the guarding condition (short-circuit): covered by the edges
            if not ok and attr == "AppEff":
                # factor of the irrigation depth: Irr * (AppEff / 100)
                st = own.ast
                for sub in ast.walk(st) if st is not None else []:
                    if isinstance(sub, ast.BinOp) and isinstance(sub.op, ast.Mult):
                        names = {x.id for x in ast.walk(sub) if isinstance(x, ast.Name)}
                        if n in list(ast.walk(sub)) and any(re.fullmatch(r"Irr\w*", x) and x != n.id for x in names):
                            ok, why = True, "factor of the irrigation depth (0 without irrigation)"
            construct = f"{attr} read in `{norm(own.ast)[:70]}`"
            if ok:
                chk.ok("C20.a", where, construct, why)
            else:
                swtxt = f"irrigation_method == {sw}" if kind == "method" else (sw or "irrigation applied")
                chk.violation("C20.a", where, construct,
                              f"parameter {attr} of a switchable feature is read without a test of its switch ({swtxt}): it has an effect "
                              "while the feature is off", loc=fi.loc(n))
    chk.floor("C20.a", n_reads, 25, "guard-relevant reads of feature parameters")
    for attr in FEATURES:
        if per_feature.get(attr, 0) == 0:
            chk.error(f"C20.a: no read of feature parameter {attr} found (anchor vanished)")
    chk.notes["reads_per_feature"] = per_feature


def rule_b(chk, prog):
    # mulch neutral values
    se = prog.find_func("soil_evaporation")
    chk.fn(se.key)
    step = prog.func(STEP_FN)
    call = [c for c, t in prog.calls_in(step) if getattr(t, "key", None) == se.key][0]
    fm = {a.attr: se.params[i] for i, a in enumerate(call.args) if isinstance(a, ast.Attribute)}
    f_mul, f_fm, f_pct = fm.get("mulches"), fm.get("f_mulch"), fm.get("mulch_pct")
    if not (f_mul and f_fm and f_pct):
        raise AnalysisError("soil_evaporation no longer receives the mulch settings")
    where = f"{se.module}:{se.qualname}"
    for label, consts in ((f"{f_fm} = 0", {f_fm: 0}), (f"{f_pct} = 0", {f_pct: 0})):
        sym = Sym(prog, se, consts={f_mul: True, **consts})
        # the assignment under the mulch branch
        hits = 0
        for n in sym.cfg.live_nodes():
            a = n.ast
            if isinstance(a, ast.Assign) and isinstance(a.targets[0], ast.Name) and n.id in sym.state_in \
                    and any(isinstance(x, ast.Name) and x.id == f_fm for x in ast.walk(a.value)):
                hits += 1
                st = sym.state_in[n.id]
                got = sym.nf(a.value, st)
                # the un-mulched potential evaporation: the other factor of the product
                base = [x for x in ast.walk(a.value) if isinstance(x, ast.Name) and x.id not in (f_fm, f_pct)]
                want = sym.nf(base[0], st) if base else None
                construct = f"{norm(a)} | mulches on, {label}"
                if want is not None and A.equal(got, want):
                    chk.ok("C20.b", where, construct, f"reduces to {norm(base[0])}")
                else:
                    chk.violation("C20.b", where, construct, f"with the neutral value the mulched potential evaporation is {A.text(got)[:100]}", loc=se.loc(a))
        if hits != 1:
            chk.error(f"C20.b: expected one mulch adjustment statement, found {hits}")
        # ... and the potential evaporation the function finally returns equals the one it returns with mulches off (same normal form):
        # how the mulched value is combined with the partial-wetting adjustment must not depend on the switch
        rets = [r for r in walk_no_nested(se.node) if isinstance(r, ast.Return) and isinstance(r.value, ast.Tuple)]
        from ..cp import step_local
        tg = [n.targets[0].elts for n in walk_no_nested(step.node) if isinstance(n, ast.Assign) and n.value is call and isinstance(n.targets[0], ast.Tuple)][0]
        L_pot = step_local(prog, "col:EsPot")
        pos = next(i for i, t in enumerate(tg) if isinstance(t, ast.Name) and t.id == L_pot)
        off = Sym(prog, se, consts={f_mul: False})
        import re as _re
        def canon(poly):
            # join / loop atoms carry node numbers; compare modulo them
            return _re.sub(r"@(join|loop)\d+~\d+", "@j", A.text(poly))
        for (n1, st1), (n2, st2) in zip(sym.at_return(), off.at_return()):
            v_on, v_off = sym.nf(rets[0].value.elts[pos], st1), off.nf(rets[0].value.elts[pos], st2)
            construct = f"returned potential evaporation | mulches on, {label} vs mulches off"
            if A.equal(v_on, v_off) or canon(v_on) == canon(v_off):
                chk.ok("C20.b", where, construct, f"same normal form: {A.text(v_on)[:80]}")
            else:
                chk.violation("C20.b", where, construct, f"with the neutral mulch setting the function returns {A.text(v_on)[:90]} but with mulches off "
                              f"{A.text(v_off)[:90]}: the switch itself changes how the adjustments are combined", loc=se.loc(n1.ast))
    # Irr = 0 removes the efficiency term
    inf = prog.find_func("infiltration")
    chk.fn(inf.key)
    icall = [c for c, t in prog.calls_in(step) if getattr(t, "key", None) == inf.key][0]
    f_irr = next((inf.params[i] for i, a in enumerate(icall.args) if isinstance(a, ast.Name) and a.id == step_local(prog, "irr")), None)
    f_eff = next((inf.params[i] for i, a in enumerate(icall.args) if isinstance(a, ast.Attribute) and a.attr == "AppEff"), None)
    f_gs = next((inf.params[i] for i, a in enumerate(icall.args) if isinstance(a, ast.Name) and a.id == "growing_season"), None)
    if not (f_irr and f_eff and f_gs):
        raise AnalysisError("infiltration no longer receives Irr / AppEff / growing_season")
    sym = Sym(prog, inf, consts={f_gs: True, f_irr: 0})
    ret = [r for r in walk_no_nested(inf.node) if isinstance(r, ast.Return)][0]
    for n, st in sym.at_return():
        atoms = set()
        for e in ret.value.elts:
            for m in sym.nf(e, st):
                atoms |= {a for a, _ in m}
        construct = f"returns of infiltration | {f_irr} = 0"
        if not any(f_eff in a for a in atoms):
            chk.ok("C20.b", f"{inf.module}:{inf.qualname}", construct, "no result depends on the application efficiency")
        else:
            chk.violation("C20.b", f"{inf.module}:{inf.qualname}", construct, "the application efficiency has an effect although nothing is applied", loc=inf.loc(n.ast))
    # depth 0 / MaxIrr 0 -> Irr == 0 (constant propagation)
    cfgs = [{"IrrMngt.irrigation_method": 5, "IrrMngt.depth": 0}] + [{"IrrMngt.irrigation_method": m, "IrrMngt.MaxIrr": 0} for m in (1, 2, 3, 5)]
    # seasonal maximum 0 behaves as rainfed: with the seasonal counter >= 0 (A-19: it starts at 0 and only grows by applied depths >= 0,
    # C04.b / C06.c) the cap leaves nothing to apply on either branch of its test
    from ..absint import Sgn
    step_state = prog.func(STEP_FN).params[0]
    cfgs += [{"IrrMngt.irrigation_method": m, "IrrMngt.MaxIrrSeason": 0, f"{step_state}.irr_cum": Sgn("+")} for m in (1, 2, 3, 5)]
    chk.assume("A-19")
    irr_name = step_local(prog, "irr")
    for r in batch(prog, cfgs, want_locals=[irr_name]):
        label = ", ".join(f"{k.split('.')[1]}={v if not hasattr(v, 's') else '>=0'}" for k, v in r.config.items())
        chk.valuation(label)
        for l in r.locals[True]:
            v = l[irr_name]
            construct = f"Irr | {label}"
            if is_zero(v):
                chk.ok("C20.b", STEP_FN, construct, "constant 0")
            else:
                chk.violation("C20.b", STEP_FN, construct, f"irrigation depth is {v}, not 0, at the neutral setting", loc=step.loc())


def _writes_formal(prog, fi: FuncInfo, formal: str, depth=0, seen=None) -> Optional[str]:
    """does the function (or a callee it hands the formal to) store attributes / elements of the formal?"""
    seen = seen or set()
    if (fi.key, formal) in seen or depth > 4:
        return None
    seen.add((fi.key, formal))
    flow = flow_of(fi)
    for s in stores(prog, fi, None):
        base = s.target
        while isinstance(base, (ast.Attribute, ast.Subscript)):
            base = base.value
        if isinstance(base, ast.Name) and base.id == formal and s.kind in ("attr", "elem", "aug", "mutcall"):
            nid = flow.stmt_node.get(id(s.node)) or flow.node_of(s.node)
            if nid is None or ENTRY in flow.defs_reaching(formal, nid):
                return f"{fi.qualname}: {s.text[:60]}"
    for c, t in prog.calls_in(fi):
        if isinstance(t, FuncInfo):
            pos = t.params[1:] if (t.cls and t.params and t.params[0] in ("self", "cls")) else t.params
            for i, a in enumerate(c.args):
                if isinstance(a, ast.Name) and a.id == formal and i < len(pos):
                    nid = flow.node_of(a)
                    if nid is not None and ENTRY in flow.defs_reaching(formal, nid):
                        w = _writes_formal(prog, t, pos[i], depth + 1, seen)
                        if w:
                            return w
    return None


def rule_c(chk, prog):
    rmp = prog.find_func("read_model_parameters")
    chk.fn(rmp.key)
    flow = flow_of(rmp)
    roles = init_roles(prog)
    where = f"{rmp.module}:{rmp.qualname}"
    guard = [n for n in flow.cfg.live_nodes() if n.kind == "test" and norm(n.ast).endswith(".harvest_date is None")]
    if len(guard) != 1:
        raise AnalysisError("read_model_parameters: the `harvest_date is None` guard vanished")
    gid = guard[0].id
    n_calls = 0
    for c, t in prog.calls_in(rmp):
        nid = flow.node_of(c)
        if nid is None or (gid, True) not in flow.cfg.transitive_control_deps(nid):
            continue
        if not isinstance(t, FuncInfo):
            continue
        n_calls += 1
        any_ref = False
        for i, a in enumerate(c.args):
            # an object handed over by reference (a name / attribute, not a fresh copy such as deepcopy(x))
            if not isinstance(a, (ast.Name, ast.Attribute)) or i >= len(t.params):
                continue
            w = _writes_formal(prog, t, t.params[i])
            construct = f"{t.qualname}({norm(a)}, ...) under `harvest_date is None`"
            if w:
                any_ref = True
                chk.violation("C20.c", where, construct,
                              f"executed only when the harvest date is unset, and it modifies the object `{norm(a)}` that the rest of the "
                              f"initialisation goes on to use ({w}): leaving the default unset changes what a run with the date stated sees",
                              loc=rmp.loc(c))
        if not any_ref:
            chk.ok("C20.c", where, f"{t.qualname}(...) under `harvest_date is None`", "writes no object handed over by reference (works on a copy)")
    chk.floor("C20.c", n_calls, 1, "calls executed only when the harvest date is unset")
    # the only field written directly in the block is the harvest date itself
    for s_ in stores(prog, rmp, roles):
        nid = flow.stmt_node.get(id(s_.node))
        if nid is None or (gid, True) not in flow.cfg.transitive_control_deps(nid):
            continue
        if s_.kind == "attr":
            if s_.field == "harvest_date":
                chk.ok("C20.c", where, s_.text, "materialises the default into the field that was None")
            else:
                chk.violation("C20.c", where, s_.text, f"the default-materialising block writes .{s_.field}", loc=rmp.loc(s_.node))


def rule_d(chk, prog):
    """C20.d (a neutral value stays the value the user gave): the loops that copy the user's management objects onto the model's own structures
    (`for a, v in obj.__dict__.items(): if hasattr(struct, a): struct.__setattr__(a, v)`) store the loop's value variable itself - not an
    expression of it. `v or default` turns every option given as 0 (daily / seasonal maximum 0, efficiency 0, depth 0) into the default."""
    from ..common import INIT_ROOT
    from ..model import walk_no_nested
    n = 0
    for key in sorted(prog.reachable_from(INIT_ROOT)):
        fi = prog.funcs.get(key)
        if fi is None:
            continue
        for lp in walk_no_nested(fi.node):
            if not (isinstance(lp, ast.For) and isinstance(lp.target, ast.Tuple) and len(lp.target.elts) == 2 and all(isinstance(e, ast.Name) for e in lp.target.elts)
                    and isinstance(lp.iter, ast.Call) and isinstance(lp.iter.func, ast.Attribute) and lp.iter.func.attr == "items"
                    and isinstance(lp.iter.func.value, ast.Attribute) and lp.iter.func.value.attr == "__dict__"):
                continue
            kname, vname = lp.target.elts[0].id, lp.target.elts[1].id
            where = f"{fi.module}:{fi.qualname}"
            for c in ast.walk(lp):
                val = None
                if isinstance(c, ast.Call) and isinstance(c.func, ast.Attribute) and c.func.attr == "__setattr__" and len(c.args) == 2 \
                        and isinstance(c.args[0], ast.Name) and c.args[0].id == kname:
                    val = c.args[1]
                elif isinstance(c, ast.Call) and isinstance(c.func, ast.Name) and c.func.id == "setattr" and len(c.args) == 3 \
                        and isinstance(c.args[1], ast.Name) and c.args[1].id == kname:
                    val = c.args[2]
                if val is None:
                    continue
                n += 1
                chk.fn(key)
                construct = f"for {kname}, {vname} in {norm(lp.iter)}: {norm(c)}"
                if isinstance(val, ast.Name) and val.id == vname:
                    chk.ok("C20.d", where, construct, "the user's value is copied as given")
                else:
                    chk.violation("C20.d", where, construct, f"the structure receives `{norm(val)}`, not the user's value `{vname}`: an option set to a neutral value (0) is "
                                  "replaced - a daily or seasonal irrigation maximum of 0 no longer switches irrigation off", loc=fi.loc(c))
    chk.floor("C20.d", n, 3, "attribute-copy loops from user objects onto model structures")


def run(chk, prog, tier):
    rule_a(chk, prog)
    rule_b(chk, prog)
    rule_c(chk, prog)
    rule_d(chk, prog)
    chk.assume("A-1")
    chk.exhaustive = True
