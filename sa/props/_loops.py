"""Loop variants (T-LOOP): every `while` loop of the package has a reason to stop that is visible in its shape.

The model's outer loop is proved to make progress by C07.b; any inner loop that can spin for ever hangs the run just the same (the
property's "the run always terminates" / "terminates without raising").  Each `while` is classified, by structure, into one of

  counter      a conjunct of the test compares a local with a loop-invariant bound (`i < n`, `i >= 0`, `i > -1`, `z < zmax`), and on EVERY
               cycle back to the loop head the local is stepped by a positive constant in the direction of the bound (or assigned a constant
               that falsifies the conjunct) - checked as must-pass-through on the CFG (no cycle avoids the stepping statements);
  countdown    `i != 0` with unit steps down from a start value of the form `<index> + 1`;
  flag         `while flag == False`: some test `c == N` / `c >= N` inside the loop leads to `flag = True` on all its paths, and every cycle
               that does not set the flag steps the counter c by +1;
  derived      the compared local is recomputed every cycle from a counter that is stepped every cycle (`date = f(year + 1)`; `year += 1`) -
               only for the loops listed in DERIVED, with the reason the recomputed value is monotone and unbounded in the counter;
  convergence  a search whose test has no counter at all (`while est <= target`): listed in CONVERGENCE with the parameters whose positivity
               the convergence argument needs; the loop must be preceded on every path by a guard that raises when one of them is <= 0;
  delegated    progress is the subject of another rule (the model's outer loop: C07.b; the profile deepening loop: C16's deepening rule).

A loop that fits none is reported.  The tables below are keyed by function (and, for the delegated loops, by the attributes the test reads:
API-level names), never by position, text or the spelling of a local."""
from __future__ import annotations
import ast
from typing import Dict, List, Optional, Set, Tuple

from ..model import norm, walk_no_nested, AnalysisError
from ..rdef import flow_of, ENTRY

# (function name, names read by the loop test) -> reason
DELEGATED = {
    ("run_model", ("model_is_finished",)): "the model's outer loop: progress of the clock is C07.b (16 abstract clock states)",
    ("read_model_parameters", ("Zmax", "zSoil")): "the profile deepening loop: progress is C16's deepening rule (zSoil re-derived from the lengthened table)",
}
# function name -> parameters (formals) whose positivity the convergence argument of its counter-less search loop needs
CONVERGENCE = {
    "calculate_HIGC": {
        "needs_positive": ["crop_YldFormCD", "crop_HI0", "crop_HIini"],
        "why": "HIest rises towards HI0 as the coefficient grows only if the yield-formation period is longer than 0 days; with 0 days HIest stays "
               "at its initial value and the search never ends",
    },
}


# function name -> why a value recomputed from a stepped counter is enough for its loop (monotone and unbounded in the counter)
DERIVED = {
    "prepare_gdd": "the planting date of year y (month/day fixed) moves on by a year with every step of the year counter",
}


def _conjuncts(e: ast.AST) -> List[ast.AST]:
    if isinstance(e, ast.BoolOp) and isinstance(e.op, ast.And):
        return [c for v in e.values for c in _conjuncts(v)]
    return [e]


def _last_names(e: ast.AST) -> Tuple[str, ...]:
    out = set()
    for x in ast.walk(e):
        if isinstance(x, ast.Attribute):
            out.add(x.attr)
        elif isinstance(x, ast.Name):
            out.add(x.id)
    # attribute bases (self, soil, crop ...) are not what the test is about
    bases = {x.value.id for x in ast.walk(e) if isinstance(x, ast.Attribute) and isinstance(x.value, ast.Name)}
    inner = {x.value.attr for x in ast.walk(e) if isinstance(x, ast.Attribute) and isinstance(x.value, ast.Attribute)}
    return tuple(sorted(out - bases - inner))


def _num(e) -> Optional[float]:
    if isinstance(e, ast.Constant) and isinstance(e.value, (int, float)) and not isinstance(e.value, bool):
        return e.value
    if isinstance(e, ast.UnaryOp) and isinstance(e.op, ast.USub) and _num(e.operand) is not None:
        return -_num(e.operand)
    return None


def _step_of(st: ast.AST, var: str):
    """('step', +c / -c) for `var = var +- c`, `var += c`; ('const', v) for `var = <number>`; ('other', None) for any other store to var"""
    tgt = None
    if isinstance(st, ast.AugAssign) and isinstance(st.target, ast.Name) and st.target.id == var:
        c = _num(st.value)
        if c is not None and isinstance(st.op, (ast.Add, ast.Sub)):
            return ("step", c if isinstance(st.op, ast.Add) else -c)
        return ("other", None)
    if isinstance(st, ast.Assign) and len(st.targets) == 1 and isinstance(st.targets[0], ast.Name) and st.targets[0].id == var:
        v = st.value
        if _num(v) is not None:
            return ("const", _num(v))
        if isinstance(v, ast.BinOp) and isinstance(v.op, (ast.Add, ast.Sub)) and isinstance(v.left, ast.Name) and v.left.id == var and _num(v.right) is not None:
            c = _num(v.right)
            return ("step", c if isinstance(v.op, ast.Add) else -c)
        if isinstance(v, ast.BinOp) and isinstance(v.op, ast.Add) and isinstance(v.right, ast.Name) and v.right.id == var and _num(v.left) is not None:
            return ("step", _num(v.left))
        return ("other", None)
    return None


def _stores_in(loop: ast.While, var: str) -> List[ast.AST]:
    out = []
    for st in ast.walk(loop):
        if isinstance(st, (ast.Assign, ast.AugAssign)) and _step_of(st, var) is not None:
            out.append(st)
        elif isinstance(st, ast.Assign) and any(isinstance(t, (ast.Tuple, ast.List)) and any(isinstance(x, ast.Name) and x.id == var for x in ast.walk(t)) for t in st.targets):
            out.append(st)
        elif isinstance(st, ast.For) and any(isinstance(x, ast.Name) and x.id == var for x in ast.walk(st.target)):
            out.append(st)
    return out


def _assigned_names(loop: ast.While) -> Set[str]:
    out = set()
    for st in ast.walk(loop):
        if isinstance(st, (ast.Assign, ast.AugAssign, ast.AnnAssign, ast.For)):
            tg = st.targets if isinstance(st, ast.Assign) else [st.target]
            for t in tg:
                for x in ast.walk(t):
                    if isinstance(x, ast.Name) and isinstance(x.ctx, ast.Store):
                        out.add(x.id)
    return out


def _cycle_avoiding(flow, loop: ast.While, avoid_stmts: List[ast.AST]) -> bool:
    """is there a way from the loop head round the body back to the head that executes none of the given statements?"""
    cfg = flow.cfg
    head = next((n for n in cfg.live_nodes() if n.kind == "loophead" and n.stmt is loop), None)
    if head is None:
        raise AnalysisError("loop head not found in the CFG")
    avoid = {flow.stmt_node.get(id(s)) for s in avoid_stmts}
    avoid.discard(None)
    # nodes of the loop body: first nodes of the body statements and everything they reach before the head
    starts = []
    seen = set()
    stack = [t for t, _ in head.succs]
    tests = set()
    while stack:                       # the test atoms of the loop: follow True edges into the body
        k = stack.pop()
        if k in seen:
            continue
        seen.add(k)
        n = cfg.nodes[k]
        if n.kind == "test" and n.stmt is loop:
            tests.add(k)
            for t, l in n.succs:
                if l is True:
                    (stack if (cfg.nodes[t].kind == "test" and cfg.nodes[t].stmt is loop) else starts).append(t)
    for s in starts:
        if s not in avoid and cfg.paths_exist_avoiding(s, head.id, avoid):
            return True
    return False


def _is_flag_test(t: ast.AST):
    """flag name if the loop test is `flag == False` / `flag is False` / `not flag`"""
    if isinstance(t, ast.UnaryOp) and isinstance(t.op, ast.Not) and isinstance(t.operand, ast.Name):
        return t.operand.id
    if isinstance(t, ast.Compare) and len(t.ops) == 1 and isinstance(t.left, ast.Name) and isinstance(t.comparators[0], ast.Constant) \
            and t.comparators[0].value is False and isinstance(t.ops[0], (ast.Eq, ast.Is)):
        return t.left.id
    return None


def classify(prog, fi, loop: ast.While):
    """-> (kind, detail) or (None, why not)"""
    flow = flow_of(fi)
    assigned = _assigned_names(loop)
    why = []
    key = (fi.name, _last_names(loop.test))
    if key in DELEGATED:
        return "delegated", DELEGATED[key]
    # ---- counter / countdown conjuncts
    for c in _conjuncts(loop.test):
        if not (isinstance(c, ast.Compare) and len(c.ops) == 1):
            continue
        op = type(c.ops[0])
        for var, bound, o in ((c.left, c.comparators[0], op), (c.comparators[0], c.left, {ast.Lt: ast.Gt, ast.LtE: ast.GtE, ast.Gt: ast.Lt, ast.GtE: ast.LtE}.get(op, op))):
            if not isinstance(var, ast.Name) or var.id not in assigned:
                continue
            if any(isinstance(x, ast.Name) and x.id in assigned for x in ast.walk(bound)):
                why.append(f"`{norm(c)}`: the bound changes inside the loop")
                continue
            sts = _stores_in(loop, var.id)
            kinds = [_step_of(s, var.id) for s in sts]
            if any(k is None or k[0] == "other" for k in kinds):
                # a derived variable: recomputed each cycle from a stepped counter
                d = _derived(flow, loop, var.id, sts) if fi.name in DERIVED else None
                if d and o in (ast.Lt, ast.LtE):
                    return "derived", f"`{norm(c)}`: {var.id} is recomputed every cycle from the counter {d}, which is stepped on every cycle ({DERIVED[fi.name]})"
                why.append(f"`{norm(c)}`: {var.id} is also assigned something that is not a constant step")
                continue
            steps = [k[1] for k in kinds if k[0] == "step"]
            consts = [k[1] for k in kinds if k[0] == "const"]
            if o in (ast.Lt, ast.LtE):
                good = steps and all(s > 0 for s in steps)
            elif o in (ast.Gt, ast.GtE):
                good = steps and all(s < 0 for s in steps)
            elif o is ast.NotEq and _num(bound) == 0:
                good = steps and all(s == -1 for s in steps)
                if good:
                    # start value of the form <index> + 1 (>= 1 for an index >= 0)
                    nid = next((n.id for n in flow.cfg.live_nodes() if n.kind == "loophead" and n.stmt is loop), None)
                    ds = [d for d in flow.defs_reaching(var.id, nid) if flow.stmt_node.get(id(flow.cfg.nodes[d].ast)) is not None
                          and not any(flow.cfg.nodes[d].ast is s for s in sts)] if nid is not None else []
                    ok0 = ds and all(isinstance(flow.cfg.nodes[d].ast, ast.Assign) and isinstance(flow.cfg.nodes[d].ast.value, ast.BinOp)
                                     and isinstance(flow.cfg.nodes[d].ast.value.op, ast.Add) and _num(flow.cfg.nodes[d].ast.value.right) == 1 for d in ds)
                    if not ok0:
                        why.append(f"`{norm(c)}`: the start value of {var.id} is not of the form <index> + 1")
                        good = False
            else:
                good = False
            # constants assigned must falsify the conjunct when the bound is a number
            b = _num(bound)
            for v in consts:
                fals = b is not None and not {ast.Lt: v < b, ast.LtE: v <= b, ast.Gt: v > b, ast.GtE: v >= b, ast.NotEq: v != b}.get(o, True)
                if not fals:
                    good = False
                    why.append(f"`{norm(c)}`: {var.id} = {v} does not end the loop")
            if not good:
                if steps:
                    why.append(f"`{norm(c)}`: steps {steps} do not move {var.id} towards the bound")
                continue
            if _cycle_avoiding(flow, loop, sts):
                why.append(f"`{norm(c)}`: some way round the loop does not step {var.id}")
                continue
            return ("countdown" if o is ast.NotEq else "counter"), f"`{norm(c)}`: {var.id} stepped by {sorted(set(steps))}" + (f" or set to {consts}" if consts else "") + " on every cycle; bound invariant"
    # ---- flag loops
    flag = _is_flag_test(loop.test)
    if flag is not None:
        sets = [s for s in ast.walk(loop) if isinstance(s, ast.Assign) and len(s.targets) == 1 and isinstance(s.targets[0], ast.Name) and s.targets[0].id == flag
                and isinstance(s.value, ast.Constant) and s.value.value is True]
        cfg = flow.cfg
        head = next((n for n in cfg.live_nodes() if n.kind == "loophead" and n.stmt is loop), None)
        for t in cfg.live_nodes():
            e = t.ast
            if t.kind != "test" or not (isinstance(e, ast.Compare) and len(e.ops) == 1 and isinstance(e.ops[0], (ast.Eq, ast.GtE)) and isinstance(e.left, ast.Name)):
                continue
            if not any(x is e for x in ast.walk(loop)) or e.left.id not in assigned:
                continue
            if any(isinstance(x, ast.Name) and x.id in assigned for x in ast.walk(e.comparators[0])):
                continue
            cnt = e.left.id
            true_succ = [s for s, l in t.succs if l is True]
            setn = {flow.stmt_node.get(id(s)) for s in sets}
            if not true_succ or any(cfg.paths_exist_avoiding(s, head.id, setn) for s in true_succ if s not in setn):
                continue
            sts = _stores_in(loop, cnt)
            kinds = [_step_of(s, cnt) for s in sts]
            if not kinds or any(k is None or k[0] != "step" or k[1] != 1 for k in kinds):
                continue
            if _cycle_avoiding(flow, loop, sts + sets):
                why.append(f"flag loop: a cycle neither sets {flag} nor steps {cnt}")
                continue
            return "flag", f"{flag} is set on every path from `{norm(e)}`; every other cycle steps {cnt} by +1"
        why.append(f"flag loop on {flag}: no counter test that leads to `{flag} = True`")
    if fi.name in CONVERGENCE:
        return "convergence", CONVERGENCE[fi.name]
    return None, "; ".join(why) or "the test has no conjunct that compares a stepped local with an invariant bound"


def _derived(flow, loop, var, sts) -> Optional[str]:
    """var is assigned (every cycle) a value computed from a counter that is stepped by +1 on every cycle"""
    assigned = _assigned_names(loop)
    for s in sts:
        if not isinstance(s, ast.Assign):
            return None
    # follow the assigned value through locals defined in the loop
    def counters(e, depth=0):
        out = set()
        for x in ast.walk(e):
            if isinstance(x, ast.Name) and x.id in assigned and x.id != var:
                k = [_step_of(t, x.id) for t in _stores_in(loop, x.id)]
                if k and all(j is not None and j[0] == "step" and j[1] > 0 for j in k):
                    out.add(x.id)
                elif depth < 3:
                    for t in _stores_in(loop, x.id):
                        if isinstance(t, ast.Assign):
                            out |= counters(t.value, depth + 1)
        return out
    cs = set()
    for s in sts:
        c = counters(s.value)
        if not c:
            return None
        cs |= c
    for c in sorted(cs):
        if not _cycle_avoiding(flow, loop, _stores_in(loop, c)) and not _cycle_avoiding(flow, loop, sts):
            return c
    return None


def _guarded_positive(fi, loop: ast.While, param: str) -> bool:
    """a `raise` under a test `param <= 0` / `param < 1` / `not param > 0` dominates the loop (the test's other edge is the only way on)"""
    flow = flow_of(fi)
    cfg = flow.cfg
    head = next((n for n in cfg.live_nodes() if n.kind == "loophead" and n.stmt is loop), None)
    # aliases of the parameter: locals assigned from it before the loop
    names = {param}
    for a in walk_no_nested(fi.node):
        if isinstance(a, ast.Assign) and len(a.targets) == 1 and isinstance(a.targets[0], ast.Name) and isinstance(a.value, ast.Name) and a.value.id in names:
            names.add(a.targets[0].id)
    for t in cfg.live_nodes():
        e = t.ast
        if t.kind != "test" or not (isinstance(e, ast.Compare) and len(e.ops) == 1 and isinstance(e.left, ast.Name) and e.left.id in names):
            continue
        b = _num(e.comparators[0])
        if b is None:
            continue
        op = e.ops[0]
        # edge on which the parameter is known to be > 0
        if (isinstance(op, ast.LtE) and b >= 0) or (isinstance(op, ast.Lt) and b >= 0 and float(b).is_integer() and b >= 1) or (isinstance(op, ast.Lt) and b > 0):
            bad_label = True
        elif (isinstance(op, ast.Gt) and b >= 0) or (isinstance(op, ast.GtE) and b > 0):
            bad_label = False
        else:
            continue
        # with the "parameter is positive" edge removed the loop head must be unreachable ... i.e. every path to the loop takes the good edge;
        # and the bad edge must not reach the loop at all
        if not cfg.reachable_without_edges(head.id, {(t.id, (not bad_label))}):
            bad_succ = [s for s, l in t.succs if l is bad_label]
            if all(not cfg.paths_exist_avoiding(s, head.id, set()) for s in bad_succ):
                return True
    return False


def loop_variants(chk, prog, rule: str, only_funcs: Optional[Set[str]] = None) -> int:
    n = 0
    kinds: Dict[str, int] = {}
    for key in sorted(prog.funcs):
        fi = prog.funcs[key]
        if only_funcs is not None and key not in only_funcs:
            continue
        for w in walk_no_nested(fi.node):
            if not isinstance(w, ast.While):
                continue
            n += 1
            chk.fn(key)
            where = f"{fi.module}:{fi.qualname}"
            construct = f"while {norm(w.test)[:90]}"
            kind, detail = classify(prog, fi, w)
            if kind is None:
                chk.violation(rule, where, construct, f"no reason to stop is visible in this loop ({detail}): a run that enters it with the wrong values never ends", loc=fi.loc(w))
                continue
            kinds[kind] = kinds.get(kind, 0) + 1
            if kind == "convergence":
                missing = [p for p in detail["needs_positive"] if not _guarded_positive(fi, w, p)]
                if missing:
                    chk.violation(rule, where, construct, "a search loop without a counter: " + detail["why"] + f"; no guard that raises when {', '.join(missing)} <= 0 "
                                  "precedes the loop on every path", loc=fi.loc(w))
                else:
                    chk.ok(rule, where, construct, "convergence loop; guarded by a raise when " + ", ".join(detail["needs_positive"]) + " <= 0")
            else:
                chk.ok(rule, where, construct, f"{kind}: {detail}")
    chk.notes[rule + "_loop_kinds"] = kinds
    return n
