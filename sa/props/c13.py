"""C13 - irrigation strategies honour their contracts (structural contract)."""
from __future__ import annotations
import ast
from ..affine import NF, equal, add, text
from ..cp import batch, is_zero, row_writers, step_local
from ..common import STEP_FN, step_roles, init_roles
from ..model import norm, walk_no_nested, AnalysisError
from ..rdef import flow_of, ENTRY
from ..cfg import node_reads

EXPLANATION = (
    "C13.a (constant propagation, interprocedural): the surface irrigation depth Irr is the constant 0 outside a growing "
    "season for every method, and in season for method 0 (rainfed) and method 4 (net irrigation); IrrDay is 0 off-season. "
    "C13.b (reaching definitions + dominance in `irrigation`): every definition of Irr that reaches the non-negativity "
    "clamp is either the literal 0 or min(<daily maximum>, .); the clamp max(0, Irr) is the only in-season definition "
    "reaching the seasonal cap; the cap statement is exactly `if Cum + Irr > Max: Irr = max(0, Max - Cum)` up to "
    "algebraic rewriting (polynomial normal forms, temporaries substituted); the seasonal counter is incremented after "
    "the cap by the very Irr that is returned. C13.c (index spaces): Schedule is built on ClockStruct.time_span and read "
    "at the time-step counter; SMT is read at int(growth_stage)-1 and growth_stage is set to 1 on the first day of a "
    "season before it is used. C13.d: each strategy's parameter is read only inside that strategy's branch. C13.e: the daily schedule is aligned with the simulation days by label; a day offset used as an array position "
    "must be checked against 0 and the length (negative offsets wrap). C13.f: the interval day test is (dap - 1) % interval == 0 (normal form). C13.g: the net-irrigation refill uses each layer's own threshold (= C04.e). C13.h: the growth-stage lengths of compute_crop_calendar are derived by the same expressions in the calendar-day and the degree-day branch (modulo the CD suffix) and the degree-day branch reads no calendar-day parameter - the end of stage 1 selects the threshold of the soil-moisture strategy. C13.i: the daily schedule array is built from the schedule's Depth column by name (or zeros). C13.j (= C07.l; what 'in season' means for C13.a): the step sets growing_season = True only under planting date reached, harvest date not reached, crop not mature and crop not dead (control dependences, tests on locals expanded) - a season that goes on after the crop has died keeps irrigating a field whose harvest is already reported. C13.k: the net-irrigation requirement returned by transpiration is accumulated from per-compartment terms that are negative for compartments wetter than their critical content; every such accumulation is control dependent on a test `total > 0` whose total is the sum of the very same terms (same polynomial normal form, in the function itself or in a called repository function), or on a test of the term itself - the trigger on the rounded root-zone averages alone lets a slightly negative requirement through. C13.l (T-TIME, time units): below the daily step no addition, subtraction or ordering comparison combines calendar days (dap, delayed_cds, age days, CD-suffixed stages) with growing degree days (gdd_cum, delayed_gdds, gdd) under either calendar type, the unsuffixed crop stages reading as days under CalendarType 1 and as degree days under 2; a quantity of a fixed unit is never assigned a value of the other (the growth stage that selects the soil-moisture threshold is computed from such a time). C13.m: the planting-day refill of pre_irrigation (stores into the water content, non-zero returned depth) is unreachable once the edges on which irrigation_method == 4 holds are removed. NOT decided: "
    "the ((dap-1) % k), the threshold comparison and the refill amount (numeric).")


def _find_irrigation(prog):
    return prog.find_func("irrigation")


# --------------------------------------------------------------------------------------------- C13.e

_OFFSET_EXAMPLE = """
def f(df, ClockStruct):
    days = np.array((df.index - ClockStruct.time_span[0]).days)
    in_sim = days < len(ClockStruct.time_span)
    schedule = np.zeros(len(ClockStruct.time_span))
    schedule[days[in_sim]] = np.array(df.Depth.values, dtype=float)[in_sim]
    return schedule
"""


def _offset_index_sites(fn: ast.AST):
    """[(subscript, offset name, has_lower_guard, has_upper_guard)] for day offsets (`(...).days`) used as array indices"""
    offs = set()
    for a in ast.walk(fn):
        if isinstance(a, ast.Assign) and isinstance(a.targets[0], ast.Name) and any(isinstance(x, ast.Attribute) and x.attr == "days" for x in ast.walk(a.value)):
            offs.add(a.targets[0].id)
    out = []
    for sub in ast.walk(fn):
        if isinstance(sub, ast.Subscript) and not (isinstance(sub.value, ast.Name) and sub.value.id in offs):
            used = {x.id for x in ast.walk(sub.slice) if isinstance(x, ast.Name)} & offs
            # masks applied to the offsets: names m in `offs[m]`
            for nm in used:
                lower = upper = False
                for c in ast.walk(fn):
                    if isinstance(c, ast.Compare) and len(c.ops) == 1 and any(isinstance(x, ast.Name) and x.id == nm for x in ast.walk(c)):
                        l, r, op = c.left, c.comparators[0], c.ops[0]
                        zero = lambda e: isinstance(e, ast.Constant) and e.value in (0, -1)
                        if (isinstance(l, ast.Name) and l.id == nm and zero(r) and isinstance(op, (ast.GtE, ast.Gt))) or \
                           (isinstance(r, ast.Name) and r.id == nm and zero(l) and isinstance(op, (ast.LtE, ast.Lt))):
                            lower = True
                        if (isinstance(l, ast.Name) and l.id == nm and not zero(r) and isinstance(op, (ast.Lt, ast.LtE))) or \
                           (isinstance(r, ast.Name) and r.id == nm and not zero(l) and isinstance(op, (ast.Gt, ast.GtE))):
                            upper = True
                out.append((sub, nm, lower, upper))
    return out


def rule_e(chk, prog):
    """C13.e ('nothing on other dates', schedule dates outside the simulation included): the daily schedule is aligned with the simulation
    days by label (reindex on time_span); where a day offset relative to the start is used as an array position instead, it is compared
    with 0 and with the length (a negative offset wraps to the end of a numpy array)"""
    ex = _offset_index_sites(ast.parse(_OFFSET_EXAMPLE).body[0])
    if not ex or any(lo for _, _, lo, _ in ex) or not all(up for _, _, _, up in ex):
        raise AnalysisError("C13.e: the rule no longer recognises its positive example")
    from ..common import INIT_ROOT
    n = 0
    for key in sorted(prog.reachable_from(INIT_ROOT)):
        fi = prog.funcs.get(key)
        if fi is None:
            continue
        for sub, nm, lo, up in _offset_index_sites(fi.node):
            n += 1
            chk.fn(key)
            where = f"{fi.module}:{fi.qualname}"
            if lo and up:
                chk.ok("C13.e", where, norm(sub)[:80], f"day offset {nm} compared with 0 and with the length")
            else:
                chk.violation("C13.e", where, norm(sub)[:80], f"the day offset {nm} (date minus simulation start) is used as an array position without a "
                              f"{'lower' if not lo else 'upper'} bound check: a date before the start gives a negative offset, which numpy wraps to the end "
                              "of the array - water is applied on a day that is not scheduled", loc=fi.loc(sub))
    # label alignment of the schedule handed to the model
    rim = prog.find_func("read_irrigation_management")
    chk.fn(rim.key)
    aligned = [c for c in walk_no_nested(rim.node) if isinstance(c, ast.Call) and isinstance(c.func, ast.Attribute) and c.func.attr == "reindex"
               and c.args and any(isinstance(x, ast.Attribute) and x.attr == "time_span" for x in ast.walk(c.args[0]))]
    if aligned:
        chk.ok("C13.e", f"{rim.module}:{rim.qualname}", norm(aligned[0])[:80], "schedule aligned with the simulation days by label")
    elif n == 0:
        chk.violation("C13.e", f"{rim.module}:{rim.qualname}", "daily schedule array", "the schedule is neither aligned by label on time_span nor built from checked day offsets",
                      loc=rim.loc())
    chk.notes["day_offset_index_sites"] = n


def rule_f(chk, prog):
    """C13.f: fixed-interval irrigation occurs on days 1, 1+k, 1+2k, ... after planting: the day test of the interval branch is
    `<days after planting - 1> % <interval> == 0` (normal form of the left operand of %: the dap formal minus 1; right operand: the interval formal)"""
    from .. import affine as A
    from ..symb import Sym
    ctx = irrigation_context(chk, prog)
    fi, formal_of, call, params = ctx["fi"], ctx["formal_of"], ctx["call"], ctx["params"]
    f_dap = next((params[i] for i, a in enumerate(call.args) if isinstance(a, ast.Attribute) and a.attr == "dap"), None)
    f_int = next((params[i] for i, a in enumerate(call.args) if isinstance(a, ast.Attribute) and a.attr == "IrrInterval"), None)
    f_m = formal_of.get("irrigation_method")
    if not (f_dap and f_int and f_m):
        raise AnalysisError("irrigation() no longer receives dap / IrrInterval / irrigation_method")
    where = f"{fi.module}:{fi.qualname}"
    sym = Sym(prog, fi, consts={f_m: 2})
    n = 0
    for node in sym.cfg.live_nodes():
        c = node.ast
        if node.kind == "test" and isinstance(c, ast.Compare) and isinstance(c.left, ast.BinOp) and isinstance(c.left.op, ast.Mod) and node.id in sym.state_in:
            n += 1
            st = sym.state_in[node.id]
            left = sym.nf(c.left.left, st)
            want = A.add(A.atom(f_dap), A.const(1), -1)
            k_ok = isinstance(c.left.right, ast.Name) and c.left.right.id == f_int
            zero = isinstance(c.comparators[0], ast.Constant) and c.comparators[0].value == 0 and isinstance(c.ops[0], ast.Eq)
            construct = norm(c)
            if A.equal(left, want) and k_ok and zero:
                chk.ok("C13.f", where, construct, f"({f_dap} - 1) % {f_int} == 0: days 1, 1+k, 1+2k, ...")
            else:
                chk.violation("C13.f", where, construct, f"the interval test is on {A.text(left)[:60]} % {norm(c.left.right)} {'== 0' if zero else norm(c.comparators[0])}, "
                              f"not on ({f_dap} - 1) % {f_int} == 0: irrigation does not fall on days 1, 1+k, 1+2k after planting", loc=fi.loc(c))
    chk.floor("C13.f", n, 1, "interval day tests in irrigation()")


def rule_i(chk, prog):
    """C13.i (scheduled irrigation applies exactly the scheduled depth): the daily schedule array handed to the model is built from the
    schedule's `Depth` column selected by name (or is all zeros) - not from `.values` of whatever columns remain after dropping the date:
    one more column in the user's table interleaves with the depths, which then land on other days."""
    from ..rdef import flow_of, ENTRY
    fi = prog.find_func("read_irrigation_management")
    chk.fn(fi.key)
    where = f"{fi.module}:{fi.qualname}"
    flow = flow_of(fi)
    cfg = flow.cfg
    n = 0
    for a in walk_no_nested(fi.node):
        if isinstance(a, ast.Assign) and isinstance(a.targets[0], ast.Attribute) and a.targets[0].attr == "Schedule" and isinstance(a.value, ast.Name):
            nid = flow.stmt_node.get(id(a))
            for d in flow.defs_reaching(a.value.id, nid):
                da = cfg.nodes[d].ast if d != ENTRY else None
                v = da.value if isinstance(da, ast.Assign) else None
                if v is None:
                    continue
                n += 1
                construct = norm(da)[:90]
                zeros = isinstance(v, ast.Call) and norm(v.func) in ("np.zeros", "numpy.zeros")
                by_name = any((isinstance(x, ast.Subscript) and isinstance(x.slice, ast.Constant) and x.slice.value == "Depth") or (isinstance(x, ast.Attribute) and x.attr == "Depth")
                              for x in ast.walk(v))
                # `.values` of a frame the model built itself with the single column 'Depth'
                own_single = False
                for x in ast.walk(v):
                    if isinstance(x, ast.Attribute) and x.attr == "values" and isinstance(x.value, ast.Name):
                        for dd in flow.defs_reaching(x.value.id, d):
                            fa = cfg.nodes[dd].ast if dd != ENTRY else None
                            fv = fa.value if isinstance(fa, ast.Assign) else None
                            if isinstance(fv, ast.Call) and norm(fv.func) in ("pd.DataFrame", "pandas.DataFrame", "DataFrame"):
                                cols = next((k.value for k in fv.keywords if k.arg == "columns"), None)
                                if isinstance(cols, ast.List) and [getattr(e, "value", None) for e in cols.elts] == ["Depth"]:
                                    own_single = True
                if zeros or by_name or own_single:
                    chk.ok("C13.i", where, construct, "all zeros" if zeros else ("the Depth column, by name" if by_name else "a frame the model built with the single column 'Depth'"))
                else:
                    chk.violation("C13.i", where, construct, "the daily schedule is built from all remaining columns of the user's table, not from its Depth column: an extra "
                                  "column is interleaved with the depths and irrigation is applied on the wrong days", loc=fi.loc(da))
    chk.floor("C13.i", n, 2, "definitions of the daily schedule array")


def rule_h(chk, prog):
    """C13.h (growth stages of a thermal-time crop are bounded in thermal time - T-UNIT, sibling rule): compute_crop_calendar derives the
    stage lengths twice, in calendar days (Mode == 1: XCD from YCD / Y_CD parameters) and in growing degree days (Mode == 2: X from Y).
    For every derived attribute with a twin in the other branch the two defining expressions are the same after dropping the CD suffix,
    and the degree-day branch reads no calendar-day parameter (`crop.CGC_CD` for `crop.CGC`): the end of growth stage 1 (10 % canopy
    cover), which selects the soil-moisture threshold in force, would otherwise be a calendar-day rate applied to degree days."""
    import re
    fi = prog.find_func("compute_crop_calendar")
    chk.fn(fi.key)
    where = f"{fi.module}:{fi.qualname}"
    from ..rdef import flow_of
    flow = flow_of(fi)
    cfg = flow.cfg
    def strip(name):
        return re.sub(r"_?CD$", "", name)
    class Canon(ast.NodeTransformer):
        def visit_Attribute(self, n):
            self.generic_visit(n)
            return ast.Attribute(value=n.value, attr=strip(n.attr), ctx=n.ctx)
    import copy
    defs = {1: {}, 2: {}}
    raw = {1: {}, 2: {}}
    for a in walk_no_nested(fi.node):
        if not (isinstance(a, ast.Assign) and isinstance(a.targets[0], ast.Attribute) and isinstance(a.targets[0].value, ast.Name)):
            continue
        nid = flow.stmt_node.get(id(a))
        if nid is None:
            continue
        modes = {int(m.group(1)) for t, l in cfg.transitive_control_deps(nid) if cfg.nodes[t].kind == "test" and l is True
                 for m in [re.match(r"^Mode == (\d)$", norm(cfg.nodes[t].ast))] if m}
        if len(modes) != 1:
            continue
        m = modes.pop()
        if m not in (1, 2):
            continue
        # plain duplications (X = XCD) are bookkeeping, not derivations
        if isinstance(a.value, ast.Attribute):
            continue
        # calendar-day quantities carry the CD suffix, thermal-time ones do not: only the branch's own kind is a derivation of the stage length
        # (the degree-day branch also converts its stages *to* calendar days from the weather - another computation)
        has_cd = bool(re.search(r"_?CD$", a.targets[0].attr))
        if (m == 1) != has_cd:
            continue
        tgt = strip(a.targets[0].attr)
        defs[m].setdefault(tgt, set()).add(ast.unparse(Canon().visit(copy.deepcopy(a.value))))
        raw[m].setdefault(tgt, []).append(a)
    twins = sorted(set(defs[1]) & set(defs[2]))
    for t in twins:
        construct = f"crop.{t}: calendar-day vs degree-day derivation"
        a2 = raw[2][t][0]
        cd_reads = sorted({x.attr for a_ in raw[2][t] for x in ast.walk(a_.value) if isinstance(x, ast.Attribute) and re.search(r"_?CD$", x.attr)})
        if cd_reads:
            chk.violation("C13.h", where, construct, f"the degree-day branch computes crop.{a2.targets[0].attr} from the calendar-day parameter(s) {', '.join(cd_reads)}: a "
                          "per-day rate applied to degree days - the growth stage that selects the soil-moisture threshold ends at the wrong time for every thermal-time crop",
                          loc=fi.loc(a2))
        elif defs[1][t] != defs[2][t]:
            chk.violation("C13.h", where, construct, f"the two branches derive the stage differently: {sorted(defs[1][t])[0][:70]} vs {sorted(defs[2][t])[0][:70]}", loc=fi.loc(a2))
        else:
            chk.ok("C13.h", where, construct, "same expression modulo the CD suffix; no calendar-day parameter in the degree-day branch")
    chk.floor("C13.h", len(twins), 4, "stage lengths derived in both calendar branches")


def rule_k(chk, prog):
    """C13.k (net-irrigation mode reports a non-negative daily requirement): in transpiration the returned net requirement is accumulated from
    per-compartment terms `RootFact * (critical content - content) * 1000 * dz`, which are negative for compartments wetter than the critical
    content. Every accumulation of a term that is not non-negative by its own guard is control dependent on a test `<total> > 0`, where
    <total> is the sum of the very same terms: a call of a repository function whose returned value accumulates a term with the same
    polynomial normal form (object prefixes dropped), or the term itself. The trigger `thRZ.Act < thCrit` alone compares rounded root-zone
    averages and lets a slightly negative total through (F52)."""
    from .. import affine as A
    from ..rdef import flow_of, ENTRY
    tr = prog.find_func("transpiration")
    flow = flow_of(tr)
    cfg = flow.cfg
    where = f"{tr.module}:{tr.qualname}"
    chk.fn(tr.key)
    rets = [r for r in walk_no_nested(tr.node) if isinstance(r, ast.Return) and isinstance(r.value, ast.Tuple)]
    # the net requirement: the returned local the step unpacks into the net-irrigation local (last element of the tuple)
    if not rets or not isinstance(rets[0].value.elts[-1], ast.Name):
        raise AnalysisError("transpiration: the returned net-irrigation requirement is not a plain local")
    R = rets[0].value.elts[-1].id

    def atom(e):
        if isinstance(e, ast.Subscript):
            base = e.value.attr if isinstance(e.value, ast.Attribute) else (e.value.id if isinstance(e.value, ast.Name) else None)
            return f"{base}[{norm(e.slice)}]" if base else None
        if isinstance(e, ast.Attribute):
            return e.attr
        return None

    def nf(e, fi, at, depth=0):
        fl = flow_of(fi)
        def subst(nm):
            if depth > 3 or at is None:
                return None
            ds = [d for d in fl.defs_reaching(nm.id, at) if d != ENTRY]
            if len(ds) == 1 and isinstance(fl.cfg.nodes[ds[0]].ast, ast.Assign) and isinstance(fl.cfg.nodes[ds[0]].ast.targets[0], ast.Name):
                v = fl.cfg.nodes[ds[0]].ast.value
                if isinstance(v, ast.BinOp):
                    return v
            return None
        return A.NF(subst=subst, atom_name=atom).nf(e)

    def term_of(a, fi):
        """the term t of an accumulation `X = X + t`"""
        v = a.value
        if isinstance(a, ast.AugAssign) and isinstance(a.op, ast.Add):
            return a.value
        if isinstance(v, ast.BinOp) and isinstance(v.op, ast.Add) and isinstance(v.left, ast.Name) and v.left.id == a.targets[0].id:
            return v.right
        return None

    n = 0
    for a in walk_no_nested(tr.node):
        if not (isinstance(a, ast.Assign) and len(a.targets) == 1 and isinstance(a.targets[0], ast.Name) and a.targets[0].id == R):
            continue
        t = term_of(a, tr)
        if t is None:
            continue                      # a plain (re)initialisation such as `IrrNet = 0`
        nid = flow.stmt_node.get(id(a))
        if nid is None:
            continue
        n += 1
        construct = norm(a)
        tnf = nf(t, tr, nid)
        ok, why = False, "no test of the total requirement against 0 on the way to the accumulation"
        for tn, lab in cfg.transitive_control_deps(nid):
            c = cfg.nodes[tn].ast
            if cfg.nodes[tn].kind != "test" or lab is not True or not (isinstance(c, ast.Compare) and len(c.ops) == 1 and isinstance(c.ops[0], (ast.Gt, ast.GtE))
                                                                         and isinstance(c.comparators[0], ast.Constant) and c.comparators[0].value == 0):
                continue
            left = c.left
            if A.equal(nf(left, tr, tn), tnf):
                ok, why = True, "each term is tested against 0 before it is added"
                break
            callee = prog.resolve_call(tr, left) if isinstance(left, ast.Call) else None
            if hasattr(callee, "params"):
                # the callee returns a local that accumulates a term with the same normal form
                cflow = flow_of(callee)
                crets = [r for r in walk_no_nested(callee.node) if isinstance(r, ast.Return) and isinstance(r.value, ast.Name)]
                for r in crets:
                    for b in walk_no_nested(callee.node):
                        if isinstance(b, ast.Assign) and len(b.targets) == 1 and isinstance(b.targets[0], ast.Name) and b.targets[0].id == r.value.id:
                            bt = term_of(b, callee)
                            if bt is not None and A.equal(nf(bt, callee, cflow.stmt_node.get(id(b))), tnf):
                                ok, why = True, f"under `{norm(c)[:70]}`: {callee.name} returns the sum of the same terms"
                if not ok:
                    why = f"the total tested (`{norm(left)[:50]}`) is not the sum of the terms that are accumulated"
        if ok:
            chk.ok("C13.k", where, construct, why)
        else:
            chk.violation("C13.k", where, construct, f"the net-irrigation requirement is accumulated from terms that are negative for compartments wetter than their critical "
                          f"content, and {why}: with the root zone within rounding of the trigger the reported daily requirement is negative "
                          "(Sunflower, NetIrrSMT=90: -0.017 mm)", loc=tr.loc(a))
    chk.floor("C13.k", n, 1, "accumulations of the net-irrigation requirement in transpiration")


def rule_m(chk, prog):
    """C13.m (constant depth / interval / schedule / threshold apply nothing but their own depth): the planting-day refill of pre_irrigation is
    a feature of net irrigation alone - every store of pre_irrigation into the water content, and every non-zero definition of the returned
    depth, is unreachable once the edges on which `irrigation_method == 4` holds are removed (a guard `method < 4` lets method 5 in)."""
    from ..rdef import flow_of, ENTRY
    pi = prog.find_func("pre_irrigation")
    flow = flow_of(pi)
    cfg = flow.cfg
    where = f"{pi.module}:{pi.qualname}"
    chk.fn(pi.key)
    on = set()
    for t in cfg.live_nodes():
        c = t.ast
        if t.kind == "test" and isinstance(c, ast.Compare) and len(c.ops) == 1 and isinstance(c.comparators[0], ast.Constant) and c.comparators[0].value == 4 \
                and any(isinstance(x, ast.Attribute) and x.attr == "irrigation_method" for x in ast.walk(c.left)):
            if isinstance(c.ops[0], ast.Eq):
                on.add((t.id, True))
            elif isinstance(c.ops[0], ast.NotEq):
                on.add((t.id, False))
    # the returned depth: the plain locals of the return tuple (the state object is returned too; its stores are the `th` stores below)
    returned = {e.id for r in walk_no_nested(pi.node) if isinstance(r, ast.Return) and r.value is not None
                for e in (r.value.elts if isinstance(r.value, ast.Tuple) else [r.value]) if isinstance(e, ast.Name) and e.id not in pi.params}
    n = 0
    for k in cfg.live_nodes():
        a = k.ast
        if not isinstance(a, (ast.Assign, ast.AugAssign)):
            continue
        t = a.targets[0] if isinstance(a, ast.Assign) else a.target
        is_th = isinstance(t, ast.Subscript) and norm(t.value).split(".")[-1] == "th"
        is_depth = isinstance(t, ast.Name) and t.id in returned and not isinstance(a.value, (ast.Constant, ast.Name))
        if not (is_th or is_depth):
            continue
        n += 1
        construct = norm(a)[:90]
        if on and not cfg.reachable_without_edges(k.id, on):
            chk.ok("C13.m", where, construct, "only under irrigation_method == 4")
        else:
            chk.violation("C13.m", where, construct, "the planting-day refill can run for a strategy other than net irrigation: water enters the soil beyond the strategy's "
                          "own depth and is not reported in the daily irrigation", loc=pi.loc(a))
    chk.floor("C13.m", n, 2, "refill stores of pre_irrigation")


def run(chk, prog, tier):
    from ._timeunits import time_units
    from ..common import STEP_FN as _STEP, RESET_FN as _RESET
    chk.floor("C13.l", time_units(chk, prog, "C13.l", set(prog.reachable_from(_STEP)) | set(prog.reachable_from(_RESET)) | {_STEP}), 120,
              "expressions and stores carrying a time unit below the daily step and the season reset")
    # ------------------------------------------------------------ C13.j (what "growing season" means for C13.a: shared with C07.l)
    from .c07 import season_flag_guards
    season_flag_guards(chk, prog, "C13.j")
    rule_k(chk, prog)
    rule_m(chk, prog)
    # ------------------------------------------------------------ C13.a
    configs = [{}, {"IrrMngt.irrigation_method": 0}, {"IrrMngt.irrigation_method": 4}]
    irr_name, irrday_name = step_local(prog, "irr"), step_local(prog, "irr_day")
    res = batch(prog, configs, want_locals=[irr_name, irrday_name])
    loc = prog.func(STEP_FN).loc(row_writers(prog)["water_flux"])
    chk.fn(STEP_FN)
    def expect_zero(r, gs, name, label):
        parts = r.locals[gs]
        if not parts:
            chk.error(f"C13.a: no partition for {label}")
        for l in parts:
            v = l[name]
            construct = f"{name} | {label}"
            if is_zero(v):
                chk.ok("C13.a", STEP_FN, construct, f"constant {v}")
            else:
                chk.violation("C13.a", STEP_FN, construct, f"{name} is {v}, not the constant 0", loc=loc)
    expect_zero(res[0], False, irr_name, "growing_season=False (any method)")
    expect_zero(res[0], False, irrday_name, "growing_season=False (any method)")
    expect_zero(res[1], True, irr_name, "irrigation_method=0, growing_season=True")
    expect_zero(res[1], True, irrday_name, "irrigation_method=0, growing_season=True")
    expect_zero(res[2], True, irr_name, "irrigation_method=4, growing_season=True")
    for r in res:
        chk.valuation(str(r.config))

    # ------------------------------------------------------------ C13.b
    ctx = irrigation_context(chk, prog)
    fi, where, flow, cfg, params, step, call, formal_of = (ctx[k] for k in ("fi", "where", "flow", "cfg", "params", "step", "call", "formal_of"))
    f_max, f_season, f_cum, f_method = (formal_of[k] for k in ["MaxIrr", "MaxIrrSeason", "irr_cum", "irrigation_method"])
    irr, cum, subst, nf, ret_node = ctx["irr"], ctx["cum"], ctx["subst"], ctx["nf"], ctx["ret_node"]

    def def_stmt(d):
        return cfg.nodes[d].ast if d != ENTRY else None
    # (1) the clamp
    clamps = [n for n in walk_no_nested(fi.node) if isinstance(n, ast.Assign) and len(n.targets) == 1
              and isinstance(n.targets[0], ast.Name) and n.targets[0].id == irr and _is_max0_of(n.value, irr)]
    if len(clamps) != 1:
        chk.violation("C13.b", where, f"{irr} = max(0, {irr})", f"expected exactly one non-negativity clamp of {irr}, found {len(clamps)}",
                      loc=fi.loc())
        return
    clamp = clamps[0]
    clamp_node = flow.stmt_node[id(clamp)]
    # every definition reaching the clamp is literal 0 or min(daily max, .)
    n_defs = 0
    for d in flow.defs_reaching(irr, clamp_node):
        st = def_stmt(d)
        n_defs += 1
        ok = isinstance(st, ast.Assign) and (_is_zero_lit(st.value) or _is_min_with(st.value, f_max))
        construct = norm(st) if st is not None else f"{irr} (parameter)"
        if ok:
            chk.ok("C13.b", where, construct, "definition reaching the clamp is 0 or min(daily maximum, .)")
        else:
            chk.violation("C13.b", where, construct,
                          f"a definition of {irr} reaches the clamp without passing through min({f_max}, .): a single "
                          f"application may exceed the daily maximum", loc=fi.loc(st) if st is not None else fi.loc())
    chk.floor("C13.b-defs", n_defs, 6, "definitions of Irr reaching the clamp")

    # (2) the seasonal cap statement
    caps = ctx["caps"]
    if len(caps) != 1:
        chk.violation("C13.b", where, "seasonal cap", f"expected exactly one seasonal-cap statement on {irr}, found {len(caps)}", loc=fi.loc())
        return
    cap = caps[0]
    want_guard = add(add(nf.nf(ast.Name(id=cum)), nf.nf(ast.Name(id=irr))), nf.nf(ast.Name(id=f_season)), -1)   # Cum + Irr - Max  (> 0)
    g_ok = False
    t = cap.test
    if isinstance(t, ast.Compare) and len(t.ops) == 1:
        l, r = nf.nf(t.left), nf.nf(t.comparators[0])
        if isinstance(t.ops[0], ast.Gt):
            g_ok = equal(add(l, r, -1), want_guard)
        elif isinstance(t.ops[0], ast.Lt):
            g_ok = equal(add(r, l, -1), want_guard)
    a_ok = False
    v = cap.body[0].value
    arg = _max0_arg(v)
    if arg is not None:
        a_ok = equal(nf.nf(arg), add(nf.nf(ast.Name(id=f_season)), nf.nf(ast.Name(id=cum)), -1))
    construct = norm(cap)
    if g_ok and a_ok:
        chk.ok("C13.b", where, construct, "guard == (Cum + Irr > Max), assignment == max(0, Max - Cum): non-increasing and >= 0")
    else:
        chk.violation("C13.b", where, construct,
                      "the seasonal cap is not equivalent to `if Cum + Irr > Max: Irr = max(0, Max - Cum)` "
                      f"(guard ok={g_ok}, assignment ok={a_ok}): the season total may exceed the seasonal maximum", loc=fi.loc(cap))
    cap_test_node = flow.node_of(cap.test)
    # definitions of Irr reaching the cap: the clamp or an off-season literal 0
    for d in flow.defs_reaching(irr, cap_test_node):
        st = def_stmt(d)
        ok = st is clamp or (isinstance(st, ast.Assign) and _is_zero_lit(st.value))
        construct = f"def reaching the seasonal cap: {norm(st) if st is not None else 'parameter'}"
        if ok:
            chk.ok("C13.b", where, construct)
        else:
            chk.violation("C13.b", where, construct, f"a definition of {irr} bypasses the non-negativity clamp", loc=fi.loc(st) if st else fi.loc())

    counter_accumulation(chk, prog, "C13.b", ctx)

    # ------------------------------------------------------------ C13.c index spaces
    # Schedule read at the time-step counter
    sched_formal = formal_of.get("Schedule")
    tsc_formal = None
    for i, a in enumerate(call.args):
        if isinstance(a, ast.Attribute) and a.attr == "time_step_counter":
            tsc_formal = params[i]
    subs = [n for n in walk_no_nested(fi.node) if isinstance(n, ast.Subscript) and isinstance(n.value, ast.Name)
            and n.value.id == sched_formal]
    chk.floor("C13.c-schedule", len(subs), 1, "reads of the schedule array")
    for sname in subs:
        idx = sname.slice
        ok = False
        if isinstance(idx, ast.Name):
            if idx.id == tsc_formal:
                ok = True
            else:
                r = subst(idx)
                ok = isinstance(r, ast.Name) and r.id == tsc_formal
        construct = norm(sname)
        if ok:
            chk.ok("C13.c", where, construct, f"indexed by the time-step counter ({tsc_formal})")
        else:
            chk.violation("C13.c", where, construct, "the daily schedule (indexed by simulation day) is not read at the time-step counter",
                          loc=fi.loc(sname))
    # Schedule built on time_span in read_irrigation_management
    rim = prog.find_func("read_irrigation_management")
    chk.fn(rim.key)
    built = []
    for n in walk_no_nested(rim.node):
        if isinstance(n, ast.Call) and isinstance(n.func, ast.Attribute) and n.func.attr == "reindex" and n.args:
            built.append(("reindex", n.args[0]))
        if isinstance(n, ast.Call) and isinstance(n.func, ast.Attribute) and n.func.attr == "zeros" and n.args \
                and isinstance(n.args[0], ast.Call) and isinstance(n.args[0].func, ast.Name) and n.args[0].func.id == "len":
            built.append(("zeros(len)", n.args[0].args[0]))
    chk.floor("C13.c-built", len(built), 2, "constructions of the daily schedule")
    for kind, e in built:
        ok = isinstance(e, ast.Attribute) and e.attr == "time_span"
        construct = f"{kind}({norm(e)})"
        w = f"{rim.module}:{rim.qualname}"
        if ok:
            chk.ok("C13.c", w, construct, "daily schedule is laid out on ClockStruct.time_span")
        else:
            chk.violation("C13.c", w, construct, "the daily schedule is not laid out on the simulation's time span", loc=rim.loc(e))
    # growth stage set to 1 on day 1 before SMT is indexed
    smt_formal = formal_of.get("SMT")
    gs_formal = formal_of.get("growth_stage")
    dap_formal = formal_of.get("dap")
    smt_reads = [n for n in walk_no_nested(fi.node) if isinstance(n, ast.Subscript) and isinstance(n.value, ast.Name) and n.value.id == smt_formal]
    chk.floor("C13.c-smt", len(smt_reads), 1, "reads of the SMT thresholds")
    day1 = [n for n in walk_no_nested(fi.node) if isinstance(n, ast.If) and isinstance(n.test, ast.Compare)
            and isinstance(n.test.left, ast.Name) and n.test.left.id == dap_formal and isinstance(n.test.ops[0], ast.Eq)
            and isinstance(n.test.comparators[0], ast.Constant) and n.test.comparators[0].value == 1
            and any(isinstance(b, ast.Assign) and isinstance(b.targets[0], ast.Name) and b.targets[0].id == gs_formal
                    and isinstance(b.value, ast.Constant) and b.value.value == 1 for b in n.body)]
    for rd in smt_reads:
        construct = norm(rd)
        rd_node = flow.node_of(rd)
        ok = bool(day1) and all(flow.node_of(d.test) in cfg.dominators()[rd_node] for d in day1[:1])
        # index is int(growth_stage) - 1 (possibly through a temporary)
        idx = rd.slice
        if isinstance(idx, ast.Name):
            idx = subst(idx) or idx
        idx_ok = norm(idx).replace(" ", "") in (f"int({gs_formal})-1",)
        if ok and idx_ok:
            chk.ok("C13.c", where, construct, "index int(growth_stage)-1; growth stage forced to 1 when dap == 1 before the read")
        else:
            chk.violation("C13.c", where, construct,
                          "the threshold table is not indexed by int(growth_stage)-1 after the day-1 initialisation of the growth "
                          "stage (planting day would use the previous season's / a dummy stage)", loc=fi.loc(rd))

    # ------------------------------------------------------------ C13.d per-strategy parameters
    strat = {"SMT": 1, "IrrInterval": 2, "Schedule": 3, "depth": 5}
    for attr, m in strat.items():
        f = formal_of.get(attr)
        if f is None:
            chk.error(f"C13.d: the step no longer passes IrrMngt.{attr}")
            continue
        reads = [n for n in walk_no_nested(fi.node) if isinstance(n, ast.Name) and n.id == f and isinstance(n.ctx, ast.Load)]
        chk.floor(f"C13.d-{attr}", len(reads), 1, f"reads of {f}")
        for rd in reads:
            nid = flow.node_of(rd)
            deps = cfg.transitive_control_deps(nid)
            ok = False
            for tid, label in deps:
                tn = cfg.nodes[tid]
                if tn.kind == "test" and label is True and isinstance(tn.ast, ast.Compare) and isinstance(tn.ast.left, ast.Name) \
                        and tn.ast.left.id == f_method and isinstance(tn.ast.ops[0], ast.Eq) \
                        and isinstance(tn.ast.comparators[0], ast.Constant) and tn.ast.comparators[0].value == m:
                    ok = True
            construct = f"read of {f} at {norm(cfg.nodes[nid].ast)[:60]}"
            if ok:
                chk.ok("C13.d", where, construct, f"control dependent on {f_method} == {m}")
            else:
                chk.violation("C13.d", where, construct, f"parameter of strategy {m} is read outside the branch {f_method} == {m}", loc=fi.loc(rd))
    chk.assume("A-1")
    rule_e(chk, prog)
    rule_f(chk, prog)
    # C13.g: net-irrigation mode reports a non-negative requirement - structural half: each compartment is refilled towards its own layer's
    # threshold (rule C03.d restricted to transpiration)
    from .c03 import rule_d as own_thresholds
    own_thresholds(chk, prog, rule="C13.g", only={"transpiration"}, floor=1)
    rule_h(chk, prog)
    rule_i(chk, prog)
    chk.exhaustive = True



def irrigation_context(chk, prog):
    """anchors of `irrigation`: formals by role, the returned depth / counter locals, the clamp and the cap"""
    fi = _find_irrigation(prog)
    chk.fn(fi.key)
    where = f"{fi.module}:{fi.qualname}"
    flow = flow_of(fi)
    cfg = flow.cfg
    params = fi.params
    step = prog.func(STEP_FN)
    call = [c for c, t in prog.calls_in(step) if getattr(t, "key", None) == fi.key]
    if len(call) != 1:
        raise AnalysisError("expected exactly one call of irrigation() in the step")
    call = call[0]
    formal_of = {}
    for i, a in enumerate(call.args):
        if isinstance(a, ast.Attribute):
            formal_of[a.attr] = params[i]
    need = ["MaxIrr", "MaxIrrSeason", "irr_cum", "irrigation_method"]
    if any(k not in formal_of for k in need):
        raise AnalysisError(f"the step no longer passes {[k for k in need if k not in formal_of]} to irrigation()")
    ret = [n for n in walk_no_nested(fi.node) if isinstance(n, ast.Return)]
    if len(ret) != 1 or not isinstance(ret[0].value, ast.Tuple):
        raise AnalysisError("irrigation() no longer has a single tuple return")
    assign = [n for n in walk_no_nested(step.node) if isinstance(n, ast.Assign) and n.value is call]
    tg = assign[0].targets[0].elts if assign and isinstance(assign[0].targets[0], ast.Tuple) else []
    pos_cum = next((i for i, t in enumerate(tg) if isinstance(t, ast.Attribute) and t.attr == "irr_cum"), None)
    pos_irr = next((i for i, t in enumerate(tg) if isinstance(t, ast.Name)), None)
    if pos_cum is None or pos_irr is None:
        raise AnalysisError("cannot identify the returned irrigation depth / seasonal counter")
    r_irr, r_cum = ret[0].value.elts[pos_irr], ret[0].value.elts[pos_cum]
    if not (isinstance(r_irr, ast.Name) and isinstance(r_cum, ast.Name)):
        raise AnalysisError("returned depth / counter are not plain locals")
    irr, cum = r_irr.id, r_cum.id
    f_season = formal_of["MaxIrrSeason"]

    def subst(name_node):
        nid = flow.node_of(name_node)
        if nid is None:
            return None
        defs = flow.defs_reaching(name_node.id, nid)
        if len(defs) == 1 and defs[0] != ENTRY and name_node.id not in (irr, cum):
            st = cfg.nodes[defs[0]].ast
            if isinstance(st, ast.Assign) and len(st.targets) == 1 and isinstance(st.targets[0], ast.Name):
                return st.value
        return None
    caps = []
    for n in walk_no_nested(fi.node):
        if isinstance(n, ast.If) and not n.orelse and len(n.body) == 1 and isinstance(n.body[0], ast.Assign) \
                and len(n.body[0].targets) == 1 and isinstance(n.body[0].targets[0], ast.Name) \
                and n.body[0].targets[0].id == irr and _max0_arg(n.body[0].value) is not None \
                and not _is_max0_of(n.body[0].value, irr):
            caps.append(n)
    return dict(fi=fi, where=where, flow=flow, cfg=cfg, params=params, step=step, call=call, formal_of=formal_of,
                ret=ret[0], ret_node=flow.stmt_node[id(ret[0])], irr=irr, cum=cum, subst=subst, caps=caps, nf=NF(subst=subst))


def counter_accumulation(chk, prog, rule, ctx=None):
    """the seasonal counter is incremented after the cap, by the depth that is returned (C13.b / C06.c)"""
    ctx = ctx or irrigation_context(chk, prog)
    fi, where, flow, cfg, irr, cum, nf, ret_node = (ctx[k] for k in ("fi", "where", "flow", "cfg", "irr", "cum", "nf", "ret_node"))
    if len(ctx["caps"]) != 1:
        chk.violation(rule, where, "seasonal cap", f"expected exactly one seasonal-cap statement on {irr}, found {len(ctx['caps'])}", loc=fi.loc())
        return
    cap = ctx["caps"][0]
    cap_test_node = flow.node_of(cap.test)
    # (3) counter accumulation after the cap, by the returned Irr
    accs = [n for n in walk_no_nested(fi.node)
            if (isinstance(n, ast.Assign) and len(n.targets) == 1 and isinstance(n.targets[0], ast.Name) and n.targets[0].id == cum
                and not _is_zero_lit(n.value)) or (isinstance(n, ast.AugAssign) and isinstance(n.target, ast.Name) and n.target.id == cum)]
    if len(accs) != 1:
        chk.violation(rule, where, f"{cum} accumulation", f"expected exactly one accumulation of {cum}, found {len(accs)}", loc=fi.loc())
        return
    acc = accs[0]
    acc_node = flow.stmt_node[id(acc)]
    if isinstance(acc, ast.Assign):
        good_form = equal(nf.nf(acc.value), add(nf.nf(ast.Name(id=cum)), nf.nf(ast.Name(id=irr))))
    else:
        good_form = isinstance(acc.op, ast.Add) and equal(nf.nf(acc.value), nf.nf(ast.Name(id=irr)))
    d_acc = set(flow.defs_reaching(irr, acc_node))
    d_ret = set(flow.defs_reaching(irr, ret_node))
    d_cap_out = set(flow.defs_reaching_exit_of(irr, flow.stmt_node[id(cap.body[0])])) | set(flow.defs_reaching(irr, cap_test_node))
    cap_dom = cap_test_node in cfg.dominators()[acc_node]
    cum_ret = set(flow.defs_reaching(cum, ret_node))
    construct = norm(acc)
    problems = []
    if not good_form:
        problems.append("the counter is not incremented by exactly the day's depth")
    if not cap_dom:
        problems.append("the accumulation is not dominated by the seasonal cap")
    if d_acc != d_ret:
        problems.append("the depth added to the counter is not the depth that is returned")
    if not d_acc <= d_cap_out:
        problems.append("the depth added to the counter was not subject to the cap")
    if cum_ret != {acc_node}:
        problems.append("the returned counter is not the accumulated one")
    if problems:
        chk.violation(rule, where, construct, "; ".join(problems), loc=fi.loc(acc))
    else:
        chk.ok(rule, where, construct, "Cum' = Cum + Irr after the cap, with the returned Irr")



def _is_zero_lit(e):
    return isinstance(e, ast.Constant) and isinstance(e.value, (int, float)) and not isinstance(e.value, bool) and e.value == 0


def _max0_arg(e):
    if isinstance(e, ast.Call) and isinstance(e.func, ast.Name) and e.func.id == "max" and len(e.args) == 2 and not e.keywords:
        a, b = e.args
        if _is_zero_lit(a):
            return b
        if _is_zero_lit(b):
            return a
    return None


def _is_max0_of(e, name):
    a = _max0_arg(e)
    return isinstance(a, ast.Name) and a.id == name


def _is_min_with(e, name):
    return isinstance(e, ast.Call) and isinstance(e.func, ast.Name) and e.func.id == "min" and len(e.args) == 2 \
        and not e.keywords and any(isinstance(a, ast.Name) and a.id == name for a in e.args)
