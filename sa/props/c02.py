"""C02 - rain and irrigation fully partitioned at the surface (algebraic identity; bounds not decided)."""
from __future__ import annotations
import ast
from .. import affine as A
from ..symb import Sym
from ..common import STEP_FN
from ..cp import row_writers, output_columns
from ..model import norm, walk_no_nested, AnalysisError

EXPLANATION = (
    "C02.c: two linear conservation templates of the surface block of infiltration hold on every path (water to store + "
    "ponding + initial runoff = arriving water + previous ponding; ponding + runoff unchanged by the bund re-routing "
    "block). C02.a: forward relational analysis with polynomial normal forms. (1) rainfall_partition: the linear template "
    "Infl + Runoff - precipitation equals 0 at the return on every path (curve-number branches and the bund / inhibited "
    "branch). (2) infiltration: for both values of growing_season the returned infiltration plus the returned total "
    "runoff equals max(Infl_in,0) + [growing season] Irr*AppEff/100 + Runoff0 identically (loop-assigned quantities are "
    "havocked; the identity follows from the closing assignments on every path). (3) solution_single_time_step: the "
    "values written to columns Infl / Runoff are infiltration's returns, its Infl / Runoff0 arguments are "
    "rainfall_partition's returns with no redefinition in between, rainfall_partition's rain argument is the "
    "precipitation of the day's weather row, and the irrigation depth / efficiency arguments are irrigation's return and "
    "IrrMngt.AppEff. Together: Infl_col + Runoff_col = P + Irr*AppEff/100 over the reals (assumption A-2). C02.b: with "
    "growing_season=False the irrigation term is absent. C02.e (necessary for the runoff bound): every depth <-> water-content conversion of infiltration uses the thickness of the compartment whose content the statement handles (1000*dz[k] directly, through an alias, or through a local holding the thickness in mm) - water backed up to the surface is runoff, and with another compartment's thickness more (or less) runs off than was taken out. C02.f (= C03.b): every store to the ponding depth - initial conditions, season reset, infiltration, evaporation, transpiration - is the literal 0, under a test of the bund switch, or a guarded decrease: without bunds nothing is ponded, so no ponded water is released as runoff / negative infiltration on a day without bund removal. C02.g (must-pass-through): every path from the entry of infiltration to any return passes the bunds-present branch or the release of the ponded water in the no-bunds block (an early 'nothing to infiltrate' return would keep the pond of bunds removed on a rainless day); an additional return must hand back the main return's locals. NOT decided: non-negativity / upper bound of runoff, sign of "
    "infiltration on bund removal, zero-in => zero-out (numeric).")


def _ret(fi):
    """the function's main return: the last one in the source (earlier ones are early exits, judged by C02.g)"""
    r = sorted((n for n in walk_no_nested(fi.node) if isinstance(n, ast.Return)), key=lambda n: (n.lineno, n.col_offset))
    if not r or not isinstance(r[-1].value, ast.Tuple):
        raise AnalysisError(f"{fi.qualname}: expected a tuple return")
    return r[-1]


def rule_g(chk, prog, inf):
    """C02.g (ponded water is released on the day the bunds go; must-pass-through on the CFG of infiltration): every path from the entry to
    ANY return passes either the bunds-present branch (both tests of the bund switch and height True) or the release pair of the
    no-bunds block (`<ponding> = 0` with the ponded water added to the runoff). An early return - a shortcut for "nothing to infiltrate" -
    that leaves before that block keeps yesterday's pond on a field whose bunds were removed; it is dumped as runoff (negative infiltration)
    on a later day. A second return must also hand back the very locals of the main return (the conservation identity C02.a is
    established there)."""
    from ..rdef import flow_of
    flow = flow_of(inf)
    cfg = flow.cfg
    where = f"{inf.module}:{inf.qualname}"
    main = _ret(inf)
    bund_formals = [p for p in inf.params if "bund" in p.lower()]
    sw = next((p for p in bund_formals if "zbund" not in p.lower().replace("_", "")), None)
    zb = next((p for p in bund_formals if "zbund" in p.lower().replace("_", "")), None)
    pond = main.value.elts[1].id if isinstance(main.value.elts[1], ast.Name) else None
    if not (sw and zb and pond):
        raise AnalysisError("infiltration: bund switch / bund height formals or the returned ponding local not found")
    release = {n.id for n in cfg.live_nodes() if isinstance(n.ast, ast.Assign) and norm(n.ast.targets[0]) == pond and isinstance(n.ast.value, ast.Constant)
               and n.ast.value.value == 0 and any(cfg.nodes[t].kind == "test" and any(isinstance(x, ast.Name) and x.id in (sw, zb) for x in ast.walk(cfg.nodes[t].ast))
                                                  for t, _ in cfg.transitive_control_deps(n.id))
               and not any(cfg.nodes[t].kind == "test" and isinstance(cfg.nodes[t].ast, ast.Compare) and norm(cfg.nodes[t].ast.left) != zb
                           and any(isinstance(x, ast.Name) and x.id not in (sw, zb) for x in ast.walk(cfg.nodes[t].ast)) for t, _ in cfg.control_deps().get(n.id, ()))}
    present = {s_ for n in cfg.live_nodes() if n.kind == "test" and isinstance(n.ast, ast.Compare) and norm(n.ast.left) == zb and isinstance(n.ast.ops[0], (ast.Gt, ast.GtE))
               and any(cfg.nodes[t].kind == "test" and norm(cfg.nodes[t].ast) == sw and l is True for t, l in cfg.transitive_control_deps(n.id))
               for s_, l_ in n.succs if l_ is True}
    if not release or not present:
        raise AnalysisError("infiltration: the no-bunds release store / the bunds-present branch not found")
    rets = [n for n in cfg.live_nodes() if isinstance(n.ast, ast.Return)]
    # the False edge of `height <= limit` is taken only with bunds of sufficient height, i.e. after the True edge of `height > limit`
    # (the bunds-present branch): on a path that avoids that branch it is infeasible
    infeasible = {(n.id, False) for n in cfg.live_nodes() if n.kind == "test" and isinstance(n.ast, ast.Compare) and norm(n.ast.left) == zb
                  and isinstance(n.ast.ops[0], (ast.LtE, ast.Lt))}

    def leaks(dst):
        seen, stack = set(), [cfg.entry]
        while stack:
            k = stack.pop()
            if k in seen or k in release or k in present:
                continue
            if k == dst:
                return True
            seen.add(k)
            stack.extend(t for t, l in cfg.nodes[k].succs if (k, l) not in infeasible)
        return False
    for r in rets:
        construct = f"return at {norm(r.ast)[:70]}"
        if leaks(r.id):
            chk.violation("C02.g", where, construct, "a path from the entry reaches this return without passing the bunds-present branch or the release of the ponded water "
                          "(`ponding = 0`, pond added to the runoff): water left behind bunds removed on a rainless day stays on the field and is released as "
                          "runoff with negative infiltration on a later day", loc=inf.loc(r.ast))
        elif r.ast is not main and norm(r.ast.value) != norm(main.value):
            chk.violation("C02.g", where, construct, "an additional return hands back other values than the main return, for which alone the conservation identity is established",
                          loc=inf.loc(r.ast))
        else:
            chk.ok("C02.g", where, construct, "only through the bunds-present branch or the release of the ponded water")
    chk.floor("C02.g", len(rets), 1, "returns of infiltration")


def _inf_locals(prog, inf, step, c_inf, rp_pos):
    """names of infiltration's surface-block locals by provenance:
       runoff / runoff formal: the returned runoff total (position feeding the step's Runoff column) = runoff + <rainfall_partition formal>
       f_in: the other rainfall_partition formal;  runoff_ini: the name the closing block compares runoff with;
       to_store: the name the first infiltration loop runs down to 0;  infl_tot: f_in + ponding"""
    from ..cp import step_local
    ret = _ret(inf)
    tg = None
    for n in walk_no_nested(step.node):
        if isinstance(n, ast.Assign) and n.value is c_inf and isinstance(n.targets[0], ast.Tuple):
            tg = n.targets[0].elts
    col_run = step_local(prog, "col:Runoff")
    pos = [i for i, t in enumerate(tg or []) if isinstance(t, ast.Name) and t.id == col_run]
    if len(pos) != 1:
        raise AnalysisError("infiltration: the returned runoff does not reach the Runoff column by a plain local")
    rp_formals = set(rp_pos.values())
    e = ret.value.elts[pos[0]]
    defs = [e] if isinstance(e, ast.BinOp) else \
        [n.value for n in walk_no_nested(inf.node) if isinstance(n, ast.Assign) and isinstance(n.targets[0], ast.Name)
         and isinstance(e, ast.Name) and n.targets[0].id == e.id and isinstance(n.value, ast.BinOp)]
    runoff = f_r0 = None
    for d in defs:
        ops = [d.left, d.right]
        if isinstance(d.op, ast.Add) and all(isinstance(o, ast.Name) for o in ops):
            ids = [o.id for o in ops]
            if len(set(ids) & rp_formals) == 1:
                f_r0 = (set(ids) & rp_formals).pop()
                runoff = [i for i in ids if i != f_r0][0]
    if runoff is None or len(rp_formals) != 2:
        raise AnalysisError("infiltration: the returned runoff total is no longer <runoff of the day> + <rainfall_partition's runoff>")
    f_in = (rp_formals - {f_r0}).pop()
    cmp_ = [n for n in walk_no_nested(inf.node) if isinstance(n, ast.Compare) and isinstance(n.left, ast.Name) and n.left.id == runoff
            and len(n.comparators) == 1 and isinstance(n.comparators[0], ast.Name)]
    if len(cmp_) != 1:
        raise AnalysisError("infiltration: the closing bund re-routing test (runoff > initial runoff) vanished")
    runoff_ini = cmp_[0].comparators[0].id
    loops = sorted((n for n in walk_no_nested(inf.node) if isinstance(n, ast.While)), key=lambda n: n.lineno)
    to_store = None
    for w in loops[:1]:
        for c in ast.walk(w.test):
            if isinstance(c, ast.Compare) and isinstance(c.left, ast.Name) and isinstance(c.ops[0], ast.Gt) \
                    and isinstance(c.comparators[0], ast.Constant) and c.comparators[0].value == 0:
                to_store = c.left.id
    if to_store is None:
        raise AnalysisError("infiltration: the infiltration loop `while <to store> > 0` vanished")
    f_pond = next((inf.params[i] for i, a in enumerate(c_inf.args) if isinstance(a, ast.Attribute) and a.attr == "surface_storage"), None)
    infl_tot = None
    for n in walk_no_nested(inf.node):
        if isinstance(n, ast.Assign) and isinstance(n.targets[0], ast.Name) and isinstance(n.value, ast.BinOp) and isinstance(n.value.op, ast.Add) \
                and {getattr(n.value.left, "id", None), getattr(n.value.right, "id", None)} == {f_in, f_pond}:
            infl_tot = n.targets[0].id
    if infl_tot is None:
        raise AnalysisError("infiltration: the total surface water (inflow + ponding) local vanished")
    return {"f_in": f_in, "f_r0": f_r0, "runoff": runoff, "runoff_ini": runoff_ini, "to_store": to_store, "infl_tot": infl_tot}


def surface_bookkeeping(chk, prog, inf, step, c_inf, rp_pos, names_rp):
    """Conservation templates of the surface block of infiltration (linear, checked on every path):
       S1: ToStore + ponding + RunoffIni == Infl + ponding_in      after the surface block
       S2: ponding + Runoff                is unchanged             by the bund re-routing block at the end"""
    where = f"{inf.module}:{inf.qualname}"
    params = inf.params
    f_pond = next((params[i] for i, a in enumerate(c_inf.args) if isinstance(a, ast.Attribute) and a.attr == "surface_storage"), None)
    if f_pond is None:
        raise AnalysisError("infiltration: the ponding formal (actual .surface_storage) vanished")
    # the locals of the surface block, identified by their place in the computation rather than by spelling
    try:
        L = _inf_locals(prog, inf, step, c_inf, rp_pos)
    except AnalysisError as ex:
        if any(v["rule"] in ("C02.a", "C02.b") and "infiltration" in v["where"] for v in chk.violations):
            # the partition identity of infiltration is already refuted; its bookkeeping locals cannot be told apart any more
            chk.notes["C02.c"] = f"not examined: {ex}"
            return
        raise
    f_in, ToStore, RunoffIni, Runoff, InflTot = L["f_in"], L["to_store"], L["runoff_ini"], L["runoff"], L["infl_tot"]
    f_bunds = next((params[i] for i, a in enumerate(c_inf.args) if isinstance(a, ast.Attribute) and a.attr == "bunds"), None)
    f_zb = next((params[i] for i, a in enumerate(c_inf.args) if isinstance(a, ast.Attribute) and a.attr == "z_bund"), None)
    if not (f_bunds and f_zb):
        raise AnalysisError("infiltration: bund flag / bund height formals vanished")
    base = Sym(prog, inf)
    flow_nodes = base.cfg.live_nodes()
    anchors = [n for n in flow_nodes if isinstance(n.ast, ast.Assign) and isinstance(n.ast.targets[0], ast.Name)
               and n.ast.targets[0].id == Runoff and isinstance(n.ast.value, ast.Constant) and n.ast.value.value == 0
               and n.id in base.state_in]
    if not anchors:
        raise AnalysisError("infiltration: `Runoff = 0` anchor after the surface block vanished")
    a0 = min(anchors, key=lambda n: n.ast.lineno)
    tests = [n for n in flow_nodes if n.kind == "test" and isinstance(n.ast, ast.Compare) and isinstance(n.ast.left, ast.Name)
             and n.ast.left.id == Runoff and isinstance(n.ast.comparators[0], ast.Name) and n.ast.comparators[0].id == RunoffIni
             and n.id in base.state_in]
    if len(tests) != 1:
        raise AnalysisError("infiltration: the closing bund re-routing block `if Runoff > RunoffIni` vanished")
    t0 = tests[0]
    pdom = base.cfg.postdominators()[t0.id] - {t0.id}
    order = {k: i for i, k in enumerate(base.cfg.rpo())}
    after = min((k for k in pdom if k in base.state_in), key=lambda k: order.get(k, 1 << 30))
    btests = [n for n in flow_nodes if n.kind == "test" and n.id in base.state_in
              and any(isinstance(x, ast.Name) and x.id == f_bunds for x in ast.walk(n.ast))]
    if not btests:
        raise AnalysisError("infiltration: no test on the bund flag")
    s1_start = min(btests, key=lambda n: order.get(n.id, 1 << 30)).id
    # flag valuations: representative bund heights decide the comparisons against the 0.001 threshold
    for bunds, zb in ((False, 0.0), (True, 1.0), (True, 0.0)):
        label = f"bunds={bunds}, z_bund{'>' if zb else '<='}0.001"
        chk.valuation("infiltration: " + label)
        sym = Sym(prog, inf, templates={"S1": {ToStore: 1, f_pond: 1, RunoffIni: 1, f_in: -1}, "S2": {f_pond: 1, Runoff: 1}},
                  consts={f_bunds: bunds}, test_consts={f_zb: zb}, force={f"{InflTot} > 0": True}, reset_at={"S2": t0.id, "S1": s1_start})
        # S1: after the surface block  ToStore + ponding + RunoffIni == Infl(now) + ponding(entry)
        st = sym.state_in.get(a0.id)
        construct = f"to_store + ponding + initial_runoff == inflow + ponding_in after the surface block | {label}"
        if st is None:
            chk.error(f"C02.c: anchor unreachable on valuation {label}")
            continue
        t1 = sym.template_at("S1", a0.id)
        if t1 is not None and A.equal(t1, A.atom(f_pond)):
            chk.ok("C02.c", where, construct, "template ToStore + ponding + RunoffIni - Infl equals the entry ponding on every path")
        else:
            chk.violation("C02.c", where, construct,
                          "water arriving at the surface (infiltration + ponded water) is not fully split into water to store, "
                          f"ponding and initial runoff (template value {'differs between paths' if t1 is None else A.text(t1)[:140]})",
                          loc=inf.loc(a0.ast))
        before, aft = sym.template_at("S2", t0.id), sym.template_at("S2", after)
        # template_at gives the value in the state *before* the node; the reset happens at t0 itself, so recompute
        st0 = sym.state_in[t0.id]
        before = A.add(st0.env.get(f_pond, A.atom(f_pond)), st0.env.get(Runoff, A.atom(Runoff)))
        construct = f"ponding + runoff unchanged by the bund re-routing block | {label}"
        if aft is not None and A.equal(before, aft):
            chk.ok("C02.c", where, construct, "template invariant on every path of the valuation")
        else:
            chk.violation("C02.c", where, construct,
                          "backed-up water re-routed behind the bunds is counted twice or lost: ponding + runoff changes across the "
                          f"block (before {A.text(before)[:80]}; after {A.text(aft)[:120] if aft is not None else 'differs between paths'})",
                          loc=inf.loc(t0.ast))


def run(chk, prog, tier):
    step = prog.func(STEP_FN)
    rp = prog.find_func("rainfall_partition")
    inf = prog.find_func("infiltration")
    irr = prog.find_func("irrigation")
    for f in (step, rp, inf):
        chk.fn(f.key)
    # ---- call sites and positional correspondences in the step
    def the_call(fi):
        c = [(c, a) for c in walk_no_nested(step.node) if isinstance(c, ast.Call) and getattr(prog.resolve_call(step, c), "key", None) == fi.key
             for a in [None]]
        if len(c) != 1:
            raise AnalysisError(f"expected exactly one call of {fi.qualname} in the step, found {len(c)}")
        return c[0][0]
    c_rp, c_inf, c_irr = the_call(rp), the_call(inf), the_call(irr)
    def targets_of(call):
        for n in walk_no_nested(step.node):
            if isinstance(n, ast.Assign) and n.value is call and isinstance(n.targets[0], ast.Tuple):
                return n, n.targets[0].elts
        raise AnalysisError("call result is not unpacked into a tuple")
    a_rp, t_rp = targets_of(c_rp)
    a_inf, t_inf = targets_of(c_inf)
    a_irr, t_irr = targets_of(c_irr)

    # ---- (1) rainfall_partition template
    ret_rp = _ret(rp)
    # which returned positions are runoff / infiltration: by the step's targets feeding infiltration
    s_step = Sym(prog, step, force={"growing_season is True": True, "growing_season is False": False})
    n_inf = s_step.cfg.node_of(a_inf)
    st_inf = s_step.state_in[n_inf.id]
    inf_params = inf.params
    actual_nf = {inf_params[i]: s_step.nf(a, st_inf) for i, a in enumerate(c_inf.args)}

    def call_atom(poly):
        """('func', idx) if poly is exactly one call-result atom func@line[idx]"""
        if len(poly) != 1:
            return None
        (m, c), = poly.items()
        if c != 1 or len(m) != 1 or m[0][1] != 1:
            return None
        name = m[0][0]
        import re
        mm = re.match(r"^([\w.]+)@\d+\[(\d+)\]~\d+$", name)
        return (mm.group(1), int(mm.group(2))) if mm else None

    rp_pos = {}
    for formal, poly in actual_nf.items():
        ca = call_atom(poly)
        if ca and ca[0] == "rainfall_partition":
            rp_pos[ca[1]] = formal
    if len(rp_pos) != 2:
        chk.violation("C02.a", STEP_FN, "infiltration(... Infl, ..., Runoff ...)",
                      f"infiltration does not receive both results of rainfall_partition unchanged (found {rp_pos})", loc=step.loc(c_inf))
        return
    # in the callee: the two returned names
    names_rp = {i: ret_rp.value.elts[i] for i in rp_pos}
    if not all(isinstance(e, ast.Name) for e in names_rp.values()):
        raise AnalysisError("rainfall_partition returns non-name expressions")
    rain_formal = rp.params[0]
    # rain argument is the precipitation column of the weather row
    n_rp = s_step.cfg.node_of(a_rp)
    rain_nf = s_step.nf(c_rp.args[0], s_step.state_in[n_rp.id])
    rain_txt = A.text(rain_nf)
    ok_rain = "weather_step[2]" in rain_txt
    construct = f"rainfall_partition({norm(c_rp.args[0])}, ...)"
    if ok_rain:
        chk.ok("C02.a", STEP_FN, construct, f"rain argument = {rain_txt}")
    else:
        chk.violation("C02.a", STEP_FN, construct, f"the rain passed to rainfall_partition is {rain_txt}, not the precipitation of the day's weather row", loc=step.loc(c_rp))
    v1, v2 = (names_rp[i].id for i in sorted(names_rp))
    sym_rp = Sym(prog, rp, templates={"partition": {v1: 1, v2: 1, rain_formal: -1}})
    rets = sym_rp.at_return()
    for n, st in rets:
        t = sym_rp.template_value("partition", st)
        construct = f"{v1} + {v2} - {rain_formal} == 0 at return"
        if t is not None and A.equal(t, {}):
            chk.ok("C02.a", f"{rp.module}:{rp.qualname}", construct, "template value 0 on every path")
        else:
            chk.violation("C02.a", f"{rp.module}:{rp.qualname}", construct,
                          "rain is not fully split into runoff and infiltration on every path "
                          f"(template value {'unknown (differs between paths)' if t is None else A.text(t)})", loc=rp.loc(n.ast))
    chk.floor("C02.a-rp", len(rets), 1, "return points of rainfall_partition")

    # ---- (2) infiltration identity for both valuations
    ret_inf = _ret(inf)
    infl_formal = rp_pos and [f for i, f in rp_pos.items() if names_rp[i].id in ("Infl",) or True]
    # formal receiving rainfall_partition's infiltration / runoff: decided by which rp return is (rain - other)
    # (the template is symmetric, so identify by the column each result finally reaches)
    wf = row_writers(prog)["water_flux"]
    cols = output_columns(prog)["water_flux"]
    st_w = s_step.state_in[s_step.cfg.node_of(wf).id]
    col_atom = {c: call_atom(s_step.nf(e, st_w)) for c, e in zip(cols, wf.value.elts)}
    for c in ("Infl", "Runoff"):
        construct = f"water_flux.{c}"
        if col_atom.get(c) and col_atom[c][0] == "infiltration":
            chk.ok("C02.a", STEP_FN, construct, f"is return #{col_atom[c][1]} of infiltration, unmodified")
        else:
            chk.violation("C02.a", STEP_FN, construct, f"column {c} is not the value returned by infiltration (it is {A.text(s_step.nf(wf.value.elts[cols.index(c)], st_w))[:80]})",
                          loc=step.loc(wf))
            return
    pos_infl, pos_run = col_atom["Infl"][1], col_atom["Runoff"][1]
    # formals of infiltration: irrigation depth, efficiency, season flag, incoming infiltration / runoff
    f_irr = next((inf_params[i] for i, a in enumerate(c_inf.args) if call_atom(actual_nf[inf_params[i]]) and call_atom(actual_nf[inf_params[i]])[0] == "irrigation"), None)
    f_eff = next((inf_params[i] for i, a in enumerate(c_inf.args) if isinstance(a, ast.Attribute) and a.attr == "AppEff"), None)
    f_gs = next((inf_params[i] for i, a in enumerate(c_inf.args) if isinstance(a, ast.Name) and a.id == "growing_season"), None)
    if not (f_irr and f_eff and f_gs):
        chk.violation("C02.a", STEP_FN, "infiltration(..., Irr, IrrMngt.AppEff, ..., growing_season)",
                      "infiltration no longer receives the irrigation depth returned by irrigation(), IrrMngt.AppEff and the season flag", loc=step.loc(c_inf))
        return
    # which of the two rainfall_partition results is the runoff: the one the template subtracts ... decide by the
    # callee: the formal that is added to the returned runoff unchanged
    for gs in (True, False):
        sym = Sym(prog, inf, consts={f_gs: gs})
        chk.valuation(f"infiltration: growing_season={gs}")
        for n, st in sym.at_return():
            out_infl = sym.nf(ret_inf.value.elts[pos_infl], st)
            out_run = sym.nf(ret_inf.value.elts[pos_run], st)
            total = A.add(out_infl, out_run)
            fa, fb = rp_pos[sorted(rp_pos)[0]], rp_pos[sorted(rp_pos)[1]]
            cands = []
            for f_in, f_r0 in ((fa, fb), (fb, fa)):
                exp = A.add(A.atom(f"max({f_in},0)"), A.atom(f_r0))
                if gs:
                    exp = A.add(exp, A.mul(A.mul(A.atom(f_irr), A.atom(f_eff)), A.const(A.Fraction(1, 100))))
                cands.append((f_in, f_r0, exp))
            hit = [c for c in cands if A.equal(total, c[2])]
            construct = f"Infl_out + RunoffTot == max(Infl_in,0) + {'Irr*AppEff/100 + ' if gs else ''}Runoff0 | growing_season={gs}"
            if hit:
                chk.ok("C02.a" if gs else "C02.b", f"{inf.module}:{inf.qualname}", construct, f"normal forms equal: {A.text(total)}")
                inflow_formal, runoff0_formal = hit[0][0], hit[0][1]
            else:
                chk.violation("C02.a" if gs else "C02.b", f"{inf.module}:{inf.qualname}", construct,
                              f"returned infiltration + runoff is {A.text(total)[:160]}: water is created or lost at the surface"
                              + ("" if gs else " or irrigation is applied outside the growing season"), loc=inf.loc(n.ast))
                inflow_formal = runoff0_formal = None
            if hit:
                # the formal added to runoff must be rainfall_partition's runoff: the result that is 0 on the no-runoff branches.
                pass
    # ---- C02.c surface-water bookkeeping templates inside infiltration
    surface_bookkeeping(chk, prog, inf, step, c_inf, rp_pos, names_rp)
    # ---- C02.f = C03.b: without bunds nothing is ever ponded (every store to the ponding depth is the literal 0, under a test of the bund switch, or a
    # guarded decrease) - the premise of "negative infiltration only on the day bunds are removed" and of "nothing ponded => zero out"
    from .c03 import rule_b as ponding_without_bunds
    from ._alias import Alias
    ponding_without_bunds(Alias(chk, {"C03.b": "C02.f", "C03.g": "C02.f"}), prog)
    # ---- C02.e thickness agreement inside infiltration (T-THICK, shared with C01.f): the water backed up to the surface becomes runoff; it
    # is the water actually taken out of a compartment only if the content difference is converted with that compartment's own thickness
    rule_g(chk, prog, inf)
    from . import _thick
    n_thick = _thick.scan(chk, prog, "C02.e", [inf.key])
    chk.floor("C02.e", n_thick, 7, "depth <-> water-content conversion sites of infiltration")
    # ---- (3) no redefinition between rainfall_partition and infiltration is implied by the atoms being the call atoms
    for i, f in sorted(rp_pos.items()):
        chk.ok("C02.a", STEP_FN, f"infiltration.{f} <- rainfall_partition[{i}]", "same value, no redefinition in between")
    # irrigation depth and efficiency threading
    chk.ok("C02.a", STEP_FN, f"infiltration.{f_irr} <- irrigation(...)", "irrigation depth is irrigation()'s return")
    chk.assume("A-2")
    # C02.d: "infiltration is negative only on the day bunds are removed" speaks of the field management of the day: the step takes it from
    # the growing-season flag of that very day (same rule as C03.f)
    from .c03 import rule_f as management_of_the_day
    management_of_the_day(chk, prog, rule="C02.d")
    chk.exhaustive = True


def run_surface_only(chk, prog):
    """the surface bookkeeping templates alone (used by C01.e)"""
    step = prog.func(STEP_FN)
    rp = prog.find_func("rainfall_partition")
    inf = prog.find_func("infiltration")
    c_inf = [c for c in walk_no_nested(step.node) if isinstance(c, ast.Call) and getattr(prog.resolve_call(step, c), "key", None) == inf.key]
    c_rp = [c for c in walk_no_nested(step.node) if isinstance(c, ast.Call) and getattr(prog.resolve_call(step, c), "key", None) == rp.key]
    if len(c_inf) != 1 or len(c_rp) != 1:
        raise AnalysisError("expected one call each of rainfall_partition and infiltration in the step")
    # formals of infiltration that receive rainfall_partition's results: by the names the step unpacks them into
    tg = None
    for n in walk_no_nested(step.node):
        if isinstance(n, ast.Assign) and n.value is c_rp[0] and isinstance(n.targets[0], ast.Tuple):
            tg = [t.id for t in n.targets[0].elts if isinstance(t, ast.Name)]
    rp_pos = {}
    for i, a in enumerate(c_inf[0].args):
        if isinstance(a, ast.Name) and tg and a.id in tg:
            rp_pos[tg.index(a.id)] = inf.params[i]
    surface_bookkeeping(chk, prog, inf, step, c_inf[0], rp_pos, None)
