"""C11 - inputs are not consumed by a run."""
from __future__ import annotations
import ast
import re
from typing import Dict, List, Optional, Set, Tuple

from ..common import step_roles, init_roles, INIT_ROOT
from ..effects import stores
from ..model import norm, walk_no_nested, AnalysisError
from ..rdef import flow_of, ENTRY
from ._weather import window_selection

EXPLANATION = (
    "C11.a (who-may-write on user-owned objects): every store performed by initialisation or stepping (1 000+) is resolved to "
    "access paths; no store may reach an object handed in by the user (soil, crop, weather, irrigation / field "
    "management, groundwater, CO2, initial water content). The only exemption is the re-binding of the model's own weather attribute to "
    "the clip of the frame to the window (selection by Date masks, row order by an argsort of the Date column: idempotent, the user's frame "
    "is not written). The objects initialisation must write to - the crop (calendar conversion), the soil (profile deepening, compartment "
    "arrays) and the CO2 object (series, concentration in force) - enter only as deepcopy(self.<obj>), one private copy per initialisation; "
    "the others are handed on by reference and shown never to be written. C11.b (kind typestate): should a user attribute "
    "be overwritten after all, it must keep the interface the earlier reads of the same attribute rely on (a DataFrame is not "
    "replaced by an ndarray). C11.c (state on the model object): every attribute of the model object that a run writes "
    "(run_model or the step) and the step reads is assigned on every path of _initialize, so a second run of the same object "
    "does not start from what the first left. NOT decided: equality of the results of run 1 and run 2.")

IDEMPOTENT_OPS = {"ffill", "bfill", "round", "astype", "abs", "clip", "sort_values", "sort_index", "drop_duplicates", "fillna"}
NDARRAY_ATTRS = {"shape", "flatten", "copy", "astype", "size", "dtype", "T", "sum", "mean", "min", "max", "ravel", "reshape",
                 "tolist", "round", "cumsum", "fill", "ndim", "any", "all", "argmax", "argmin", "flat", "item"}

# path regex -> (reason, condition id)
SAFE_WRITES = [
    (r"^USER\.weather_df$", "the model's weather attribute is re-bound to its clip to the simulation window (selection by Date masks: idempotent; the user's frame is not written)", "weather"),
]


def _self_dependent(st_node: ast.AST, field: str, roles=None, fi=None, wpaths=None) -> Optional[ast.AST]:
    """does the stored value read the same field (same access path) it writes?  returns the reading node"""
    v = getattr(st_node, "value", None)
    if v is None:
        return None
    for sub in ast.walk(v):
        if isinstance(sub, ast.Attribute) and sub.attr == field and isinstance(sub.ctx, ast.Load):
            if roles is not None and wpaths:
                rp = roles.paths(fi, sub)
                if not (rp & set(wpaths)):
                    continue           # same attribute name on a different (or freshly built) object
            return sub
    return None


def _outer_ops(v: ast.AST) -> List[str]:
    """method names applied (outermost first) on the way down to the attribute read: x.a.f().g() -> [g, f]"""
    ops = []
    while True:
        if isinstance(v, ast.Call) and isinstance(v.func, ast.Attribute):
            ops.append(v.func.attr)
            v = v.func.value
        elif isinstance(v, ast.Call) and isinstance(v.func, ast.Name) and v.args:
            ops.append(v.func.id)
            v = v.args[0]
        else:
            break
    return ops


def user_object_stores(chk, prog, rule: str):
    """who-may-write on user-owned objects, shared by C11.a and C10.c: every store of initialisation and stepping is resolved to access
    paths; none may reach an object the user handed in, except the re-binding of the model's own weather attribute to the clipped frame.
    The objects initialisation has to write to (crop calendar, soil profile, CO2 series) are reached only through `deepcopy(self.<obj>)`."""
    total = nw = 0
    touched = {}
    for phase, roles in (("init", init_roles(prog)), ("step", step_roles(prog))):
        for key in sorted(roles.reached):
            fi = prog.funcs[key]
            where = f"{fi.module}:{fi.qualname}"
            for st in stores(prog, fi, roles):
                total += 1
                # 'X~' is a shallow copy of X: re-binding an attribute of the copy does not touch X (what is read from it does: sa/roles.py)
                hit = sorted(p for p in st.paths if p.startswith("USER.") and "~" not in p)
                if not hit:
                    continue
                chk.fn(key)
                nw += 1
                for p in hit:
                    obj = p.split(".")[1].split("[")[0]
                    entry = next(((rx, why, cond) for rx, why, cond in SAFE_WRITES if re.match(rx, p)), None)
                    if entry is None:
                        touched.setdefault(obj, []).append(st.text)
                        chk.violation(rule, where, st.text,
                                      f"{phase}: the user's `{obj}` object is modified through {p}: running again with the same object, or another model "
                                      "that shares it, does not start from what the user passed", loc=fi.loc(st.node))
                    else:
                        chk.ok(rule, where, st.text, f"{p}: {entry[1]}")
    chk.floor(rule, total, 300, "stores of initialisation and stepping classified by access path")
    chk.notes[rule + "_stores_reaching_user_objects"] = nw
    # how each user object enters initialisation
    ini = prog.func(INIT_ROOT)
    chk.fn(ini.key)
    where = f"{ini.module}:{ini.qualname}"
    user_attrs = sorted(a for a, r in __import__("sa.common", fromlist=["INIT_SELF"]).INIT_SELF.items() if any(x.startswith("USER.") for x in r)
                        and a not in ("sim_start_time", "sim_end_time", "off_season"))
    parents = {}
    for n in ast.walk(ini.node):
        for c in ast.iter_child_nodes(n):
            parents[id(c)] = n
    n_obj = 0
    for a in user_attrs:
        uses = [x for x in walk_no_nested(ini.node) if isinstance(x, ast.Attribute) and x.attr == a and isinstance(x.value, ast.Name) and x.value.id == "self"
                and isinstance(x.ctx, ast.Load)]
        if not uses:
            continue
        n_obj += 1
        copied = [u for u in uses if isinstance(parents.get(id(u)), ast.Call) and norm(parents[id(u)].func) in ("deepcopy", "copy.deepcopy")]
        construct = f"self.{a} in _initialize"
        if a in touched:
            continue        # reported above, store by store
        if len(copied) == len(uses):
            chk.ok(rule, where, construct, "reaches the model only as deepcopy(self.%s): a private copy per initialisation" % a)
        else:
            chk.ok(rule, where, construct, "handed on by reference; no store of initialisation or stepping reaches it")
    chk.floor(rule + "-objects", n_obj, 8, "user-supplied objects read by _initialize")


def rule_a(chk, prog):
    user_object_stores(chk, prog, "C11.a")
    window_selection(chk, prog, "C11.a")


def rule_b(chk, prog):
    """kind typestate of overwritten user attributes"""
    roles = init_roles(prog)
    n = 0
    for key in sorted(roles.reached):
        fi = prog.funcs[key]
        flow = flow_of(fi)
        for st in stores(prog, fi, roles):
            if st.kind != "attr" or not any(p.startswith("USER.") for p in st.paths):
                continue
            v = getattr(st.node, "value", None)
            if v is None:
                continue
            n += 1
            kind = _kind(v, fi, flow)
            if kind != "ndarray":
                chk.ok("C11.b", f"{fi.module}:{fi.qualname}", st.text, f"written value kind: {kind}", nontrivial=False)
                continue
            # interface required by reads of the same attribute (through .copy() aliases) anywhere in initialisation
            need = _interface(prog, roles, st.field, st.paths)
            bad = sorted(a for a in need if a not in NDARRAY_ATTRS)
            if bad:
                chk.violation("C11.b", f"{fi.module}:{fi.qualname}", st.text,
                              f"the user's attribute .{st.field} is replaced by a numpy array, but initialisation reads .{', .'.join(bad)} on it: "
                              "the next initialisation with the same object raises AttributeError", loc=fi.loc(st.node))
            else:
                chk.ok("C11.b", f"{fi.module}:{fi.qualname}", st.text, "array-valued rewrite; only array attributes are read")
    chk.notes["C11.b_attribute_rewrites_on_user_objects"] = n
    if n == 0:
        ini = prog.func(INIT_ROOT)
        chk.ok("C11.b", f"{ini.module}:{ini.qualname}", "attribute rewrites on user-owned objects", "none: no attribute of a user object is overwritten (see C11.a)")


def _kind(v: ast.AST, fi, flow) -> str:
    if isinstance(v, ast.Call):
        f = v.func
        name = f.attr if isinstance(f, ast.Attribute) else (f.id if isinstance(f, ast.Name) else "")
        if name in ("array", "zeros", "ones", "flatten", "asarray", "to_numpy", "arange", "full", "empty", "round_", "interp"):
            return "ndarray"
        if name in ("DataFrame", "reindex", "drop", "ffill", "copy", "query", "groupby", "mean", "read_csv"):
            return "frame"
        if name in ("Series",):
            return "series"
        return "other"
    if isinstance(v, ast.Attribute) and v.attr == "values":
        return "ndarray"
    if isinstance(v, ast.Name):
        nid = flow.node_of(v)
        ks = set()
        for d in (flow.defs_reaching(v.id, nid) if nid is not None else []):
            if d == ENTRY:
                ks.add("other")
                continue
            st = flow.cfg.nodes[d].ast
            ks.add(_kind(st.value, fi, flow) if isinstance(st, ast.Assign) and len(st.targets) == 1 else "other")
        return ks.pop() if len(ks) == 1 else "other"
    if isinstance(v, ast.Constant):
        return "scalar"
    return "other"


def _interface(prog, roles, field: str, paths: Set[str]) -> Set[str]:
    need: Set[str] = set()
    for key in roles.reached:
        fi = prog.funcs[key]
        flow = flow_of(fi)
        aliases: Set[str] = set()
        for n in walk_no_nested(fi.node):
            # x = <obj>.<field>  /  x = <obj>.<field>.copy()
            if isinstance(n, ast.Assign) and len(n.targets) == 1 and isinstance(n.targets[0], ast.Name):
                v = n.value
                if isinstance(v, ast.Call) and isinstance(v.func, ast.Attribute) and v.func.attr == "copy":
                    v = v.func.value
                if isinstance(v, ast.Attribute) and v.attr == field and any((p + "." + field) in paths for p in roles.paths(fi, v.value)):
                    aliases.add(n.targets[0].id)
        for n in walk_no_nested(fi.node):
            if isinstance(n, ast.Attribute) and isinstance(n.ctx, ast.Load):
                b = n.value
                if isinstance(b, ast.Attribute) and b.attr == field and any((p + "." + field) in paths for p in roles.paths(fi, b.value)):
                    need.add(n.attr)
                if isinstance(b, ast.Name) and b.id in aliases:
                    need.add(n.attr)
    return need


def rule_c(chk, prog):
    """state kept on the model object itself: an attribute of `self` that a run writes (run_model or the step) and that the step
    reads must be re-established by _initialize on every path - otherwise the second run of the same object starts from what the
    first run left (e.g. the 'process the outputs now' flag of run_model(num_steps=..., process_outputs=True))"""
    from ..common import RUN_ROOT, INIT_ROOT, STEP_ROOT
    from ..rdef import flow_of
    run_, ini, stp = prog.func(RUN_ROOT), prog.func(INIT_ROOT), prog.func(STEP_ROOT)
    def self_attr(n):
        return isinstance(n, ast.Attribute) and isinstance(n.value, ast.Name) and n.value.id == "self"
    def written(fi):
        out = {}
        for a in walk_no_nested(fi.node):
            ts = []
            if isinstance(a, ast.Assign):
                for t in a.targets:
                    ts += list(t.elts) if isinstance(t, ast.Tuple) else [t]
            elif isinstance(a, (ast.AugAssign, ast.AnnAssign)):
                ts = [a.target]
            for t in ts:
                if self_attr(t):
                    out.setdefault(t.attr, a)
        return out
    w_run = dict(written(stp))
    w_run.update(written(run_))
    r_step = {n.attr for n in walk_no_nested(stp.node) if self_attr(n) and isinstance(n.ctx, ast.Load)}
    carried = sorted(set(w_run) & r_step)
    chk.floor("C11.c", len(carried), 4, "model attributes written by a run and read by the step")
    flow = flow_of(ini)
    cfg = flow.cfg
    for f in carried:
        construct = f"self.{f} (written by a run, read by the step)"
        setters = {flow.stmt_node.get(id(a)) for a in walk_no_nested(ini.node)
                   if isinstance(a, (ast.Assign, ast.AugAssign, ast.AnnAssign)) and any(
                       self_attr(t) and t.attr == f for tt in (a.targets if isinstance(a, ast.Assign) else [a.target])
                       for t in (tt.elts if isinstance(tt, ast.Tuple) else [tt]))}
        setters.discard(None)
        if not setters:
            chk.violation("C11.c", f"{ini.module}:{ini.qualname}", construct,
                          f"_initialize never assigns self.{f}: a second run of the same model object starts from the value the first run left",
                          loc=run_.loc(w_run[f]))
            continue
        # every path through _initialize passes a setter
        if cfg.paths_exist_avoiding(cfg.entry, cfg.exit, setters):
            chk.violation("C11.c", f"{ini.module}:{ini.qualname}", construct, f"self.{f} is re-established on some paths of _initialize only", loc=ini.loc())
        else:
            chk.ok("C11.c", f"{ini.module}:{ini.qualname}", construct, "assigned on every path of _initialize")
    chk.fn(ini.key); chk.fn(run_.key); chk.fn(stp.key)


def run(chk, prog, tier):
    rule_a(chk, prog)
    rule_b(chk, prog)
    rule_c(chk, prog)
    chk.assume("A-10")
    chk.exhaustive = True
