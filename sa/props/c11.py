"""C11 - inputs are not consumed by a run."""
from __future__ import annotations
import ast
import re
from typing import Dict, List, Optional, Set, Tuple

from ..common import step_roles, init_roles, INIT_ROOT
from ..effects import stores
from ..model import norm, walk_no_nested, AnalysisError
from ..rdef import flow_of, ENTRY
from ._weather import window_selection

EXPLANATION = (
    "C11.a (who-may-write on user-owned objects): every store performed by initialisation or stepping is resolved to "
    "access paths; a store that reaches an object handed in by the user (soil, crop, weather, irrigation / field "
    "management, groundwater, CO2, initial water content) must be one of the enumerated re-initialisation-safe "
    "rewrites, each with a structural condition that is re-checked: the weather frame is replaced by its clip to the "
    "window (selection by Date masks: idempotent); Soil.fill_nan only applies idempotent operators to what it rewrites; "
    "the profile-deepening loop is a fix-point loop whose guard reads what the body changes; derived soil / CO2 fields "
    "are recomputed from other fields (no self-dependence); CO2.current_concentration is read only under "
    "constant_conc is True, where it is written back unchanged or as a stabilising default. Crop, management, "
    "groundwater and initial-water-content objects are not written at all. C11.b (kind typestate): a user attribute "
    "that is overwritten must keep the interface the earlier reads of the same attribute rely on (a DataFrame is not "
    "replaced by an ndarray). C11.c (state on the model object): every attribute of the model object that a run writes "
    "(run_model or the step) and the step reads is assigned on every path of _initialize, so a second run of the same object "
    "does not start from what the first left. NOT decided: equality of the results of run 1 and run 2.")

IDEMPOTENT_OPS = {"ffill", "bfill", "round", "astype", "abs", "clip", "sort_values", "sort_index", "drop_duplicates", "fillna"}
NDARRAY_ATTRS = {"shape", "flatten", "copy", "astype", "size", "dtype", "T", "sum", "mean", "min", "max", "ravel", "reshape",
                 "tolist", "round", "cumsum", "fill", "ndim", "any", "all", "argmax", "argmin", "flat", "item"}

# path regex -> (reason, condition id)
SAFE_WRITES = [
    (r"^USER\.weather_df$", "replaced by its clip to the simulation window (idempotent)", "weather"),
    (r"^USER\.soil\.(profile|zSoil|nComp)(\.|\[|$)", "Soil.fill_nan / deepening / initial-conditions columns", "soil_profile"),
    (r"^USER\.soil\.(rew|cn)$", "recomputed from the profile / literals", "not_self"),
    (r"^USER\.soil\.Hydrology(\.|\[|$)", "per-layer summary recomputed from the profile", "not_self"),
    (r"^USER\.soil\.Profile(\.|\[|$)", "SoilProfile arrays rebuilt from the profile frame", "not_self"),
    (r"^USER\.co2_concentration\.co2_data_processed$", "interpolated from co2_data and the simulation years", "not_self"),
    (r"^USER\.co2_concentration\.current_concentration$", "written back unchanged / stabilising default under constant_conc", "co2_current"),
]


def _self_dependent(st_node: ast.AST, field: str, roles=None, fi=None, wpaths=None) -> Optional[ast.AST]:
    """does the stored value read the same field (same access path) it writes?  returns the reading node"""
    v = getattr(st_node, "value", None)
    if v is None:
        return None
    for sub in ast.walk(v):
        if isinstance(sub, ast.Attribute) and sub.attr == field and isinstance(sub.ctx, ast.Load):
            if roles is not None and wpaths:
                rp = roles.paths(fi, sub)
                if not (rp & set(wpaths)):
                    continue           # same attribute name on a different (or freshly built) object
            return sub
    return None


def _outer_ops(v: ast.AST) -> List[str]:
    """method names applied (outermost first) on the way down to the attribute read: x.a.f().g() -> [g, f]"""
    ops = []
    while True:
        if isinstance(v, ast.Call) and isinstance(v.func, ast.Attribute):
            ops.append(v.func.attr)
            v = v.func.value
        elif isinstance(v, ast.Call) and isinstance(v.func, ast.Name) and v.args:
            ops.append(v.func.id)
            v = v.args[0]
        else:
            break
    return ops


def rule_a(chk, prog):
    used = set()
    nw = 0
    co2_sites = []
    for phase, roles in (("init", init_roles(prog)), ("step", step_roles(prog))):
        for key in sorted(roles.reached):
            fi = prog.funcs[key]
            where = f"{fi.module}:{fi.qualname}"
            for st in stores(prog, fi, roles):
                hit = sorted(p for p in st.paths if p.startswith("USER."))
                if not hit:
                    continue
                chk.fn(key)
                nw += 1
                for p in hit:
                    entry = next(((rx, why, cond) for rx, why, cond in SAFE_WRITES if re.match(rx, p)), None)
                    if entry is None:
                        obj = p.split(".")[1].split("[")[0]
                        chk.violation("C11.a", where, st.text,
                                      f"{phase}: the user's `{obj}` object is modified through {p}; running again with the same object does not "
                                      "start from what the user passed", loc=fi.loc(st.node))
                        continue
                    rx, why, cond = entry
                    used.add(rx)
                    ok, detail = True, why
                    if cond == "not_self":
                        f = p.rsplit(".", 1)[-1].split("[")[0]
                        rd = _self_dependent(st.node, f, roles, fi, st.paths)
                        if rd is not None:
                            ok, detail = False, f"the rewritten field is computed from its own previous value ({norm(rd)})"
                    elif cond == "soil_profile":
                        f = st.field or p.rsplit(".", 1)[-1].split("[")[0]
                        rd = _self_dependent(st.node, f, roles, fi, st.paths) if st.kind == "attr" else None
                        if isinstance(st.node, ast.AugAssign):
                            # only inside the fix-point loop (checked below)
                            ok = fi.name == "read_model_parameters"
                            detail = "augmented update inside the profile-deepening fix-point loop" if ok else "in-place arithmetic on the user's soil profile"
                        elif rd is not None:
                            ops = _outer_ops(st.node.value)
                            if not ops or ops[0] not in IDEMPOTENT_OPS:
                                # a recomputation from *another* column (dz -> dzsum) is fine; the same column needs an idempotent operator
                                tgt_col = norm(st.node.targets[0]) if isinstance(st.node, ast.Assign) else ""
                                if norm(rd) == tgt_col or not ops:
                                    ok, detail = False, f"self-dependent rewrite `{norm(st.node.value)[:60]}` is not an idempotent operator"
                    elif cond == "co2_current":
                        co2_sites.append((fi, st))
                    if ok:
                        chk.ok("C11.a", where, st.text, f"{p}: {detail}")
                    else:
                        chk.violation("C11.a", where, st.text, f"{p}: {detail}: re-initialising with the same object gives different values", loc=fi.loc(st.node))
    chk.floor("C11.a", nw, 20, "stores reaching user-owned objects")
    # ---- conditions checked once
    window_selection(chk, prog, "C11.a")
    # deepening loop is a fix-point idiom
    rmp = prog.find_func("read_model_parameters")
    loops = [n for n in walk_no_nested(rmp.node) if isinstance(n, ast.While)]
    ok = False
    for lp in loops:
        reads = {x.attr for x in ast.walk(lp.test) if isinstance(x, ast.Attribute)}
        body_calls = {c.func.attr for c in ast.walk(lp) if isinstance(c, ast.Call) and isinstance(c.func, ast.Attribute)}
        if "zSoil" in reads and "fill_nan" in body_calls:
            fn = prog.cls("Soil").methods.get("fill_nan")
            sets_z = fn is not None and any(isinstance(a, ast.Assign) and isinstance(a.targets[0], ast.Attribute) and a.targets[0].attr == "zSoil"
                                            for a in walk_no_nested(fn.node))
            ok = sets_z
    if ok:
        chk.ok("C11.a", f"{rmp.module}:{rmp.qualname}", "while soil.zSoil < crop.Zmax + 0.1: ... fill_nan()", "fix-point loop: the guard re-reads the depth the body increases")
    else:
        chk.violation("C11.a", f"{rmp.module}:{rmp.qualname}", "profile deepening loop", "the loop that deepens the user's soil profile is no longer guarded by the depth it changes", loc=rmp.loc())
    # CO2.current_concentration: reads only under constant_conc is True; written value is the read value or a default
    nreads = 0
    from ..common import RESET_FN
    for roles in (init_roles(prog), step_roles(prog)):
        for key in sorted(roles.reached):
            fi = prog.funcs[key]
            if roles is not init_roles(prog) and key != RESET_FN:
                continue        # daily reads see the value this run's own initialisation / season reset wrote
            flow = flow_of(fi)
            for n in walk_no_nested(fi.node):
                if isinstance(n, ast.Attribute) and n.attr == "current_concentration" and isinstance(n.ctx, ast.Load):
                    ps = roles.paths(fi, n.value)
                    if not any(p in ("USER.co2_concentration", "PARAM.CO2") for p in ps):
                        continue
                    nid = flow.node_of(n)
                    if nid is None:
                        continue
                    # a read that follows a write of the same field in the same function sees the model's own value
                    wr = [a for a in walk_no_nested(fi.node) if isinstance(a, ast.Assign) and isinstance(a.targets[0], ast.Attribute)
                          and a.targets[0].attr == "current_concentration" and flow.stmt_node.get(id(a)) in flow.cfg.dominators()[nid]
                          and flow.stmt_node.get(id(a)) != nid]
                    if wr:
                        continue
                    nreads += 1
                    deps = {(norm(flow.cfg.nodes[t].ast), l) for t, l in flow.cfg.transitive_control_deps(nid) if flow.cfg.nodes[t].kind == "test"}
                    guarded = any(t.endswith(".constant_conc is True") and l is True for t, l in deps)
                    construct = f"read of CO2.current_concentration in `{norm(flow.cfg.nodes[nid].ast)[:60]}`"
                    where = f"{fi.module}:{fi.qualname}"
                    if guarded:
                        chk.ok("C11.a", where, construct, "only when the user asked for a constant concentration")
                    else:
                        chk.violation("C11.a", where, construct,
                                      "the model overwrites CO2.current_concentration at every season start and reads it back here without "
                                      "the constant_conc guard: a second run starts from the first run's last concentration", loc=fi.loc(n))
    chk.floor("C11.a-co2", nreads, 4, "guarded reads of CO2.current_concentration")
    stale = [rx for rx, _, _ in SAFE_WRITES if rx not in used]
    if stale:
        chk.notes["stale_safe_write_entries"] = stale


def rule_b(chk, prog):
    """kind typestate of overwritten user attributes"""
    roles = init_roles(prog)
    n = 0
    for key in sorted(roles.reached):
        fi = prog.funcs[key]
        flow = flow_of(fi)
        for st in stores(prog, fi, roles):
            if st.kind != "attr" or not any(p.startswith("USER.") for p in st.paths):
                continue
            v = getattr(st.node, "value", None)
            if v is None:
                continue
            n += 1
            kind = _kind(v, fi, flow)
            if kind != "ndarray":
                chk.ok("C11.b", f"{fi.module}:{fi.qualname}", st.text, f"written value kind: {kind}", nontrivial=False)
                continue
            # interface required by reads of the same attribute (through .copy() aliases) anywhere in initialisation
            need = _interface(prog, roles, st.field, st.paths)
            bad = sorted(a for a in need if a not in NDARRAY_ATTRS)
            if bad:
                chk.violation("C11.b", f"{fi.module}:{fi.qualname}", st.text,
                              f"the user's attribute .{st.field} is replaced by a numpy array, but initialisation reads .{', .'.join(bad)} on it: "
                              "the next initialisation with the same object raises AttributeError", loc=fi.loc(st.node))
            else:
                chk.ok("C11.b", f"{fi.module}:{fi.qualname}", st.text, "array-valued rewrite; only array attributes are read")
    chk.floor("C11.b", n, 5, "attribute rewrites on user-owned objects")


def _kind(v: ast.AST, fi, flow) -> str:
    if isinstance(v, ast.Call):
        f = v.func
        name = f.attr if isinstance(f, ast.Attribute) else (f.id if isinstance(f, ast.Name) else "")
        if name in ("array", "zeros", "ones", "flatten", "asarray", "to_numpy", "arange", "full", "empty", "round_", "interp"):
            return "ndarray"
        if name in ("DataFrame", "reindex", "drop", "ffill", "copy", "query", "groupby", "mean", "read_csv"):
            return "frame"
        if name in ("Series",):
            return "series"
        return "other"
    if isinstance(v, ast.Attribute) and v.attr == "values":
        return "ndarray"
    if isinstance(v, ast.Name):
        nid = flow.node_of(v)
        ks = set()
        for d in (flow.defs_reaching(v.id, nid) if nid is not None else []):
            if d == ENTRY:
                ks.add("other")
                continue
            st = flow.cfg.nodes[d].ast
            ks.add(_kind(st.value, fi, flow) if isinstance(st, ast.Assign) and len(st.targets) == 1 else "other")
        return ks.pop() if len(ks) == 1 else "other"
    if isinstance(v, ast.Constant):
        return "scalar"
    return "other"


def _interface(prog, roles, field: str, paths: Set[str]) -> Set[str]:
    need: Set[str] = set()
    for key in roles.reached:
        fi = prog.funcs[key]
        flow = flow_of(fi)
        aliases: Set[str] = set()
        for n in walk_no_nested(fi.node):
            # x = <obj>.<field>  /  x = <obj>.<field>.copy()
            if isinstance(n, ast.Assign) and len(n.targets) == 1 and isinstance(n.targets[0], ast.Name):
                v = n.value
                if isinstance(v, ast.Call) and isinstance(v.func, ast.Attribute) and v.func.attr == "copy":
                    v = v.func.value
                if isinstance(v, ast.Attribute) and v.attr == field and any((p + "." + field) in paths for p in roles.paths(fi, v.value)):
                    aliases.add(n.targets[0].id)
        for n in walk_no_nested(fi.node):
            if isinstance(n, ast.Attribute) and isinstance(n.ctx, ast.Load):
                b = n.value
                if isinstance(b, ast.Attribute) and b.attr == field and any((p + "." + field) in paths for p in roles.paths(fi, b.value)):
                    need.add(n.attr)
                if isinstance(b, ast.Name) and b.id in aliases:
                    need.add(n.attr)
    return need


def rule_c(chk, prog):
    """state kept on the model object itself: an attribute of `self` that a run writes (run_model or the step) and that the step
    reads must be re-established by _initialize on every path - otherwise the second run of the same object starts from what the
    first run left (e.g. the 'process the outputs now' flag of run_model(num_steps=..., process_outputs=True))"""
    from ..common import RUN_ROOT, INIT_ROOT, STEP_ROOT
    from ..rdef import flow_of
    run_, ini, stp = prog.func(RUN_ROOT), prog.func(INIT_ROOT), prog.func(STEP_ROOT)
    def self_attr(n):
        return isinstance(n, ast.Attribute) and isinstance(n.value, ast.Name) and n.value.id == "self"
    def written(fi):
        out = {}
        for a in walk_no_nested(fi.node):
            ts = []
            if isinstance(a, ast.Assign):
                for t in a.targets:
                    ts += list(t.elts) if isinstance(t, ast.Tuple) else [t]
            elif isinstance(a, (ast.AugAssign, ast.AnnAssign)):
                ts = [a.target]
            for t in ts:
                if self_attr(t):
                    out.setdefault(t.attr, a)
        return out
    w_run = dict(written(stp))
    w_run.update(written(run_))
    r_step = {n.attr for n in walk_no_nested(stp.node) if self_attr(n) and isinstance(n.ctx, ast.Load)}
    carried = sorted(set(w_run) & r_step)
    chk.floor("C11.c", len(carried), 4, "model attributes written by a run and read by the step")
    flow = flow_of(ini)
    cfg = flow.cfg
    for f in carried:
        construct = f"self.{f} (written by a run, read by the step)"
        setters = {flow.stmt_node.get(id(a)) for a in walk_no_nested(ini.node)
                   if isinstance(a, (ast.Assign, ast.AugAssign, ast.AnnAssign)) and any(
                       self_attr(t) and t.attr == f for tt in (a.targets if isinstance(a, ast.Assign) else [a.target])
                       for t in (tt.elts if isinstance(tt, ast.Tuple) else [tt]))}
        setters.discard(None)
        if not setters:
            chk.violation("C11.c", f"{ini.module}:{ini.qualname}", construct,
                          f"_initialize never assigns self.{f}: a second run of the same model object starts from the value the first run left",
                          loc=run_.loc(w_run[f]))
            continue
        # every path through _initialize passes a setter
        if cfg.paths_exist_avoiding(cfg.entry, cfg.exit, setters):
            chk.violation("C11.c", f"{ini.module}:{ini.qualname}", construct, f"self.{f} is re-established on some paths of _initialize only", loc=ini.loc())
        else:
            chk.ok("C11.c", f"{ini.module}:{ini.qualname}", construct, "assigned on every path of _initialize")
    chk.fn(ini.key); chk.fn(run_.key); chk.fn(stp.key)


def run(chk, prog, tier):
    rule_a(chk, prog)
    rule_b(chk, prog)
    rule_c(chk, prog)
    chk.assume("A-10")
    chk.exhaustive = True
