"""Time units (T-TIME): the model keeps three kinds of "time since planting":

  DAYS  calendar days                      dap, delayed_cds, age_days, age_days_ns, every crop stage with the suffix CD (MaxCanopyCD ...)
  GDD   growing degree days                gdd_cum, delayed_gdds, the day's degree days `gdd`
  CAL   the crop calendar's own unit       the unsuffixed crop stages (Emergence, MaxCanopy, Senescence, Maturity, HIstart ...):
                                           calendar days when CalendarType == 1, degree days when CalendarType == 2

For each calendar type c in {1, 2} every expression is given the set of kinds it can have under c (CAL reads as DAYS under 1 and as
GDD under 2; a local takes the kinds of its reaching definitions, leaving out definitions made under the other calendar type; a
conditional expression on CalendarType contributes the arm of c; multiplication / division by a literal keeps the kind, any other
arithmetic drops it).  Reported, under the calendar type(s) in which the statement can run:

  * an addition, subtraction or ordering comparison whose operands are DAYS on one side and GDD on the other;
  * a DAYS quantity of the state (`age_days`, `delayed_cds`, ...) assigned a GDD value, or a GDD quantity a DAYS value.

The kinds are decided by name (attribute or the tail of a flattened formal such as NewCond_DelayedCDs): the repository's naming is
systematic for these quantities, and the tables below are the complete list."""
from __future__ import annotations
import ast
import re
from typing import Dict, Optional, Set

from ..model import norm, walk_no_nested
from ..rdef import flow_of, ENTRY

DAYS_NAMES = {"dap", "delayedcds", "agedays", "agedaysns"}
GDD_NAMES = {"gddcum", "delayedgdds", "gdd"}
CAL_STAGES = {"Emergence", "MaxCanopy", "CanopyDevEnd", "Senescence", "Maturity", "HIstart", "HIend", "YldForm", "Canopy10Pct",
              "MaxRooting", "FloweringEnd", "Flowering"}
_PREFIX = re.compile(r"^(newcond|initcond|init_cond|crop)_", re.I)


def _name_kind(name: str) -> Optional[str]:
    base = _PREFIX.sub("", name)
    key = re.sub(r"[^a-z0-9]", "", base.lower())
    if key in DAYS_NAMES:
        return "DAYS"
    if key in GDD_NAMES:
        return "GDD"
    if base in CAL_STAGES:
        return "CAL"
    if base.endswith("CD") and base[:-2] in CAL_STAGES:
        return "DAYS"
    return None


class Units:
    def __init__(self, fi):
        self.fi = fi
        self.flow = flow_of(fi)
        self.cfg = self.flow.cfg
        self._ctx: Dict[int, Optional[int]] = {}

    def ctx_of(self, nid: Optional[int]) -> Optional[int]:
        """calendar type under which cfg node nid runs (1, 2) or None"""
        if nid is None:
            return None
        if nid in self._ctx:
            return self._ctx[nid]
        out = None
        # the nearest test on CalendarType decides (a farther one may lie on another disjunct's path)
        cd = self.cfg.control_deps()
        seen, level = set(), [nid]
        while level and out is None:
            nxt = []
            for k in level:
                for t, lab in cd.get(k, ()):
                    if (t, lab) in seen:
                        continue
                    seen.add((t, lab))
                    v = _caltype_test(self.cfg.nodes[t].ast) if self.cfg.nodes[t].kind == "test" else None
                    if v is not None and lab is True:
                        out = v
                    elif v in (1, 2) and lab is False and out is None:
                        out = 3 - v
                    nxt.append(t)
            level = nxt
        self._ctx[nid] = out
        return out

    def kinds(self, e: ast.AST, at: Optional[int], c: int, depth: int = 0) -> Set[str]:
        if isinstance(e, ast.Constant):
            return set()
        if isinstance(e, ast.Attribute):
            k = _name_kind(e.attr)
            return {("DAYS" if c == 1 else "GDD") if k == "CAL" else k} if k else set()
        if isinstance(e, ast.Name):
            k = _name_kind(e.id)
            if k and (e.id in self.fi.params):
                return {("DAYS" if c == 1 else "GDD") if k == "CAL" else k}
            out: Set[str] = set()
            if at is None or depth > 6:
                return out
            for d in self.flow.defs_reaching(e.id, at):
                if d == ENTRY:
                    if k:
                        out.add(("DAYS" if c == 1 else "GDD") if k == "CAL" else k)
                    continue
                dc = self.ctx_of(d)
                if dc is not None and dc != c:
                    continue
                a = self.cfg.nodes[d].ast
                v = getattr(a, "value", None)
                if isinstance(a, ast.Assign) and v is not None and len(a.targets) == 1 and isinstance(a.targets[0], ast.Name):
                    out |= self.kinds(v, d, c, depth + 1)
                elif isinstance(a, ast.AugAssign) and isinstance(a.op, (ast.Add, ast.Sub)):
                    out |= self.kinds(a.value, d, c, depth + 1)
            return out
        if isinstance(e, ast.IfExp):
            v = _caltype_test(e.test)
            if v in (1, 2):
                return self.kinds(e.body if v == c else e.orelse, at, c, depth + 1)
            return self.kinds(e.body, at, c, depth + 1) | self.kinds(e.orelse, at, c, depth + 1)
        if isinstance(e, ast.BinOp):
            if isinstance(e.op, (ast.Add, ast.Sub)):
                return self.kinds(e.left, at, c, depth + 1) | self.kinds(e.right, at, c, depth + 1)
            if isinstance(e.op, (ast.Mult, ast.Div)):
                if isinstance(e.right, ast.Constant):
                    return self.kinds(e.left, at, c, depth + 1)
                if isinstance(e.left, ast.Constant) and isinstance(e.op, ast.Mult):
                    return self.kinds(e.right, at, c, depth + 1)
            return set()
        if isinstance(e, ast.Call) and norm(e.func) in ("round", "float", "int", "abs", "max", "min", "np.round") and e.args:
            out = set()
            for a in e.args:
                out |= self.kinds(a, at, c, depth + 1)
            return out
        if isinstance(e, ast.UnaryOp):
            return self.kinds(e.operand, at, c, depth + 1)
        return set()


def _caltype_test(c: ast.AST) -> Optional[int]:
    if isinstance(c, ast.Compare) and len(c.ops) == 1 and isinstance(c.ops[0], ast.Eq) and isinstance(c.comparators[0], ast.Constant) \
            and any((isinstance(x, ast.Attribute) and x.attr == "CalendarType") or (isinstance(x, ast.Name) and x.id.lower().endswith("calendartype")) for x in ast.walk(c.left)):
        return c.comparators[0].value
    return None


def time_units(chk, prog, rule: str, keys) -> int:
    n = 0
    for key in sorted(keys):
        fi = prog.funcs.get(key)
        if fi is None or not fi.module.startswith("aquacrop."):
            continue
        U = Units(fi)
        flow, cfg = U.flow, U.cfg
        where = f"{fi.module}:{fi.qualname}"
        reported = set()

        def conflict(sets):
            allk = set().union(*sets) if sets else set()
            return "DAYS" in allk and "GDD" in allk

        for st in walk_no_nested(fi.node):
            if not isinstance(st, (ast.Assign, ast.AugAssign, ast.If, ast.While, ast.Return, ast.Expr)):
                continue
            roots = []
            if isinstance(st, (ast.If, ast.While)):
                roots = [st.test]
            elif isinstance(st, (ast.Assign, ast.AugAssign)):
                roots = [st.value]
            elif isinstance(st, (ast.Return, ast.Expr)) and st.value is not None:
                roots = [st.value]
            for root in roots:
                for e in ast.walk(root):
                    ops = None
                    if isinstance(e, ast.BinOp) and isinstance(e.op, (ast.Add, ast.Sub)):
                        ops = [e.left, e.right]
                    elif isinstance(e, ast.Compare) and all(isinstance(o, (ast.Lt, ast.LtE, ast.Gt, ast.GtE, ast.Eq, ast.NotEq)) for o in e.ops):
                        ops = [e.left] + list(e.comparators)
                    if ops is None:
                        continue
                    at = flow.node_of(e)
                    if at is None:
                        continue
                    sc = U.ctx_of(at)
                    ks1 = [U.kinds(o, at, 1) for o in ops]
                    ks2 = [U.kinds(o, at, 2) for o in ops]
                    if not any(ks1) and not any(ks2):
                        continue
                    n += 1
                    chk.fn(key)
                    for c, ks in ((1, ks1), (2, ks2)):
                        if sc is not None and sc != c:
                            continue
                        # operands on different sides
                        sides = [k for k in ks if k]
                        bad = any(("DAYS" in a and "GDD" in b) or ("GDD" in a and "DAYS" in b) for i, a in enumerate(sides) for b in sides[i + 1:])
                        if bad and (norm(e), c) not in reported:
                            reported.add((norm(e), c))
                            chk.violation(rule, where, norm(e)[:90], f"under CalendarType == {c} this expression combines calendar days with growing degree days "
                                          f"({' vs '.join('/'.join(sorted(k)) or '-' for k in ks)}): a delay, an age or a stage length is taken in the other time unit",
                                          loc=fi.loc(e))
            # stores into a quantity of a fixed unit
            if isinstance(st, ast.Assign) and len(st.targets) == 1 and isinstance(st.targets[0], (ast.Attribute, ast.Name)):
                t = st.targets[0]
                tk = _name_kind(t.attr if isinstance(t, ast.Attribute) else t.id)
                if tk in ("DAYS", "GDD"):
                    at = flow.stmt_node.get(id(st))
                    if at is None:
                        continue
                    sc = U.ctx_of(at)
                    n += 1
                    chk.fn(key)
                    for c in (1, 2):
                        if sc is not None and sc != c:
                            continue
                        vk = U.kinds(st.value, at, c)
                        other = "GDD" if tk == "DAYS" else "DAYS"
                        if other in vk and (norm(st), c) not in reported:
                            reported.add((norm(st), c))
                            chk.violation(rule, where, norm(st)[:90], f"under CalendarType == {c} the {'calendar-day' if tk == 'DAYS' else 'degree-day'} quantity "
                                          f"`{norm(t)}` is assigned a value in {'degree days' if tk == 'DAYS' else 'calendar days'}", loc=fi.loc(st))
    chk.ok(rule, "aquacrop", f"{n} additive / ordering expressions and unit-typed stores with a time unit", "no mixture of calendar days and growing degree days under either calendar type")
    return n
