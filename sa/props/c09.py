"""C09 - step-wise execution equals one uninterrupted run."""
from __future__ import annotations
import ast

from ..common import RUN_ROOT, STEP_ROOT, INIT_ROOT
from ..model import norm, walk_no_nested, AnalysisError
from ..rdef import flow_of, ENTRY
from ..cfg import node_reads

EXPLANATION = (
    "C09.a (sibling drivers, must-pass-through on the CFG of run_model): both driver loops advance the model only "
    "through the same statement (the 4-tuple assignment from self._perform_timestep()); on every path from a step to "
    "the function exit or to the next step the termination flag model_is_finished is tested, so a step count that lands "
    "exactly on the last day reports completion and no step is taken on a finished model - neither within a call nor by a later call (every "
    "path from the function entry to a step passes such a test); the completion status is "
    "set to True only under a positive test (or after the while loop, whose exit condition is that test) and to False "
    "only after a negative one. C09.b (no hidden driver state): _initialize is reachable from run_model only under "
    "initialize_model; run_model / _perform_timestep contain no global / nonlocal statement and keep no state outside "
    "self.*; the only extra state of step mode (__steps_are_finished) is written only under process_outputs is True. "
    "C09.c: get_simulation_results hands out the seasonal summary (directly or through a local) only on paths through the 'model has finished' edge (edge removal). C09.e: the drivers change nothing but their own bookkeeping - every store of run_model is a local, a private status attribute, or the re-binding of the four state objects to the result of _perform_timestep, and every call on the model object is _initialize or _perform_timestep (a summary row appended after one driver's loop, or a setting cleared on the paused path, is reported). NOT decided: "
    "equality of the produced tables (follows from a+b by determinism of the step, C10).")


def _calls_of(prog, fi, name):
    return [c for c, t in prog.calls_in(fi) if getattr(t, "name", None) == name]


def run(chk, prog, tier):
    fi = prog.func(RUN_ROOT)
    chk.fn(fi.key)
    flow = flow_of(fi)
    cfg = flow.cfg
    steps = _calls_of(prog, fi, "_perform_timestep")
    chk.floor("C09.a-steps", len(steps), 2, "calls of _perform_timestep in run_model")
    # the statement that advances the model is the same in all drivers
    forms = set()
    for c in steps:
        nid = flow.node_of(c)
        st = cfg.nodes[nid].ast
        forms.add(norm(st))
        construct = norm(st)[:120]
        good = isinstance(st, ast.Assign) and isinstance(st.targets[0], ast.Tuple) and \
            [norm(t) for t in st.targets[0].elts] == ["self._clock_struct", "self._init_cond", "self._param_struct", "self._outputs"]
        if good:
            chk.ok("C09.a", fi.key, construct, "state update of one step")
        else:
            chk.violation("C09.a", fi.key, construct, "a driver advances the model without storing the four state objects back on self", loc=fi.loc(c))
    if len(forms) != 1:
        chk.violation("C09.a", fi.key, "per-iteration body of the two drivers", "the two driver loops do not advance the model by the same statement", loc=fi.loc())
    # tests of the termination flag
    tests = set()
    for n in cfg.live_nodes():
        if n.kind == "test" and any(isinstance(x, ast.Attribute) and x.attr == "model_is_finished" for x in ast.walk(n.ast)):
            tests.add(n.id)
    chk.floor("C09.a-tests", len(tests), 2, "tests of model_is_finished in run_model")
    step_nodes = {flow.node_of(c) for c in steps}
    for c in steps:
        nid = flow.node_of(c)
        # every path from the step to exit / to any step passes a test
        bad_target = None
        seen, stack = set(), [t for t, _ in cfg.nodes[nid].succs]
        while stack:
            k = stack.pop()
            if k in seen or k in tests:
                continue
            seen.add(k)
            if k == cfg.exit or k in step_nodes:
                bad_target = k
                break
            stack.extend(t for t, _ in cfg.nodes[k].succs)
        construct = f"after the step at `{norm(cfg.nodes[nid].ast)[:50]}...`: termination flag tested before exit / next step"
        if bad_target is None:
            chk.ok("C09.a", fi.key, construct)
        else:
            what = "the function returns" if bad_target == cfg.exit else "the next step is taken"
            chk.violation("C09.a", fi.key, construct,
                          f"there is a path on which {what} after a step without testing model_is_finished: a run that ends exactly on its "
                          "last requested step is reported unfinished (or a finished model is stepped again)", loc=fi.loc(c))
    # no step is taken on a model that has already terminated: every path from the entry to a step passes a test of the flag
    for c in steps:
        nid = flow.node_of(c)
        construct = f"before the step at `{norm(cfg.nodes[nid].ast)[:50]}...`: termination flag tested since the function entry"
        if cfg.paths_exist_avoiding(cfg.entry, nid, tests):
            chk.violation("C09.a", fi.key, construct, "a call of run_model on a model that has already terminated reaches a step without testing "
                          "model_is_finished: a step count that overshoots the end (in a later call) simulates the last day again", loc=fi.loc(c))
        else:
            chk.ok("C09.a", fi.key, construct)
    # completion status assignments
    nstat = 0
    for a in walk_no_nested(fi.node):
        if isinstance(a, ast.Assign) and isinstance(a.targets[0], ast.Attribute) and a.targets[0].attr.endswith("has_model_finished") \
                and isinstance(a.value, ast.Constant):
            nstat += 1
            nid = flow.stmt_node[id(a)]
            deps = cfg.control_deps()[nid]          # direct control dependence
            val = a.value.value
            # outcome of the nearest governing test of the flag
            pos = any(t in tests and _finished_outcome(cfg.nodes[t].ast, l) is True for t, l in deps)
            neg = any(t in tests and _finished_outcome(cfg.nodes[t].ast, l) is False for t, l in deps)
            # after a `while <not finished>` loop: reachable only through the loop exit
            after_while = _only_via_loop_exit(cfg, nid, tests)
            construct = norm(a)
            if val is True and (pos or after_while) and not neg:
                chk.ok("C09.a", fi.key, construct, "set under a positive termination test")
            elif val is False and not pos and _all_paths_negative(cfg, nid, tests, step_nodes):
                chk.ok("C09.a", fi.key, construct, "set only after a negative termination test")
            else:
                chk.violation("C09.a", fi.key, construct, "the completion status is not tied to the outcome of the termination test", loc=fi.loc(a))
    chk.floor("C09.a-status", nstat, 3, "assignments of the completion status")

    # ------------------------------------------------------------ C09.d
    # a call asking for k steps takes k steps unless the run finishes first: the step-count loop runs over range(<the num_steps parameter
    # itself>) - the only definition of the bound reaching the loop is the function entry - so the number of days simulated by a sequence
    # of calls is the sum of their arguments, however the run is partitioned
    nloop = 0
    for n in cfg.live_nodes():
        if n.kind != "for" or not (isinstance(n.ast.iter, ast.Call) and norm(n.ast.iter.func) == "range"):
            continue
        if not any(flow.node_of(c) is not None and any(k == n.id for k, _ in cfg.transitive_control_deps(flow.node_of(c))) for c in steps):
            continue
        nloop += 1
        construct = f"for {norm(n.ast.target)} in {norm(n.ast.iter)}"
        args = n.ast.iter.args
        bound = args[-1] if args else None
        def _is_param(e, at, depth=0):
            """e is the parameter as passed: the formal itself with only its entry definition, or a single-definition local copy / int() of it"""
            if isinstance(e, ast.Call) and norm(e.func) == "int" and len(e.args) == 1:
                return _is_param(e.args[0], at, depth)
            if not isinstance(e, ast.Name) or depth > 3:
                return False
            ds = flow.defs_reaching(e.id, at)
            if e.id in fi.params:
                return ds == [ENTRY]
            if len(ds) == 1 and ds[0] != ENTRY and isinstance(cfg.nodes[ds[0]].ast, ast.Assign):
                return _is_param(cfg.nodes[ds[0]].ast.value, ds[0], depth + 1)
            return False
        good = len(args) == 1 and _is_param(bound, n.id)
        if good:
            chk.ok("C09.d", fi.key, construct, f"bound is the parameter as passed (`{norm(bound)}`; no redefinition reaches the loop)")
        else:
            redef = [norm(cfg.nodes[d].ast)[:60] for d in (flow.defs_reaching(bound.id, n.id) if isinstance(bound, ast.Name) else []) if d != ENTRY]
            chk.violation("C09.d", fi.key, construct, "the step-count loop does not run over the requested number of steps as passed "
                          f"({'redefined by ' + '; '.join(redef) if redef else 'bound is not the parameter'}): k steps requested are not k steps taken, so a "
                          "partitioned run simulates other days than the uninterrupted one", loc=fi.loc(n.ast))
    chk.floor("C09.d", nloop, 1, "step-count loops around _perform_timestep")

    # ------------------------------------------------------------ C09.e
    # the drivers themselves change nothing but their own bookkeeping: every store of run_model is a local, one of the private status
    # attributes (`self.__x`), or the re-binding of the four state objects to the result of _perform_timestep; every call on the model
    # object is _initialize or _perform_timestep. A driver branch that writes model state or an output table of its own (a summary row
    # appended after the loop, a setting cleared on the paused path) makes the result depend on how the run was driven.
    STATE_ATTRS = ("_clock_struct", "_init_cond", "_param_struct", "_outputs")
    n_e = 0
    for a in walk_no_nested(fi.node):
        tgts = []
        if isinstance(a, ast.Assign):
            tgts = a.targets
        elif isinstance(a, (ast.AugAssign, ast.AnnAssign)):
            tgts = [a.target]
        for t in tgts:
            elts = t.elts if isinstance(t, (ast.Tuple, ast.List)) else [t]
            for e in elts:
                if isinstance(e, ast.Name):
                    continue
                n_e += 1
                construct = f"{norm(e)} = ..."
                is_self_attr = isinstance(e, ast.Attribute) and isinstance(e.value, ast.Name) and e.value.id == "self"
                if is_self_attr and (e.attr.startswith("__") or e.attr.startswith("_AquaCropModel__")):
                    chk.ok("C09.e", fi.key, construct, "private status attribute of the driver")
                elif is_self_attr and e.attr in STATE_ATTRS and isinstance(a, ast.Assign) and any(a.value is c for c in steps):
                    chk.ok("C09.e", fi.key, construct, "state object re-bound to the result of the daily step")
                else:
                    chk.violation("C09.e", fi.key, norm(a)[:90], "a driver of run_model writes model state / an output table itself (not through the daily step): one "
                                  "uninterrupted run and the same days taken in several calls no longer go through the same statements", loc=fi.loc(a))
        if isinstance(a, ast.Call) and isinstance(a.func, ast.Attribute):
            root = a.func
            while isinstance(root, (ast.Attribute, ast.Subscript, ast.Call)):
                root = root.func if isinstance(root, ast.Call) else root.value
            if isinstance(root, ast.Name) and root.id == "self":
                n_e += 1
                if isinstance(a.func.value, ast.Name) and a.func.attr in ("_initialize", "_perform_timestep"):
                    chk.ok("C09.e", fi.key, f"{norm(a.func)}()", "initialisation / the daily step")
                else:
                    chk.violation("C09.e", fi.key, norm(a)[:90], "a driver of run_model calls into the model's objects itself (not through the daily step)", loc=fi.loc(a))
    chk.floor("C09.e", n_e, 8, "stores and model calls of run_model")

    # ------------------------------------------------------------ C09.b
    inits = _calls_of(prog, fi, "_initialize")
    chk.floor("C09.b-init", len(inits), 1, "calls of _initialize in run_model")
    for c in inits:
        nid = flow.node_of(c)
        on = {(n.id, True) for n in cfg.live_nodes() if n.kind == "test" and norm(n.ast) == "initialize_model"}
        construct = "self._initialize()"
        if on and not cfg.reachable_without_edges(nid, on):
            chk.ok("C09.b", fi.key, construct, "only under initialize_model")
        else:
            chk.violation("C09.b", fi.key, construct, "the model is (re-)initialised independently of initialize_model", loc=fi.loc(c))
    for key in (RUN_ROOT, STEP_ROOT):
        f = prog.func(key)
        chk.fn(key)
        for n in walk_no_nested(f.node):
            if isinstance(n, (ast.Global, ast.Nonlocal)):
                chk.violation("C09.b", key, norm(n), "driver state kept outside the model object", loc=f.loc(n))
            if isinstance(n, ast.Attribute) and isinstance(n.ctx, ast.Store) and not (isinstance(n.value, ast.Name) and n.value.id in ("self", "clock_struct", "outputs")):
                chk.violation("C09.b", key, norm(n), "the driver stores state on something else than the model object", loc=f.loc(n))
        chk.ok("C09.b", key, "no global / nonlocal / foreign attribute stores")
    # __steps_are_finished only under process_outputs
    for a in walk_no_nested(fi.node):
        if isinstance(a, ast.Assign) and isinstance(a.targets[0], ast.Attribute) and a.targets[0].attr.endswith("steps_are_finished"):
            nid = flow.stmt_node[id(a)]
            deps = {(norm(cfg.nodes[t].ast), l) for t, l in cfg.transitive_control_deps(nid) if cfg.nodes[t].kind == "test"}
            if ("process_outputs is True", True) in deps:
                chk.ok("C09.b", fi.key, norm(a), "only under process_outputs is True")
            else:
                chk.violation("C09.b", fi.key, norm(a), "extra step-mode state is set without process_outputs", loc=fi.loc(a))
    # ------------------------------------------------------------ C09.c
    g = prog.func("aquacrop.core:AquaCropModel.get_simulation_results")
    chk.fn(g.key)
    gf = flow_of(g)
    def hands_out_summary(r):
        if r.value is None:
            return False
        if any(isinstance(x, ast.Attribute) and x.attr == "final_stats" for x in ast.walk(r.value)):
            return True
        if isinstance(r.value, ast.Name):
            for d in gf.defs_reaching(r.value.id, gf.stmt_node[id(r)]):
                a = gf.cfg.nodes[d].ast if d >= 0 else None
                if isinstance(a, ast.Assign) and any(isinstance(x, ast.Attribute) and x.attr == "final_stats" for x in ast.walk(a.value)):
                    return True
        return False
    rets = [r for r in walk_no_nested(g.node) if isinstance(r, ast.Return) and hands_out_summary(r)]
    chk.floor("C09.c", len(rets), 1, "returns of the seasonal summary")
    fin_edges = set()
    for n in gf.cfg.live_nodes():
        if n.kind == "test" and any(isinstance(x, ast.Attribute) and x.attr.endswith("has_model_finished") for x in ast.walk(n.ast)):
            t = norm(n.ast)
            if t.endswith("has_model_finished") or t.endswith("has_model_finished is True"):
                fin_edges.add((n.id, True))
            elif t.endswith("has_model_finished is False"):
                fin_edges.add((n.id, False))
    for r in rets:
        nid = gf.stmt_node[id(r)]
        if fin_edges and not gf.cfg.reachable_without_edges(nid, fin_edges):
            chk.ok("C09.c", g.key, norm(r), "reachable only through the 'model has finished' edge (edge removal)")
        else:
            chk.violation("C09.c", g.key, norm(r), "the seasonal summary is handed out on a path that does not pass the 'model has finished' edge: a paused "
                          "multi-season run reports a (partial) summary", loc=g.loc(r))
    chk.exhaustive = True


def _finished_outcome(test: ast.AST, label):
    """which outcome of the test means 'model is finished'"""
    t = norm(test)
    if t.endswith("model_is_finished is False"):
        return (not label)
    if t.endswith("model_is_finished is True") or t.endswith("model_is_finished"):
        return bool(label)
    if t.endswith("model_is_finished is not True") or t.endswith("model_is_finished == False"):
        return (not label)
    return None


def _only_via_loop_exit(cfg, nid, tests) -> bool:
    """every path entry -> nid passes the False... edge 'finished' of a flag test"""
    for t in tests:
        tn = cfg.nodes[t]
        for tgt, l in tn.succs:
            if _finished_outcome(tn.ast, l) is True:
                # all paths to nid go through that edge?  remove the edge and test reachability
                seen, stack = set(), [cfg.entry]
                reach = False
                while stack:
                    k = stack.pop()
                    if k in seen:
                        continue
                    seen.add(k)
                    if k == nid:
                        reach = True
                        break
                    for s, ll in cfg.nodes[k].succs:
                        if k == t and ll == l:
                            continue
                        stack.append(s)
                if not reach:
                    return True
    return False


def _all_paths_negative(cfg, nid, tests, step_nodes) -> bool:
    """every path from a step node to nid passes a flag test through its 'not finished' edge"""
    for s in step_nodes:
        seen, stack = set(), [t for t, _ in cfg.nodes[s].succs]
        while stack:
            k = stack.pop()
            if k in seen:
                continue
            seen.add(k)
            if k == nid:
                return False
            if k in tests:
                continue       # paths through a test are fine (the positive edge never reaches a False assignment: checked by deps)
            stack.extend(t for t, _ in cfg.nodes[k].succs)
    return True
