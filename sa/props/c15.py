"""C15 - weather bound by date and column name."""
from __future__ import annotations
import ast
import re
from ..common import step_roles, init_roles, INIT_ROOT
from ..model import norm, walk_no_nested, AnalysisError
from ..rdef import flow_of, ENTRY
from ._weather import weather_matrix_binding, const_index, REQUIRED, window_selection

EXPLANATION = (
    "C15.a (provenance of positional reads): the positional weather matrix used while stepping is built in _initialize "
    "from a column-normalising selection that names the five required columns; every integer-position read of that "
    "matrix (weather_step[k], weather[:, k]) below _perform_timestep is resolved through the access-path analysis and "
    "the variable it is received into (or the date comparison it takes part in) must be the quantity the k-th named "
    "column holds. C15.b (row binding): read_weather_inputs derives the window only through boolean masks comparing the "
    "Date column with the start / end date - never through index labels or row positions - and the rows of the matrix "
    "are addressed by the time-step counter of the window's date range. C15.c: in every function that receives the weather frame (followed "
    "positionally from self.weather_df) whole-row operations (dropna, drop_duplicates, duplicated) name the columns they look at - an unrelated "
    "extra column must not decide which days survive. C15.d (day binding): the frame read_weather_inputs returns is guarded by a raising test that "
    "compares its dates for equality with clock.time_span, and the frame is not re-defined after that comparison - the daily step and the "
    "season-long degree-day sums address rows by day number, so a missing / duplicated / out-of-order record must not get through. C15.e: a bookkeeping column the model adds ('gdd', 'season') is written only into a frame the model built itself or restricted by name to the required columns - never into a frame that still carries the user's extra columns. C15.f: rows of the weather frame are never dropped or selected through the labels of the user's index (repeated labels), only by masks on columns, by position, or by labels of an index the function itself set from the Date column. C15.g: no function that receives the weather frame (the model's weather setter, initialisation, the weather reader, the degree-day preparation) writes into one of the five required columns from anything but that same column - in particular Date is never rebuilt from the index (expected count zero; the matcher is exercised on an embedded example with item store, attribute store, .loc store, assign and insert). C15.h (T-ARGS): once read from its column, a weather variable is handed on under its own name - no call of the package binds two positional arguments crosswise (temp_max / temp_min, rain / reference ET). C15.i: in the functions that receive the weather frame no column is chosen by a name pattern (filter(like/regex)), by dtype or by position (iloc[:, k], columns[k]) and nothing is aggregated across all columns (mean(axis=1)) - an unrelated extra column would join in (expected count zero, embedded positive example). C15.j: prepare_weather dates every record from its own Year / Month / Day fields (read by name, all rows), never from a generated calendar over the row count. C15.k: no function that receives the weather frame (the setter through which the checked table is stored back included) orders its rows by the index labels, by a column other than Date, or randomly (expected count zero, embedded positive example). NOT decided: numerical identity of the runs.")

RECEIVER = {
    "MinTemp": re.compile(r"(^|_)(t?min|temp_min|tmin)", re.I),
    "MaxTemp": re.compile(r"(^|_)(t?max|temp_max|tmax)", re.I),
    "Precipitation": re.compile(r"precip|rain|^p$", re.I),
    "ReferenceET": re.compile(r"et0|eto|ref", re.I),
    "Date": re.compile(r"date", re.I),
}


def run(chk, prog, tier):
    fi, bind, order = weather_matrix_binding(prog)
    chk.fn(fi.key)
    construct = norm(bind)[:140]
    if order is None:
        chk.violation("C15.a", fi.key, construct,
                      "the positional weather matrix is taken from the user's DataFrame without selecting the required columns by name: "
                      "column order / extra columns of the input decide which variable is which", loc=fi.loc(bind))
        return
    missing = [c for c in REQUIRED if c not in order]
    if missing or len(order) != len(set(order)):
        chk.violation("C15.a", fi.key, construct, f"the column-normalising selection does not name {missing} exactly once", loc=fi.loc(bind))
        return
    chk.ok("C15.a", fi.key, construct, f"matrix columns fixed by name: {order}")
    roles = step_roles(prog)
    reads = 0
    for key in sorted(roles.reached):
        f = prog.funcs[key]
        flow = flow_of(f)
        for n in walk_no_nested(f.node):
            if not (isinstance(n, ast.Subscript) and isinstance(n.ctx, ast.Load)):
                continue
            k = const_index(n.slice)
            if k is None:
                continue
            bp = roles.paths(f, n.value)
            two_d = isinstance(n.slice, ast.Tuple)
            if not bp:
                continue
            if two_d and not any(p == "WEATHER" or p.startswith("WEATHER") for p in bp):
                continue
            if not two_d and not all(p.startswith("WEATHER[]") for p in bp):
                continue
            if two_d and not all(re.match(r"^WEATHER(\[\])?$", p) or p.startswith("WEATHER") for p in bp):
                continue
            reads += 1
            chk.fn(key)
            where = f"{f.module}:{f.qualname}"
            construct = norm(n)
            if not (0 <= k < len(order)):
                chk.violation("C15.a", where, construct, f"column position {k} is outside the {len(order)} named columns", loc=f.loc(n))
                continue
            col = order[k]
            # receiver: the assignment target, or the other operand of a comparison
            nid = flow.node_of(n)
            st = flow.cfg.nodes[nid].ast if nid is not None else None
            recv = None
            if isinstance(st, ast.Assign) and st.value is n:
                t = st.targets[0]
                recv = t.id if isinstance(t, ast.Name) else (t.attr if isinstance(t, ast.Attribute) else None)
            else:
                for sub in ast.walk(st) if st is not None else []:
                    if isinstance(sub, ast.Compare) and (sub.left is n or n in sub.comparators):
                        other = sub.comparators[0] if sub.left is n else sub.left
                        recv = "date" if "date" in norm(other).lower() else norm(other)
            if recv is None:
                chk.violation("C15.a", where, construct, "positional read of the weather matrix whose use cannot be classified", loc=f.loc(n))
                continue
            if RECEIVER[col].search(recv) and not any(rx.search(recv) for c2, rx in RECEIVER.items() if c2 != col and c2 in ("MinTemp", "MaxTemp") and col in ("MinTemp", "MaxTemp")):
                chk.ok("C15.a", where, construct, f"position {k} = column {col} -> {recv}")
            else:
                chk.violation("C15.a", where, construct, f"position {k} holds column {col} but the value is used as `{recv}`", loc=f.loc(n))
    chk.floor("C15.a", reads, 8, "positional reads of the weather matrix")

    # ---------------------------------------------------------------- C15.b
    window_selection(chk, prog, "C15.b")
    # rows addressed by the time-step counter
    core = prog.func("aquacrop.core:_weather_data_current_timestep")
    sub = [n for n in walk_no_nested(core.node) if isinstance(n, ast.Subscript)]
    ok = len(sub) == 1 and isinstance(sub[0].slice, ast.Name) and sub[0].slice.id == core.params[1]
    pt = prog.func("aquacrop.core:AquaCropModel._perform_timestep")
    call = [c for c, t in prog.calls_in(pt) if getattr(t, "key", None) == core.key]
    ok = ok and len(call) == 1 and norm(call[0].args[1]).endswith(".time_step_counter") and norm(call[0].args[0]).endswith("._weather")
    if ok:
        chk.ok("C15.b", pt.key, "weather row of the day", "self._weather[time_step_counter]")
    else:
        chk.violation("C15.b", pt.key, "weather row of the day", "the day's weather row is not the matrix row at the time-step counter", loc=pt.loc())
    from ._weather import whole_row_ops
    nrow = whole_row_ops(chk, prog, "C15.c")
    chk.floor("C15.c", len(chk.notes.get("C15.c_weather_frame_formals", [])), 3, "functions receiving the weather frame")
    # ---------------------------------------------------------------- C15.d
    from ._weather import day_binding
    day_binding(chk, prog, "C15.d")
    # ---------------------------------------------------------------- C15.e
    from ._weather import scratch_columns
    nsc = scratch_columns(chk, prog, "C15.e")
    chk.notes["C15.e_column_stores_in_weather_functions"] = nsc
    # ---------------------------------------------------------------- C15.f
    from ._weather import label_row_ops
    chk.notes["C15.f_label_row_operations"] = label_row_ops(chk, prog, "C15.f")
    # ---------------------------------------------------------------- C15.g
    from ._weather import required_column_stores
    chk.floor("C15.g", required_column_stores(chk, prog, "C15.g"), 3, "functions receiving the weather frame scanned for stores into required columns")
    # ---------------------------------------------------------------- C15.k
    from ._weather import row_reordering
    chk.floor("C15.k", row_reordering(chk, prog, "C15.k"), 3, "functions receiving the weather frame scanned for label-dependent row orders")
    # ---------------------------------------------------------------- C15.j
    # the file reader dates each record by its OWN day / month / year fields: the value stored to the Date column of the frame it returns
    # reads the three columns by name and is not a generated calendar (date_range / arange over the row count) - a file with a gap, or
    # listed newest-first, would have every later record dated by its position
    pw = prog.find_func("prepare_weather")
    chk.fn(pw.key)
    nj = 0
    for a in walk_no_nested(pw.node):
        t = a.targets[0] if isinstance(a, ast.Assign) and len(a.targets) == 1 else None
        if not (isinstance(t, ast.Subscript) and isinstance(t.slice, ast.Constant) and t.slice.value == "Date") and not (isinstance(t, ast.Attribute) and t.attr == "Date"):
            continue
        nj += 1
        consts = {x.value for x in ast.walk(a.value) if isinstance(x, ast.Constant) and isinstance(x.value, str)}
        gen = [norm(c.func) for c in ast.walk(a.value) if isinstance(c, ast.Call) and norm(c.func).split(".")[-1] in ("date_range", "period_range", "timedelta_range", "arange", "bdate_range")]
        whole = all(not isinstance(p_, ast.Subscript) or not (isinstance(p_.value, ast.Attribute) and p_.value.attr in ("iloc", "loc", "head")) for p_ in ast.walk(a.value))
        construct = norm(a)[:90]
        if {"Year", "Month", "Day"} <= consts and not gen and whole:
            chk.ok("C15.j", f"{pw.module}:{pw.qualname}", construct, "every record dated from its own Year / Month / Day fields")
        else:
            chk.violation("C15.j", f"{pw.module}:{pw.qualname}", construct, "the Date column is not built from each record's own Year / Month / Day fields"
                          + (f" (a generated calendar: {gen[0]})" if gen else "") + ": records after a gap in the file, or a file listed in another order, are dated by their "
                          "row position and the model reads another day's weather", loc=pw.loc(a))
    chk.floor("C15.j", nj, 1, "stores to the Date column in prepare_weather")
    # ---------------------------------------------------------------- C15.i
    from ._weather import pattern_column_selection
    chk.floor("C15.i", pattern_column_selection(chk, prog, "C15.i"), 3, "functions receiving the weather frame scanned for pattern / dtype / positional column selections")
    # ---------------------------------------------------------------- C15.h (each variable goes where its name says: T-ARGS)
    from ._args import arg_swaps
    chk.floor("C15.h", arg_swaps(chk, prog, "C15.h", None), 90, "positional calls of repository functions")
    chk.exhaustive = True
