"""C14 - no look-ahead (read discipline on the weather table)."""
from __future__ import annotations
import ast
import re
from ..common import step_roles, init_roles, INIT_ROOT, RESET_FN
from ..model import norm, walk_no_nested, AnalysisError
from ..rdef import flow_of, ENTRY
from ._weather import window_selection

EXPLANATION = (
    "C14.a (read discipline, access paths + control dependence): below _perform_timestep every use of the whole weather "
    "matrix is either the selection of the row at the time-step counter or control dependent on the crop being in "
    "thermal-time mode (CalendarType == 2, the documented season-long degree-day sums of reset_initial_conditions); "
    "other statements only see the single row of the day. During initialisation compute_crop_calendar touches the "
    "weather only in thermal-time mode (Mode == 2) or when a calendar-day crop is converted (SwitchGDD == 1). C14.b "
    "(must-pass-through): in _initialize the clip of the weather to the simulation window (read_weather_inputs) "
    "dominates every other use of the weather table and the clipped frame is what is stored and what the positional "
    "matrix is built from. C14.c: the clip itself selects rows only by comparing the Date column with both window bounds "
    "(never by index label / position). C14.d (write-once summary): the store of a season's summary row is reachable only through the True edge of a "
    "`harvest_flag is False` test (edge removal on the CFG) - otherwise days simulated after the harvest, which exist only when the "
    "run is extended, rewrite a completed season's row. C14.f: = C15.c (whole-row operations on the weather frame name their columns, incl. the model's weather setter): a dropped in-window day shifts every later day onto later weather. C14.e: same rule as C08.e - an aggregate over all seasons of the window makes completed seasons depend on the end date (known finding F19). C14.g: the yearly CO2 series is interpolated from the whole table the user supplied - nothing derived from the clock selects its rows - so a completed season's CO2 forcing does not depend on the end date. C14.h: the month/day template of the latest harvest date is not computed from the end date. C14.i (= the interpolation part of C19.e): the water-table series is interpolated by time, never by position over the union of observations and simulation days - positional interpolation makes the depth inside a completed season depend on the window's end (and on observations outside the window). C14.j (= C13.e): the dated irrigation schedule is bound to the simulation days by label; a day offset used as an array position is compared with 0 and with the length (a negative offset files an event relative to the END of the window: a completed season's irrigation would change with the end date). C14.k: while stepping, the per-season date tables of the clock (planting_dates, harvest_dates) are read only at the season counter (or counter + 1); locals in the index are followed through their reaching definitions - an index that reads the number of seasons, a constant or counts from the end takes a season's calendar from another season's dates, and the last season's dates move with the end date. NOT decided: that extending the end date leaves completed seasons of thermal-time crops "
    "unchanged (depends on cumulative sums; SwitchGDD averages over all seasons by design).")


def harvest_template(chk, prog):
    """C14.h: the latest harvest date is kept as one month/day template for all seasons; a store to `crop.harvest_date` must not be computed
    from the end date of the simulation (backward slice through the locals of read_model_parameters, results of repository callees opaque):
    otherwise every completed season is harvested on a day that moves with the end date."""
    from ..rdef import flow_of, ENTRY
    fi = prog.find_func("read_model_parameters")
    chk.fn(fi.key)
    where = f"{fi.module}:{fi.qualname}"
    flow = flow_of(fi)
    cfg = flow.cfg
    def is_end(x):
        return (isinstance(x, ast.Attribute) and x.attr in ("simulation_end_date", "sim_end_time")) or (isinstance(x, ast.Name) and False)
    def tainted(e, at, seen):
        for x in ast.walk(e):
            if isinstance(x, ast.Call) and prog.resolve_call(fi, x) is not None and hasattr(prog.resolve_call(fi, x), "key"):
                continue
            if is_end(x):
                return norm(x)
        # names: follow local definitions (not through repository calls)
        for x in ast.walk(e):
            if isinstance(x, ast.Name):
                for d in flow.defs_reaching(x.id, at):
                    if d == ENTRY or (x.id, d) in seen:
                        continue
                    seen.add((x.id, d))
                    a = cfg.nodes[d].ast
                    v = a.value if isinstance(a, (ast.Assign, ast.AugAssign)) else None
                    if v is None:
                        continue
                    if isinstance(v, ast.Call) and hasattr(prog.resolve_call(fi, v), "key"):
                        continue
                    r = tainted(v, d, seen)
                    if r:
                        return f"{x.id} <- {r}"
        return None
    n = 0
    for a in walk_no_nested(fi.node):
        if isinstance(a, ast.Assign) and isinstance(a.targets[0], ast.Attribute) and a.targets[0].attr == "harvest_date":
            n += 1
            nid = flow.stmt_node.get(id(a))
            construct = norm(a)[:90]
            r = tainted(a.value, nid, set()) if nid is not None else None
            if r:
                chk.violation("C14.h", where, construct, f"the month/day template of the latest harvest date is computed from the end date of the simulation ({r}): seasons "
                              "already completed are harvested on another day when the end date is extended", loc=fi.loc(a))
            else:
                chk.ok("C14.h", where, construct, "independent of the end date (slice through the locals)")
    chk.floor("C14.h", n, 1, "stores to crop.harvest_date in read_model_parameters")


def run(chk, prog, tier):
    roles = step_roles(prog)
    uses = 0
    for key in sorted(roles.reached):
        fi = prog.funcs[key]
        flow = flow_of(fi)
        where = f"{fi.module}:{fi.qualname}"
        for n in walk_no_nested(fi.node):
            if not isinstance(n, (ast.Subscript, ast.Attribute, ast.For, ast.Call, ast.Compare, ast.BinOp)):
                continue
            # expressions that *consume* the whole table: subscripting it, attribute access, iteration, external calls on it
            whole = None
            if isinstance(n, ast.Subscript) and isinstance(n.ctx, ast.Load):
                if "WEATHER" in roles.paths(fi, n.value):
                    whole = n
            elif isinstance(n, ast.Attribute) and isinstance(n.ctx, ast.Load):
                if "WEATHER" in roles.paths(fi, n.value):
                    whole = n
            elif isinstance(n, ast.For):
                if "WEATHER" in roles.paths(fi, n.iter):
                    whole = n.iter
            elif isinstance(n, ast.Call):
                if prog.resolve_call(fi, n) is None:
                    for a in list(n.args) + [k.value for k in n.keywords]:
                        if "WEATHER" in roles.paths(fi, a):
                            whole = n
            elif isinstance(n, (ast.Compare, ast.BinOp)):
                ops = [n.left] + (list(n.comparators) if isinstance(n, ast.Compare) else [n.right])
                for a in ops:
                    if isinstance(a, ast.Name) and "WEATHER" in roles.paths(fi, a):
                        whole = n
            if whole is None:
                continue
            uses += 1
            chk.fn(key)
            construct = norm(whole)[:100]
            nid = flow.node_of(whole if not isinstance(n, ast.For) else n.iter)
            ok_row = False
            if isinstance(n, ast.Subscript) and not isinstance(n.slice, (ast.Slice, ast.Tuple)):
                ip = roles.paths(fi, n.slice)
                ok_row = bool(ip) and all(p == "CLOCK.time_step_counter" for p in ip)
            if ok_row:
                chk.ok("C14.a", where, construct, "row of the current day (index = time-step counter)")
                continue
            deps = flow.cfg.transitive_control_deps(nid) if nid is not None else set()
            thermal = any(flow.cfg.nodes[t].kind == "test" and l is True and re.search(r"\.CalendarType == 2$", norm(flow.cfg.nodes[t].ast)) for t, l in deps)
            if thermal and fi.key == RESET_FN:
                chk.ok("C14.a", where, construct, "whole-table read under CalendarType == 2 (thermal-time calendar of the starting season)")
            else:
                chk.violation("C14.a", where, construct,
                              "the whole weather table (future days included) is read while stepping outside the thermal-time branch of the season reset",
                              loc=fi.loc(whole))
    chk.floor("C14.a", uses, 2, "uses of the whole weather matrix below _perform_timestep")

    # initialisation: compute_crop_calendar
    ccc = prog.find_func("compute_crop_calendar")
    chk.fn(ccc.key)
    flow = flow_of(ccc)
    wparam = ccc.params[-1]
    where = f"{ccc.module}:{ccc.qualname}"
    n_uses = 0
    for n in walk_no_nested(ccc.node):
        if isinstance(n, ast.Name) and n.id == wparam and isinstance(n.ctx, ast.Load):
            nid = flow.node_of(n)
            if nid is None:
                continue
            # only uses of the parameter itself or of frames derived from it by reassigning the same name
            n_uses += 1
            deps = flow.cfg.transitive_control_deps(nid)
            tests = {(norm(flow.cfg.nodes[t].ast), l) for t, l in deps if flow.cfg.nodes[t].kind == "test"}
            ok = ("Mode == 2", True) in tests or any(t.endswith(".SwitchGDD == 1") and l is True for t, l in tests)
            construct = f"use of {wparam} in `{norm(flow.cfg.nodes[nid].ast)[:60]}`"
            if ok:
                chk.ok("C14.a", where, construct, "only in thermal-time mode / calendar conversion")
            else:
                chk.violation("C14.a", where, construct, "a calendar-day crop's calendar is derived from the weather series", loc=ccc.loc(n))
    chk.floor("C14.a-ccc", n_uses, 4, "uses of the weather frame in compute_crop_calendar")

    # ---------------------------------------------------------------- C14.b
    init = prog.func(INIT_ROOT)
    chk.fn(init.key)
    flow = flow_of(init)
    clip = [c for c, t in prog.calls_in(init) if getattr(t, "name", None) == "read_weather_inputs"]
    if len(clip) != 1:
        chk.violation("C14.b", init.key, "self.weather_df = read_weather_inputs(...)", f"expected exactly one clip of the weather to the window, found {len(clip)}", loc=init.loc())
        return
    clip = clip[0]
    cn = flow.node_of(clip)
    st = flow.cfg.nodes[cn].ast
    stored = isinstance(st, ast.Assign) and isinstance(st.targets[0], ast.Attribute) and st.targets[0].attr == "weather_df" and st.value is clip
    if stored:
        chk.ok("C14.b", init.key, norm(st)[:100], "the clipped frame replaces self.weather_df")
    else:
        chk.violation("C14.b", init.key, norm(st)[:100], "the clipped weather frame is not what the model keeps", loc=init.loc(clip))
    nuse = 0
    for n in walk_no_nested(init.node):
        if isinstance(n, ast.Attribute) and n.attr == "weather_df" and isinstance(n.ctx, ast.Load) and isinstance(n.value, ast.Name) and n.value.id == "self":
            nid = flow.node_of(n)
            if nid == cn:
                continue
            nuse += 1
            construct = f"self.weather_df used in `{norm(flow.cfg.nodes[nid].ast)[:70]}`"
            if cn in flow.cfg.dominators()[nid]:
                chk.ok("C14.b", init.key, construct, "dominated by the clip to the simulation window")
            else:
                chk.violation("C14.b", init.key, construct, "weather outside the simulation window can reach this use", loc=init.loc(n))
    chk.floor("C14.b", nuse, 3, "uses of self.weather_df in _initialize")
    window_selection(chk, prog, "C14.c")
    from ._siblings import season_aggregate_calendar
    season_aggregate_calendar(chk, prog, "C14.e")
    from ._siblings import co2_series_rules
    co2_series_rules(chk, prog, rule_interp="C14.g")
    harvest_template(chk, prog)
    from ._siblings import season_table_index
    season_table_index(chk, prog, "C14.k")
    from .c19 import interpolation_by_time
    interpolation_by_time(chk, prog, "C14.i")
    # C14.j = C13.e: dated inputs (the irrigation schedule) are bound to simulation days by label; a day offset used as an array position is
    # checked against 0 and the length - a negative offset wraps to the END of the window, so a completed season would depend on the end date
    from .c13 import rule_e as schedule_alignment
    from ._alias import Alias
    schedule_alignment(Alias(chk, "C13.e", "C14.j"), prog)
    # ---- C14.f: no whole-row operation on the weather frame may drop days (every later day would run on a later day's weather: look-ahead)
    from ._weather import whole_row_ops
    whole_row_ops(chk, prog, "C14.f")
    # ---- C14.d write-once summary rows
    from .c06 import summary_written_once
    from ..common import STEP_FN
    step = prog.func(STEP_FN)
    sflow = flow_of(step)
    fs = [n for n in walk_no_nested(step.node) if isinstance(n, ast.Assign) and isinstance(n.targets[0], ast.Subscript)
          and any(isinstance(x, ast.Attribute) and x.attr == "final_stats" for x in ast.walk(n.targets[0]))]
    chk.floor("C14.d", len(fs), 1, "stores of a seasonal summary row")
    for f in fs:
        construct = norm(f.targets[0]) + " = [...]"
        if summary_written_once(sflow, sflow.stmt_node[id(f)]):
            chk.ok("C14.d", STEP_FN, construct, "every path to the store takes the True edge of a test `harvest_flag is False`")
        else:
            chk.violation("C14.d", STEP_FN, construct, "a path reaches the summary row's store without passing `harvest_flag is False`: days after the "
                          "harvest (present only when the run goes on) overwrite the completed season's row", loc=step.loc(f))
    chk.exhaustive = True
