"""C03 - water content and ponding within physical limits (presence and correctness of the bounding mechanism)."""
from __future__ import annotations
import ast
import re
from typing import Dict, List, Optional, Set, Tuple

from .. import affine as A
from ..symb import Sym
from ..common import STEP_FN, step_roles, init_roles
from ..effects import stores
from ..model import norm, walk_no_nested, AnalysisError, FuncInfo
from ..rdef import flow_of, ENTRY

EXPLANATION = (
    "C03.a (increase-then-cap, must-pass-through on the CFG + index agreement): every increasing update of a "
    "water-content cell t[i] = t[i] + e in the water-balance routines is, on every path before the cell is used again "
    "or the loop body / function ends, followed by a comparison of that cell with an upper bound whose 'exceeds' branch "
    "assigns the bound (or less); the bound must resolve, through single-definition temporaries, to saturation / "
    "adjusted field capacity / the drainage threshold OF THE SAME COMPARTMENT (same index expression as the cell); or "
    "the increment is bounded by construction in one of two recognised shapes: guarded room (update control dependent "
    "on room >= increment with room = bound[i] - t[i]) and convex step towards a target (t[i] + lambda*(target - t[i])). "
    "C03.b (ponding without bunds, inductive): every store to the ponding depth - initial conditions, season reset, "
    "infiltration, evaporation, transpiration - is the literal 0, or control dependent on a test of the bund switch, "
    "or a decrease s - x control dependent on s > x for the very x that is taken (not merely s > 0); hence without bunds the ponding stays 0. C03.c: a water-content cell "
    "that is set to a hydraulic bound (saturation, adjusted field capacity) takes the bound of the same compartment. C03.d: threshold locals feeding a store into compartment j are computed from compartment j's own hydraulic properties "
    "(layer-change idiom for the net-irrigation refill). C03.e: no per-compartment array is subscripted with a layer number. C03.g: a store to the ponding depth made with bunds present is the bund height, min(., bund height), guarded by a comparison with it, a decrease, or followed on every path by the overtopping cap. C03.h (sibling agreement): the stage-1 and stage-2 extraction loops of soil_evaporation have the same statements and tests after renaming (incl. the clamp of negative available water below the evaporation layer). C03.f: the field management "
    "in force follows the growing-season flag (in-season object when True, fallow object when False; constant propagation with distinct abstract objects). C03.i (= C19.f, sibling agreement): the two implementations of the adjusted field capacity (initialisation, daily) have the same tests and defining expressions after renaming - each compartment's level comes from its own field capacity and saturation, which keeps the content drainage and capillary rise aim at within [FC, saturation] of that compartment. C03.k (decrease-then-floor, must-pass-through): where a water-content cell is lowered by an amount held in a local (root extraction), every definition of that amount reaches the store only through the comparison of the lowered content with the compartment's air-dry content. C03.l (= C18.m): the initial content of each request point / layer is computed from that layer's own properties (per-point lookup of the layer table by the layer named, defined in the same iteration). NOT decided: "
    "th >= th_dry and th <= th_s as numeric invariants, Wr >= 0.")

BOUND_ATTRS = {"th_s", "th_fc_Adj", "th_fc"}


def _is_water_array(fi: FuncInfo, e: ast.AST, roles, water_locals: Set[str]) -> bool:
    if isinstance(e, ast.Name) and e.id in water_locals:
        return True
    ps = roles.paths(fi, e)
    return any(re.match(r"^STATE\.th(\[\])?$", p) for p in ps)


def _water_locals(prog, fi: FuncInfo, step) -> Set[str]:
    """locals that become STATE.th: returned at the position the step assigns to NewCond.th"""
    out = set()
    calls = [c for c, t in prog.calls_in(step) if getattr(t, "key", None) == fi.key]
    for c in calls:
        for n in walk_no_nested(step.node):
            if isinstance(n, ast.Assign) and n.value is c:
                tg = n.targets[0].elts if isinstance(n.targets[0], ast.Tuple) else [n.targets[0]]
                for i, t in enumerate(tg):
                    if isinstance(t, ast.Attribute) and t.attr == "th":
                        for r in walk_no_nested(fi.node):
                            if isinstance(r, ast.Return) and r.value is not None:
                                el = r.value.elts if isinstance(r.value, ast.Tuple) else [r.value]
                                if i < len(el) and isinstance(el[i], ast.Name):
                                    out.add(el[i].id)
    # one level of copies: NewCond_th = thnew
    for a in walk_no_nested(fi.node):
        if isinstance(a, ast.Assign) and isinstance(a.targets[0], ast.Name) and a.targets[0].id in out and isinstance(a.value, ast.Name):
            out.add(a.value.id)
    return out


def _resolve_bound(fi, flow, e: ast.AST, at: int, depth=0) -> Optional[Tuple[str, str]]:
    """(bound attribute, index text) of a bound expression, through single-definition temporaries"""
    if depth > 6:
        return None
    if isinstance(e, ast.Subscript) and isinstance(e.value, ast.Attribute) and e.value.attr in BOUND_ATTRS:
        return (e.value.attr, norm(e.slice))
    if isinstance(e, ast.Subscript) and isinstance(e.value, ast.Name):
        # e.g. InitCond_th_fc_Adj[ii], th_fc_Adj_init[ii]
        nm = e.value.id
        if "fc" in nm.lower() or "th_s" in nm.lower():
            return (nm, norm(e.slice))
    if isinstance(e, ast.Name):
        ds = flow.defs_reaching(e.id, at)
        res = set()
        for d in ds:
            if d == ENTRY:
                return None
            st = flow.cfg.nodes[d].ast
            if not (isinstance(st, ast.Assign) and len(st.targets) == 1 and isinstance(st.targets[0], ast.Name)):
                return None
            r = _resolve_bound(fi, flow, st.value, d, depth + 1)
            if r is None:
                # a bound computed from the drainage characteristic (thX = cth_fc + log(A)) is limited separately
                # by its own comparison with saturation; accept when some definition compares / assigns a bound
                res.add(("computed", ""))
            else:
                res.add(r)
        real = {r for r in res if r[0] != "computed"}
        if ("computed", "") in res:
            # some definition is not a hydraulic bound (e.g. thX = th_fc + log(A), th_s + 0.01): the name is a bound only where it has been
            # compared with one (checked by the caller on the path)
            return ("computed", "")
        if len(real) == 1:
            return real.pop()
        if len(real) > 1:
            idx = {r[1] for r in real}
            return ("several", idx.pop()) if len(idx) == 1 else None
        return ("computed", "")
    if isinstance(e, ast.BinOp) and isinstance(e.op, ast.Sub):
        return _resolve_bound(fi, flow, e.left, at, depth + 1)        # bound - x (x >= 0 by the surrounding tests) is no larger than the bound
    return None


def _computed_bound_limited(fi, flow, name: str, at: int, idx: str) -> bool:
    """every definition of `name` that is not itself a hydraulic bound reaches node `at` only along an edge on which `name <= B` is known
    for a hydraulic bound B of compartment [idx]: the False edge of `name > B` (whose True edge re-assigns the bound) or the True edge of
    `name <= B`.  Paths on which the name is re-defined are cut (the new definition is judged on its own)."""
    cfg = flow.cfg
    for d in flow.defs_reaching(name, at):
        if d == ENTRY:
            return False
        st = cfg.nodes[d].ast
        if not isinstance(st, ast.Assign):
            return False
        rb = _resolve_bound(fi, flow, st.value, d)
        if rb is not None and rb[0] != "computed" and (not rb[1] or rb[1] == idx):
            continue                      # this definition is a bound of the compartment
        seen, stack = set(), [(t, l, d) for t, l in cfg.nodes[d].succs]
        while stack:
            k, lab, src = stack.pop()
            sn = cfg.nodes[src]
            # the edge src -(lab)-> k: does it establish name <= B ?
            c = sn.ast
            if sn.kind == "test" and isinstance(c, ast.Compare) and len(c.ops) == 1 and norm(c.left) == name:
                rb3 = _resolve_bound(fi, flow, c.comparators[0], src)
                real = rb3 is not None and rb3[0] != "computed" and (not rb3[1] or rb3[1] == idx)
                if real and ((isinstance(c.ops[0], (ast.LtE, ast.Lt)) and lab is True) or (isinstance(c.ops[0], (ast.Gt, ast.GtE)) and lab is False)):
                    continue              # limited along this edge
            if k == at:
                return False
            if k in seen:
                continue
            seen.add(k)
            if name in flow.defs_at.get(k, []):
                continue                  # re-defined: this definition no longer reaches along here
            stack.extend((t, l, k) for t, l in cfg.nodes[k].succs)
    return True


def rule_a(chk, prog):
    roles = step_roles(prog)
    step = prog.func(STEP_FN)
    n_upd = 0
    for key in sorted(roles.reached):
        fi = prog.funcs[key]
        if not fi.module.startswith("aquacrop.solution"):
            continue
        wl = _water_locals(prog, fi, step)
        flow = flow_of(fi)
        cfg = flow.cfg
        where = f"{fi.module}:{fi.qualname}"
        for a in walk_no_nested(fi.node):
            if not (isinstance(a, ast.Assign) and isinstance(a.targets[0], ast.Subscript)):
                continue
            t = a.targets[0]
            if not _is_water_array(fi, t.value, roles, wl):
                continue
            v = a.value
            # increasing self-update: value = <water cell with the same index> + e
            if not (isinstance(v, ast.BinOp) and isinstance(v.op, ast.Add)):
                continue
            base = v.left
            if not (isinstance(base, ast.Subscript) and norm(base.slice) == norm(t.slice)
                    and (_is_water_array(fi, base.value, roles, wl) or "th" in norm(base.value).lower())):
                continue
            nid = flow.stmt_node.get(id(a))
            if nid is None:
                continue
            n_upd += 1
            chk.fn(key)
            construct = norm(a)[:100]
            idx = norm(t.slice)
            cell = norm(t)
            # (1) cap test on every path before the cell is used otherwise / exit of the enclosing loop body
            verdict, detail = _cap_follows(fi, flow, nid, t, cell, idx)
            if verdict:
                chk.ok("C03.a", where, construct, detail)
                continue
            # (2) bounded by construction
            ok2, d2 = _bounded_by_construction(prog, fi, flow, a, nid, t)
            if ok2:
                chk.ok("C03.a", where, construct, d2)
            else:
                chk.violation("C03.a", where, construct,
                              f"water content of a compartment is increased but {detail}; {d2}: the compartment can end the day above its "
                              "own saturation / adjusted field capacity", loc=fi.loc(a))
    chk.floor("C03.a", n_upd, 5, "increasing updates of water-content cells")


def _cap_follows(fi, flow, nid, target, cell, idx) -> Tuple[bool, str]:
    cfg = flow.cfg
    # walk forward from the update; every path must hit a cap test on the same cell before exit / back edge / other store to the cell
    order = {k: i for i, k in enumerate(cfg.rpo())}
    seen = set()
    stack = [t for t, _ in cfg.nodes[nid].succs]
    caps = []
    while stack:
        k = stack.pop()
        if k in seen:
            continue
        seen.add(k)
        n = cfg.nodes[k]
        if n.kind == "test" and isinstance(n.ast, ast.Compare) and len(n.ast.ops) == 1:
            l, r = n.ast.left, n.ast.comparators[0]
            if norm(l) == cell and isinstance(n.ast.ops[0], (ast.Gt, ast.GtE, ast.Lt, ast.LtE)):
                caps.append(n)
                continue          # this path is covered (outcomes examined below)
        if k == cfg.exit:
            return False, "a path reaches the end of the function without comparing the cell with an upper bound"
        if order.get(k, 0) <= order.get(nid, 0) and k != nid:
            return False, "a path leaves the loop iteration without comparing the cell with an upper bound"
        if k == nid:
            return False, "a path returns to the update without comparing the cell with an upper bound"
        stack.extend(t for t, _ in n.succs)
    if not caps:
        return False, "no comparison of the cell with an upper bound follows"
    for c in caps:
        op = c.ast.ops[0]
        bound = c.ast.comparators[0]
        exceeds = True if isinstance(op, (ast.Gt, ast.GtE)) else False
        rb = _resolve_bound(fi, flow, bound, c.id)
        if rb is None:
            return False, f"the bound `{norm(bound)}` of the comparison `{norm(c.ast)}` is not a saturation / field-capacity value"
        attr, bidx = rb
        if attr == "computed":
            # a threshold computed from the drainage characteristic (thX) is a bound of the compartment only where it has itself been
            # compared with a hydraulic bound of that compartment: on the `thX <= th_s` side of such a test (not on the `thX > th_s` side)
            limited = isinstance(bound, ast.Name) and _computed_bound_limited(fi, flow, bound.id, c.id, idx)
            if not limited:
                return False, (f"the comparison `{norm(c.ast)}` bounds the cell by the computed threshold `{norm(bound)}` on a path where that threshold "
                               "is not itself limited by the compartment's saturation (it is reached on the `threshold > saturation` side)")
        if attr not in ("computed",) and bidx and bidx != idx:
            return False, (f"the comparison `{norm(c.ast)}` bounds compartment [{idx}] by the value of compartment [{bidx}] "
                           f"({attr}[{bidx}])")
        # on the 'exceeds' branch the cell is assigned the bound (or bound - x) before anything else
        tgt = [t for t, l in c.succs if l is exceeds]
        okb = False
        # region governed by the exceeds-branch: nodes reachable from it that do not post-dominate the test
        pdom = cfg.postdominators().get(c.id, set())
        seen2, st2 = set(), list(tgt)
        while st2:
            k = st2.pop()
            if k in seen2 or k in pdom:
                continue
            seen2.add(k)
            n = cfg.nodes[k]
            a = n.ast
            if isinstance(a, ast.Assign) and norm(a.targets[0]) == cell:
                v = a.value
                lhs = v.left if (isinstance(v, ast.BinOp) and isinstance(v.op, ast.Sub)) else v
                rb2 = _resolve_bound(fi, flow, lhs, k)
                if norm(lhs) == norm(bound) or rb2 is not None:
                    if rb2 is not None and rb2[1] and rb2[1] != idx and rb2[0] != "computed":
                        return False, f"on overflow the cell [{idx}] is set to the bound of compartment [{rb2[1]}]"
                    okb = True
                else:
                    return False, f"on overflow the cell is assigned `{norm(v)}`, not its bound"
                continue
            st2.extend(t for t, _ in n.succs)
        if not okb:
            return False, f"after `{norm(c.ast)}` the cell is not reset to the bound"
    return True, f"capped by `{norm(caps[0].ast)}` (same compartment) on every path"


def _bounded_by_construction(prog, fi, flow, a, nid, t) -> Tuple[bool, str]:
    cfg = flow.cfg
    sym = Sym(prog, fi)
    if nid not in sym.state_in:
        return False, "unreachable"
    st = sym.state_in[nid]
    inc = a.value.right
    old = sym.nf(a.value.left, st)
    d = sym.nf(inc, st)
    # guarded room: control dependent on `room >= inc` with room == bound[i] - cell (rounding ignored)
    for tid, label in cfg.transitive_control_deps(nid):
        tn = cfg.nodes[tid]
        if tn.kind == "test" and isinstance(tn.ast, ast.Compare) and label is True and isinstance(tn.ast.ops[0], (ast.GtE, ast.Gt)):
            room, need = tn.ast.left, tn.ast.comparators[0]
            if tid in sym.state_in and A.equal(sym.nf(need, sym.state_in[tid]), d):
                from .c01 import _strip_round
                # resolve the room through its definition
                r_expr = room
                if isinstance(room, ast.Name):
                    ds = flow.defs_reaching(room.id, tid)
                    if len(ds) == 1 and ds[0] != ENTRY and isinstance(cfg.nodes[ds[0]].ast, ast.Assign):
                        r_expr = cfg.nodes[ds[0]].ast.value
                r_expr = _strip_round(r_expr)
                if isinstance(r_expr, ast.BinOp) and isinstance(r_expr.op, ast.Sub) and norm(r_expr.right) == norm(t) \
                        and isinstance(r_expr.left, ast.Subscript) and norm(r_expr.left.slice) == norm(t.slice):
                    return True, f"guarded room: applied only when {norm(r_expr.left)} - {norm(t)} >= increment"
    # convex step: new - old == lambda * (target - old) with a single-atom lambda
    for m_l in list(d.keys()):
        pass
    atoms = sorted({x for m in d for x, _ in m})
    for lam in atoms:
        # d = lam * (target - old)  <=>  every monomial of d contains lam^1 and d/lam + old is free of lam
        if all(dict(m).get(lam, 0) == 1 for m in d):
            q = {tuple((x, p) for x, p in m if x != lam): c for m, c in d.items()}
            target = A.add(q, old)
            if not any(lam in {x for x, _ in m} for m in target) and not any(x in {y for mm in old for y, _ in mm} for m in target for x, _ in m):
                return True, f"convex step towards {A.text(target)[:60]} with weight {lam} (a root-zone fraction in [0,1])"
    return False, "the increment is not bounded by construction either"


def _pond_cap(chk, fi, flow, node, v, text, where):
    """C03.g (ponding never exceeds the bund height): a store made with bunds present is the bund height itself, min(., bund height),
    a value guarded by a comparison with the bund height, a decrease, or is followed on every path to the function exit by the
    comparison `ponding > bund height` whose exceed-branch assigns the bund height."""
    cfg = flow.cfg
    tgt = node.targets[0]
    tname = norm(tgt)
    def is_bund(e):
        return any((isinstance(x, ast.Attribute) and x.attr == "z_bund") or (isinstance(x, ast.Name) and "zbund" in x.id.lower().replace("_", "")) for x in ast.walk(e))
    def is_bund_exact(x):
        while isinstance(x, ast.Call) and isinstance(x.func, ast.Name) and x.func.id == "float" and x.args:
            x = x.args[0]
        if isinstance(x, ast.BinOp) and isinstance(x.op, ast.Mult) and isinstance(x.right, ast.Constant) and x.right.value == 1:
            x = x.left
        return (isinstance(x, ast.Attribute) and x.attr == "z_bund") or (isinstance(x, ast.Name) and "zbund" in x.id.lower().replace("_", ""))
    nid = flow.stmt_node[id(node)]
    e = v
    while isinstance(e, ast.Call) and isinstance(e.func, ast.Name) and e.func.id == "float" and e.args:
        e = e.args[0]
    if isinstance(e, ast.BinOp) and isinstance(e.op, ast.Mult) and isinstance(e.right, ast.Constant) and e.right.value == 1:
        e = e.left
    if is_bund_exact(e):
        chk.ok("C03.g", where, text, "the bund height itself")
        return
    if isinstance(e, ast.Call) and isinstance(e.func, ast.Name) and e.func.id == "min" and any(is_bund_exact(a) for a in e.args):
        chk.ok("C03.g", where, text, "min(., bund height)")
        return
    if isinstance(e, ast.BinOp) and isinstance(e.op, ast.Sub) and norm(e.left) == tname:
        chk.ok("C03.g", where, text, "decrease of the ponding")
        return
    # guarded: stored value compared with the bund height on the way (value <= bund height edge)
    for t, l in cfg.transitive_control_deps(nid):
        c = cfg.nodes[t].ast
        if cfg.nodes[t].kind == "test" and isinstance(c, ast.Compare) and len(c.ops) == 1 and (is_bund_exact(c.left) or is_bund_exact(c.comparators[0])) and \
                any(norm(x) == norm(e) for x in (c.left, c.comparators[0])):
            gt = isinstance(c.ops[0], (ast.Gt, ast.GtE)) and norm(c.left) == norm(e)
            lt = isinstance(c.ops[0], (ast.Lt, ast.LtE)) and norm(c.left) == norm(e)
            if (gt and l is False) or (lt and l is True):
                chk.ok("C03.g", where, text, f"only when `{norm(c)}` is {l}: the stored value does not exceed the bund height")
                return
    # followed by the cap on every path to the exit
    caps = set()
    for n in cfg.live_nodes():
        c = n.ast
        if n.kind == "test" and isinstance(c, ast.Compare) and len(c.ops) == 1 and isinstance(c.ops[0], ast.Gt) and norm(c.left) == tname and is_bund_exact(c.comparators[0]):
            sets_ = [d for d in cfg.live_nodes() if isinstance(d.ast, ast.Assign) and norm(d.ast.targets[0]) == tname and is_bund_exact(d.ast.value)
                     and (n.id, True) in cfg.control_deps().get(d.id, set())]
            if sets_:
                caps.add(n.id)
    if caps and not cfg.paths_exist_avoiding(nid, cfg.exit, caps):
        chk.ok("C03.g", where, text, "followed on every path by the comparison with the bund height whose exceed-branch assigns it")
    else:
        chk.violation("C03.g", where, text, "ponded water is stored behind bunds without being limited to the bund height (no cap on some path to the exit): "
                      "ponding can exceed the bund height", loc=fi.loc(node))


def rule_b(chk, prog):
    n = 0
    for roles in (init_roles(prog), step_roles(prog)):
        for key in sorted(roles.reached):
            fi = prog.funcs[key]
            flow = flow_of(fi)
            cfg = flow.cfg
            where = f"{fi.module}:{fi.qualname}"
            sites = []
            for st in stores(prog, fi, roles):
                if st.kind == "attr" and st.field == "surface_storage" and any(p == "STATE.surface_storage" for p in st.paths):
                    sites.append((st.node, getattr(st.node, "value", None), st.text))
            # scalar formals carrying the ponding depth
            for p_ in fi.params:
                if any(q == "STATE.surface_storage" for q in roles.env.get(key, {}).get(p_, ())):
                    for a in walk_no_nested(fi.node):
                        if isinstance(a, ast.Assign) and isinstance(a.targets[0], ast.Name) and a.targets[0].id == p_:
                            sites.append((a, a.value, norm(a)))
            for node, v, text in sites:
                nid = flow.stmt_node.get(id(node))
                if nid is None:
                    continue
                if fi.name == "__init__":
                    continue
                n += 1
                chk.fn(key)
                deps = [(cfg.nodes[t].ast, l) for t, l in cfg.transitive_control_deps(nid) if cfg.nodes[t].kind == "test"]
                if isinstance(v, ast.Constant) and v.value == 0:
                    chk.ok("C03.b", where, text, "literal 0")
                    continue
                # every path to the store passes an edge on which the bund switch is known to be on
                on_edges = set()
                for tn in cfg.live_nodes():
                    if tn.kind != "test":
                        continue
                    tt = norm(tn.ast)
                    if re.search(r"bunds$", tt, re.I) and not isinstance(tn.ast, ast.Compare):
                        on_edges.add((tn.id, True))
                    elif re.search(r"bunds == False$", tt, re.I):
                        on_edges.add((tn.id, False))
                    elif re.search(r"bunds == True$", tt, re.I) or re.search(r"bunds is True$", tt, re.I):
                        on_edges.add((tn.id, True))
                bund = bool(on_edges) and not cfg.reachable_without_edges(nid, on_edges)
                if bund:
                    chk.ok("C03.b", where, text, "only when bunds are present (on every path)")
                    _pond_cap(chk, fi, flow, node, v, text, where)
                    continue
                # a value returned by a callee that itself satisfies the rule (infiltration / soil_evaporation results)
                if isinstance(node, ast.Assign) and isinstance(node.value, ast.Call) and prog.resolve_call(fi, node.value) is not None:
                    chk.ok("C03.b", where, text[:90], "value returned by a process whose own ponding stores are checked", nontrivial=False)
                    continue
                tgt = node.targets[0]
                dec = isinstance(v, ast.BinOp) and isinstance(v.op, ast.Sub) and norm(v.left) == norm(tgt)
                pos = any(isinstance(tst, ast.Compare) and norm(tst.left) == norm(tgt) and isinstance(tst.ops[0], ast.Gt)
                          and norm(tst.comparators[0]) in ("0", "0.0") and l is True for tst, l in deps)
                if dec and pos:
                    # ... and by no more than what is ponded: guarded by `ponding > x` (or >=) for the very amount x that is taken
                    x = norm(v.right).strip("()")
                    def same_amount(c):
                        o = norm(c).strip("()")
                        if o == x:
                            return True
                        # x is a local assigned from the compared expression on the guarded path (EsAct = EsPot; s = s - EsAct)
                        if isinstance(v.right, ast.Name):
                            for d in flow.defs_reaching(v.right.id, nid):
                                da = cfg.nodes[d].ast if d != ENTRY else None
                                if isinstance(da, ast.Assign) and norm(da.value).strip("()") == o:
                                    return True
                        if isinstance(c, ast.Name):
                            for d in flow.defs_reaching(c.id, nid):
                                da = cfg.nodes[d].ast if d != ENTRY else None
                                if isinstance(da, ast.Assign) and norm(da.value).strip("()") == x:
                                    return True
                        return False
                    covered = any(isinstance(tst, ast.Compare) and norm(tst.left) == norm(tgt) and isinstance(tst.ops[0], (ast.Gt, ast.GtE)) and l is True
                                  and same_amount(tst.comparators[0]) for tst, l in deps)
                    if covered:
                        chk.ok("C03.b", where, text, "decrease of existing ponding, only when the ponding exceeds the amount taken")
                    else:
                        chk.violation("C03.b", where, text, f"the ponding is reduced by `{x}` without a guard `ponding > {x}` for that very amount: ponded water can "
                                      "become negative", loc=fi.loc(node))
                else:
                    chk.violation("C03.b", where, text,
                                  "the ponding depth is given a value that is neither 0, nor conditional on bunds, nor a decrease of "
                                  "existing ponding: water can pond on a field without bunds", loc=fi.loc(node))
    chk.floor("C03.b", n, 12, "stores to the ponding depth")


def rule_c(chk, prog):
    """a water-content cell that is set to a hydraulic property takes the property of the same compartment"""
    roles = step_roles(prog)
    step = prog.func(STEP_FN)
    n = 0
    for key in sorted(roles.reached):
        fi = prog.funcs[key]
        if not fi.module.startswith("aquacrop.solution"):
            continue
        wl = _water_locals(prog, fi, step)
        flow = flow_of(fi)
        for a in walk_no_nested(fi.node):
            if not (isinstance(a, ast.Assign) and isinstance(a.targets[0], ast.Subscript)):
                continue
            t = a.targets[0]
            if not _is_water_array(fi, t.value, roles, wl):
                continue
            nid = flow.stmt_node.get(id(a))
            if nid is None:
                continue
            v = a.value
            lhs = v.left if isinstance(v, ast.BinOp) and isinstance(v.op, ast.Sub) else v
            if isinstance(lhs, ast.BinOp):
                continue
            rb = _resolve_bound(fi, flow, lhs, nid)
            if rb is None or rb[0] in ("computed", "several") or not rb[1]:
                continue
            n += 1
            chk.fn(key)
            construct = norm(a)[:100]
            where = f"{fi.module}:{fi.qualname}"
            if rb[1] == norm(t.slice):
                chk.ok("C03.c", where, construct, f"bound {rb[0]}[{rb[1]}] of the same compartment")
            else:
                chk.violation("C03.c", where, construct,
                              f"compartment [{norm(t.slice)}] is set to {rb[0]}[{rb[1]}], the property of another compartment: with layered "
                              "soils it ends above its own saturation or below it", loc=fi.loc(a))
    chk.floor("C03.c", n, 4, "stores of a hydraulic bound into a water-content cell")

# --------------------------------------------------------------------------------------------- C03.d / C03.e

HYDRAULIC = {"th_wp", "th_fc", "th_s", "th_dry", "th_fc_Adj"}


def _hyd_subs(e: ast.AST) -> List[ast.Subscript]:
    out = []
    for x in ast.walk(e):
        if isinstance(x, ast.Subscript):
            v = x.value
            if (isinstance(v, ast.Attribute) and v.attr in HYDRAULIC) or (isinstance(v, ast.Name) and any(v.id.endswith(h) for h in HYDRAULIC)):
                out.append(x)
    return out


def _enclosing_loops(fn: ast.AST) -> Dict[int, List[ast.AST]]:
    enc: Dict[int, List[ast.AST]] = {}
    def walk(stmts, loops):
        for st in stmts:
            enc[id(st)] = loops
            if isinstance(st, (ast.FunctionDef, ast.AsyncFunctionDef, ast.ClassDef)):
                continue
            inner = loops + [st] if isinstance(st, (ast.For, ast.While)) else loops
            for fld in ("body", "orelse", "finalbody"):
                sub = getattr(st, fld, None)
                if isinstance(sub, list):
                    walk(sub, inner if fld == "body" else loops)
            for h in getattr(st, "handlers", []) or []:
                walk(h.body, loops)
    walk(fn.body, [])
    return enc


def _layer_change_idiom(fi, flow, use_nid: int, tname: str, idx: str, d_in: List[int], d_out: List[int]) -> Tuple[bool, str]:
    """the definitions d_in of the threshold inside the loop are executed whenever the compartment enters a new layer,
    and certainly on the first iteration, so the definitions d_out from before the loop never reach the use:
        L = <obj>.Layer[idx];  if L > P:  T = <own bounds>;  P = L      with P a constant < 1 before the loop"""
    cfg = flow.cfg
    if not d_in:
        return False, "no definition inside the loop"
    guards = set()
    for d in d_in:
        cds = [(t, l) for t, l in cfg.control_deps().get(d, set()) if cfg.nodes[t].kind == "test"]
        hit = None
        for t, l in cds:
            c = cfg.nodes[t].ast
            if l is True and isinstance(c, ast.Compare) and len(c.ops) == 1 and isinstance(c.ops[0], ast.Gt) \
                    and isinstance(c.left, ast.Name) and isinstance(c.comparators[0], ast.Name):
                hit = (t, c.left.id, c.comparators[0].id)
        if hit is None:
            return False, "a definition inside the loop is not guarded by a layer-change test"
        guards.add(hit)
    if len(guards) != 1:
        return False, "several different guards"
    t, L, P = guards.pop()
    # L is this iteration's layer number
    ld = flow.defs_reaching(L, t)
    if len(ld) != 1 or ld[0] == ENTRY:
        return False, f"{L} has several definitions"
    la = cfg.nodes[ld[0]].ast
    if not (isinstance(la, ast.Assign) and isinstance(la.value, ast.Subscript) and isinstance(la.value.value, ast.Attribute)
            and la.value.value.attr == "Layer" and norm(la.value.slice) == idx):
        return False, f"{L} is not the layer number of compartment [{idx}]"
    # P: constants < 1 from before the loop, `P = L` inside the guarded block
    for pd in flow.defs_reaching(P, t):
        if pd == ENTRY:
            return False, f"{P} is a parameter"
        pa = cfg.nodes[pd].ast
        if not (isinstance(pa, ast.Assign) and len(pa.targets) == 1 and isinstance(pa.targets[0], ast.Name)):
            return False, f"{P} has an unrecognised definition"
        v = pa.value
        if isinstance(v, ast.UnaryOp) and isinstance(v.op, ast.USub) and isinstance(v.operand, ast.Constant):
            v = ast.Constant(value=-v.operand.value)
        if isinstance(v, ast.Constant) and isinstance(v.value, (int, float)) and not isinstance(v.value, bool):
            if not v.value < 1:
                return False, f"{P} starts at {v.value}, not below the first layer number 1"
            continue
        if isinstance(v, ast.Name) and v.id == L and (t, True) in cfg.control_deps().get(pd, set()):
            continue
        return False, f"the previous-layer marker {P} is initialised with `{norm(pa.value)}`: the first compartment's layer is then not " \
                      f"seen as a new layer and the threshold computed before the loop reaches the refill"
    return True, f"recomputed from compartment [{idx}]'s own bounds at every layer change ({L} > {P}, {P} starts below 1)"


def _threshold_use(chk, fi, flow, enc, a, t, idx, nm, at) -> Tuple[bool, str]:
    cfg = flow.cfg
    loops = enc.get(id(a), [])
    inner = loops[-1] if loops else None
    body_ids = {flow.stmt_node.get(id(s)) for s in ast.walk(inner) if isinstance(s, ast.stmt)} if inner is not None else set()
    rd = flow.defs_reaching(nm, at)
    bad, d_in, d_out = [], [], []
    for d in rd:
        if d == ENTRY:
            bad.append("a parameter")
            continue
        (d_in if d in body_ids else d_out).append(d)
        da = cfg.nodes[d].ast
        hs = _hyd_subs(da.value) if isinstance(da, ast.Assign) else []
        if d in body_ids or inner is None:
            wrong = sorted({norm(h) for h in hs if norm(h.slice) != idx})
            if wrong:
                bad.append(f"`{norm(da)[:80]}` reads {', '.join(wrong)}, not compartment [{idx}]")
    if bad:
        return False, (f"the threshold {nm} that bounds / supplies the water content of compartment [{idx}] is not computed from that "
                       f"compartment's own hydraulic properties: {'; '.join(bad)}")
    if inner is None or not d_out:
        stale = [d for d in d_in if any(set(flow.defs_reaching(v.id, d)) != set(flow.defs_reaching(v.id, at))
                                        for v in ast.walk(t.slice) if isinstance(v, ast.Name))]
        if stale and inner is not None:
            ok, why = _layer_change_idiom(fi, flow, at, nm, idx, d_in, [])
            if not ok:
                return False, f"{nm} may have been computed for another compartment ({why})"
            chk.assume("A-17")
            return True, why
        return True, f"computed from compartment [{idx}]'s own hydraulic properties in the same iteration"
    ok, why = _layer_change_idiom(fi, flow, at, nm, idx, d_in, d_out)
    if ok:
        chk.assume("A-17")
        return True, why
    outs = "; ".join(f"`{norm(cfg.nodes[d].ast)[:70]}`" for d in d_out)
    return False, f"a threshold computed before the loop ({outs}) can reach the store into compartment [{idx}]: {why}"


def rule_d(chk, prog, rule="C03.d", only=None, floor=15):
    """every threshold local that decides or supplies the water content stored into compartment j is computed from compartment j's
    own hydraulic properties"""
    roles = step_roles(prog)
    step = prog.func(STEP_FN)
    n_sites = 0
    for key in sorted(roles.reached):
        fi = prog.funcs[key]
        if not fi.module.startswith("aquacrop.solution") or (only and fi.name not in only):
            continue
        wl = _water_locals(prog, fi, step)
        flow = flow_of(fi)
        cfg = flow.cfg
        where = f"{fi.module}:{fi.qualname}"
        enc = _enclosing_loops(fi.node)
        # threshold locals: some definition is built from hydraulic-property elements
        thr: Set[str] = set()
        defs_of: Dict[str, List[ast.Assign]] = {}
        for a in walk_no_nested(fi.node):
            if isinstance(a, ast.Assign) and len(a.targets) == 1 and isinstance(a.targets[0], ast.Name):
                defs_of.setdefault(a.targets[0].id, []).append(a)
                # a pure function of hydraulic properties: no water-content cell is read in it
                if _hyd_subs(a.value) and not any(isinstance(x, ast.Subscript) and x not in _hyd_subs(a.value)
                                                  and (_is_water_array(fi, x.value, roles, wl) or "th" in norm(x.value).lower().split(".")[-1].split("_"))
                                                  for x in ast.walk(a.value)):
                    thr.add(a.targets[0].id)
        if not thr:
            continue
        for a in walk_no_nested(fi.node):
            if not (isinstance(a, ast.Assign) and isinstance(a.targets[0], ast.Subscript)):
                continue
            t = a.targets[0]
            if not _is_water_array(fi, t.value, roles, wl):
                continue
            nid = flow.stmt_node.get(id(a))
            if nid is None:
                continue
            idx = norm(t.slice)
            # names feeding the stored value, through scalar locals defined in the same loop iteration (depth <= 3)
            work = [(x.id, nid) for x in ast.walk(a.value) if isinstance(x, ast.Name)]
            seen: Set[Tuple[str, int]] = set()
            uses: List[Tuple[str, int]] = []
            depth = {w: 0 for w in work}
            while work:
                nm, at = work.pop()
                if (nm, at) in seen:
                    continue
                seen.add((nm, at))
                if nm in thr:
                    uses.append((nm, at))
                    continue
                if depth.get((nm, at), 0) >= 3:
                    continue
                for d in flow.defs_reaching(nm, at):
                    if d == ENTRY:
                        continue
                    da = cfg.nodes[d].ast
                    if isinstance(da, ast.Assign) and len(da.targets) == 1 and isinstance(da.targets[0], ast.Name) \
                            and enc.get(id(da)) == enc.get(id(a)):
                        for x in ast.walk(da.value):
                            if isinstance(x, ast.Name):
                                depth[(x.id, d)] = depth.get((nm, at), 0) + 1
                                work.append((x.id, d))
            by_name: Dict[str, List[int]] = {}
            for nm, at in sorted(set(uses)):
                by_name.setdefault(nm, []).append(at)
            for nm, ats in sorted(by_name.items()):
                n_sites += 1
                chk.fn(key)
                construct = f"{norm(a)[:70]} <- {nm}"
                verdicts = [_threshold_use(chk, fi, flow, enc, a, t, idx, nm, at) for at in ats]
                fails = [v for v in verdicts if not v[0]]
                if fails:
                    chk.violation(rule, where, construct, fails[0][1], loc=fi.loc(a))
                else:
                    chk.ok(rule, where, construct, verdicts[0][1])
    chk.floor(rule, n_sites, floor, "threshold locals feeding a store into a water-content cell")
    if only:
        return
    # C03.e index kinds
    from . import _kinds
    n = _kinds.scan(chk, prog, "C03.e", roles.reached)
    chk.floor("C03.e", len([i for i in chk.instances if i["rule"] == "C03.e"]), 4, "layer-number locals / sites examined")


def rule_f(chk, prog, rule="C03.f"):
    """C03.f: 'ponding is zero whenever no bunds are configured' speaks of the field management in force on the day. The step selects
    it from the growing-season flag: in season the configured in-season management, otherwise the fallow one. Interprocedural constant
    propagation with the two objects as distinct abstract objects: at the row writer the management local is the in-season object in
    every partition with growing_season True and the fallow object in every partition with growing_season False."""
    from ..cp import batch
    from ..absint import Obj
    step = prog.func(STEP_FN)
    inf = prog.find_func("infiltration")
    call = [c for c, t in prog.calls_in(step) if getattr(t, "key", None) == inf.key]
    names = {a.value.id for c in call for a in c.args if isinstance(a, ast.Attribute) and a.attr in ("bunds", "z_bund") and isinstance(a.value, ast.Name)}
    if len(names) != 1:
        raise AnalysisError("cannot identify the step's field-management local (base of the bund arguments of infiltration)")
    fm = names.pop()
    r = batch(prog, [{"FieldMngt.bunds": False}], want_locals=[fm])[0]
    want = {True: ("cfg", "FieldMngt"), False: ("cfg", "FallowFieldMngt")}
    n = 0
    for gs in (True, False):
        parts = r.locals[gs]
        if not parts:
            chk.error(f"{rule}: no partition with growing_season={gs}")
        for l in parts:
            n += 1
            v = l[fm]
            construct = f"field management in force | growing_season={gs}"
            if isinstance(v, Obj) and v.oid == want[gs]:
                chk.ok(rule, STEP_FN, construct, f"{'in-season' if gs else 'fallow'} management object")
            else:
                chk.violation(rule, STEP_FN, construct,
                              f"on a day with growing_season={gs} the management in force is {v}, not the {'in-season' if gs else 'fallow'} field management: "
                              "bunds (mulches, curve-number adjustment) of the other period stay in force, e.g. water is held behind in-season bunds after "
                              "the crop has matured although the fallow management has none", loc=step.loc())
    chk.floor(rule, n, 2, "partitions of the row writer examined")


def rule_k(chk, prog):
    """C03.k (decrease-then-floor, must-pass-through): where a water-content cell is lowered by an amount held in a local,
    `t[i] = u[i] - e` (root extraction), every definition of e reaches the store only through the comparison of `u[i] - e` with the
    compartment's air-dry content (the test whose True branch re-assigns e = u[i] - th_dry[i]): no path from a definition of e to the
    store avoids that test. An `elif` that makes the floor an alternative to another limit of e skips it exactly when that limit fired."""
    roles = step_roles(prog)
    step = prog.func(STEP_FN)
    n = 0
    for key in sorted(roles.reached):
        fi = prog.funcs[key]
        if not fi.module.startswith("aquacrop.solution"):
            continue
        wl = _water_locals(prog, fi, step)
        flow = flow_of(fi)
        cfg = flow.cfg
        where = f"{fi.module}:{fi.qualname}"
        for a in walk_no_nested(fi.node):
            if not (isinstance(a, ast.Assign) and isinstance(a.targets[0], ast.Subscript) and _is_water_array(fi, a.targets[0].value, roles, wl)):
                continue
            v = a.value
            if not (isinstance(v, ast.BinOp) and isinstance(v.op, ast.Sub) and isinstance(v.right, ast.Name) and isinstance(v.left, ast.Subscript)
                    and norm(v.left.slice) == norm(a.targets[0].slice)):
                continue
            base = v.left
            if not (_is_water_array(fi, base.value, roles, wl) or "th" in norm(base.value).lower()):
                continue
            nid = flow.stmt_node.get(id(a))
            if nid is None:
                continue
            e = v.right.id
            idx = norm(a.targets[0].slice)
            # floor tests: (u[i] - e) < <th_dry>[i]   (or mirrored)
            floors = set()
            for t in cfg.live_nodes():
                c = t.ast
                if t.kind == "test" and isinstance(c, ast.Compare) and len(c.ops) == 1:
                    l, r, op = c.left, c.comparators[0], c.ops[0]
                    if isinstance(op, (ast.Gt, ast.GtE)):
                        l, r = r, l
                    elif not isinstance(op, (ast.Lt, ast.LtE)):
                        continue
                    if norm(l) == norm(v) and "dry" in norm(r).lower() and norm(getattr(r, "slice", ast.Constant(value=None))) == idx:
                        floors.add(t.id)
            if not floors:
                continue                  # lowered towards another floor (drainage: the adjusted field capacity) - not this rule's subject
            n += 1
            chk.fn(key)
            construct = norm(a)[:90]
            bad = None
            for d in flow.defs_reaching(e, nid):
                if d == ENTRY:
                    bad = "the incoming value"
                    break
                # a re-assignment under the True edge of the floor test is the floor itself
                if any(t_ in floors and l_ is True for t_, l_ in cfg.transitive_control_deps(d)):
                    continue
                if any(cfg.paths_exist_avoiding(s_, nid, floors) for s_, _ in cfg.nodes[d].succs if s_ not in floors):
                    bad = norm(cfg.nodes[d].ast)[:60]
                    break
            if bad is None:
                chk.ok("C03.k", where, construct, f"every definition of {e} reaches the store through the air-dry floor test")
            else:
                chk.violation("C03.k", where, construct, f"`{bad}` reaches the store on a path that skips the comparison with the air-dry content: root extraction "
                              "can take a compartment below air dry (even below zero)", loc=fi.loc(a))
    chk.floor("C03.k", n, 1, "water-content cells lowered by an amount held in a local")


def run(chk, prog, tier):
    rule_a(chk, prog)
    rule_b(chk, prog)
    rule_c(chk, prog)
    rule_d(chk, prog)
    rule_f(chk, prog)
    rule_k(chk, prog)
    # C03.l = C18.m: the initial content of a layer is computed from that layer's own properties (a content converted with another layer's
    # wilting point / field capacity starts outside the compartment's limits and stays there)
    from .c18 import rule_m as per_point_layer_lookup
    from ._alias import Alias
    per_point_layer_lookup(Alias(chk, "C18.m", "C03.l"), prog)
    from ._siblings import evap_stage_agreement
    evap_stage_agreement(chk, prog, "C03.h")
    # C03.i: the adjusted field capacity (the level drainage and capillary rise fill a compartment to under a water table) is computed by two
    # implementations; they agree after renaming, so each compartment's value is built from that compartment's own th_fc / th_s (<= its saturation)
    from ._siblings import adjusted_fc_agreement
    adjusted_fc_agreement(chk, prog, "C03.i")
    chk.assume("A-1")
