"""C06 - yields and seasonal totals agree with the daily tables."""
from __future__ import annotations
import ast
import re
from fractions import Fraction

from .. import affine as A
from ..symb import Sym
from ..common import STEP_FN, RESET_FN, step_roles, init_roles
from ..cp import row_writers, output_columns, step_local
from ..effects import stores
from ..model import norm, walk_no_nested, AnalysisError
from ..rdef import flow_of, ENTRY

EXPLANATION = (
    "C06.a (polynomial normal forms, forward relational analysis of the step on the in-season valuation): at the row "
    "writer DryYield == biomass*harvest_index_adj/100, FreshYield == DryYield/(YldWC/100), YieldPot == "
    "biomass_ns*harvest_index/100 in terms of the very values written to the same row; in biomass_accumulation the "
    "increment B'-B equals WP*fCO2*Tr/ET0 outside yield formation and, during yield formation, has every monomial "
    "divisible by WP*fCO2*Tr/ET0 and reduces to it at WPy=100 (i.e. it is WP*(1-(1-WPy/100)*phi)*fCO2*Tr/ET0 for some "
    "phi) (assumption A-11). C06.b: the summary row repeats the daily row: positions 4-6 of final_stats have the "
    "same normal forms as the DryYield / FreshYield / YieldPot row elements, position 3 is the time-step counter that "
    "indexes the daily row, position 2 the step end time, position 7 the seasonal counter selected for the method. "
    "C06.c: counters: the seasonal irrigation counter is incremented after the cap by the returned depth (irrigation), "
    "the net counter by the returned net requirement (transpiration) and by PreIrr together with IrrNet (step); the "
    "(IrrDay, IrrTot) pair is (IrrNet, irr_net_cum) for method 4 and (Irr, irr_cum) otherwise; only irrigation's "
    "return, transpiration, the step, the reset and the constructor write the counters. C06.d (typestate): the only "
    "store to final_stats is control dependent on harvest_flag is False, sets harvest_flag in the same block, is keyed "
    "by the season counter, and harvest_flag is cleared only by the season reset. C06.e: the yield-formation switch phi that scales the water productivity, WP*(1-(1-WPy/100)*phi), is at most 1 "
    "by construction at each of its definitions (constant <= 1, a ratio x/y under the guard x < y, min(x, y)/y, or a percentage of the "
    "state / 100 whose every writer keeps it <= 100) - so the gain is scaled down by no more than the crop's productivity factor. T-COLS: writer lists, column-name "
    "lists and array widths agree; state columns carry the field of the same name, flux columns the designated "
    "return of the designated process. C06.c also: both seasonal counters are cleared on every path of the season reset; on the net-irrigation valuation no constant store to the net counter in transpiration is reachable. C06.f: the yearly CO2 concentration that enters the CO2-adjusted water productivity is interpolated from the user's table sorted by year (np.interp needs ascending years; an unsorted table is valid input). C06.g (= C08.c): the season reset rewrites the CO2 adjustment of the water productivity unconditionally on the season's own crop copy - the factor of the daily biomass gain WP x fCO2 x Tr/ET0 is the season's, not a stale copy's. C06.h: the depth written to the IrrDay column under a surface-irrigation method is the depth irrigation() returned (and accumulated in the seasonal counter in the same call), with no redefinition in between. NOT decided: numeric equality of sums (follows from the identities by exact "
    "arithmetic only).")

IN_SEASON = {"growing_season is True": True, "growing_season is False": False}

FLUX_SOURCE = {   # column -> process whose return value it must be
    "Wr": "root_zone_water", "Infl": "infiltration", "Runoff": "infiltration", "DeepPerc": "infiltration",
    "CR": "capillary_rise", "GwIn": "groundwater_inflow", "Es": "soil_evaporation", "EsPot": "soil_evaporation",
    "Tr": "transpiration", "TrPot": "transpiration",
}


def _single_atom(p):
    if len(p) != 1:
        return None
    (m, c), = p.items()
    if c != 1 or len(m) != 1 or m[0][1] != 1:
        return None
    return m[0][0]


def _subst(poly, atom, value: Fraction):
    out = {}
    for m, c in poly.items():
        k = c
        rest = []
        for a, pw in m:
            if a == atom:
                k = k * (value ** pw)
            else:
                rest.append((a, pw))
        rest = tuple(rest)
        v = out.get(rest, 0) + k
        if v == 0:
            out.pop(rest, None)
        else:
            out[rest] = v
    return out


def rule_a(chk, prog):
    step = prog.func(STEP_FN)
    chk.fn(step.key)
    s = Sym(prog, step, force=IN_SEASON)
    w = row_writers(prog)["crop_growth"]
    cols = output_columns(prog)["crop_growth"]
    n = s.cfg.node_of(w)
    st = s.state_in[n.id]
    vals = {c: s.nf(e, st) for c, e in zip(cols, w.value.elts)}
    need = ["biomass", "biomass_ns", "harvest_index", "harvest_index_adj", "DryYield", "FreshYield", "YieldPot"]
    if any(c not in vals for c in need):
        raise AnalysisError("crop_growth columns changed")
    # the crop's dry-matter fraction: the atom <crop>.YldWC in the row's FreshYield
    yld = [a for m in vals["FreshYield"] for a, _ in m if a.endswith(".YldWC")]
    hundred = A.const(Fraction(1, 100))
    checks = [
        ("DryYield == biomass * harvest_index_adj / 100", vals["DryYield"], A.mul(A.mul(vals["biomass"], vals["harvest_index_adj"]), hundred)),
        ("YieldPot == biomass_ns * harvest_index / 100", vals["YieldPot"], A.mul(A.mul(vals["biomass_ns"], vals["harvest_index"]), hundred)),
    ]
    if yld:
        inv = A.inverse(A.mul(A.atom(yld[0]), hundred))
        checks.append(("FreshYield == DryYield / (YldWC / 100)", vals["FreshYield"], A.mul(vals["DryYield"], inv)))
    else:
        chk.violation("C06.a", STEP_FN, "FreshYield == DryYield / (YldWC / 100)", "the fresh yield written to the row does not involve the crop's dry-matter fraction YldWC",
                      loc=step.loc(w))
    for construct, got, want in checks:
        if A.equal(got, want):
            chk.ok("C06.a", STEP_FN, construct, f"row value: {A.text(got)[:120]}")
        else:
            chk.violation("C06.a", STEP_FN, construct,
                          f"the value written to the row is {A.text(got)[:140]} but the formula over the same row's values gives {A.text(want)[:140]}",
                          loc=step.loc(w))
    # ---- biomass_accumulation
    ba = prog.find_func("biomass_accumulation")
    chk.fn(ba.key)
    where = f"{ba.module}:{ba.qualname}"
    call = [c for c, t in prog.calls_in(step) if getattr(t, "key", None) == ba.key]
    if len(call) != 1:
        raise AnalysisError("expected one call of biomass_accumulation in the step")
    call = call[0]
    P = ba.params
    def formal_for(pred):
        for i, a in enumerate(call.args):
            if pred(a):
                return P[i]
        return None
    f_B = formal_for(lambda a: isinstance(a, ast.Attribute) and a.attr == "biomass")
    f_BNS = formal_for(lambda a: isinstance(a, ast.Attribute) and a.attr == "biomass_ns")
    f_hiref = formal_for(lambda a: isinstance(a, ast.Attribute) and a.attr == "hi_ref")
    f_crop = formal_for(lambda a: isinstance(a, ast.Name) and a.id == "crop")
    # transpiration's results by provenance: the one reaching the Tr column; the one that reaches no column, is not the
    # state and is not the net irrigation requirement (the no-stress potential); reference ET = element 3 of the weather row
    tr_call = [c for c, t in prog.calls_in(step) if getattr(t, "name", None) == "transpiration"]
    tr_tg = [n.targets[0].elts for n in walk_no_nested(step.node) if isinstance(n, ast.Assign) and tr_call and n.value is tr_call[0]
             and isinstance(n.targets[0], ast.Tuple)]
    L_tr, L_trpot, L_net = step_local(prog, "col:Tr"), step_local(prog, "col:TrPot"), step_local(prog, "irr_net")
    tr_args = {a.id for a in tr_call[0].args if isinstance(a, ast.Name)} if tr_call else set()
    rest = [t.id for t in (tr_tg[0] if tr_tg else []) if isinstance(t, ast.Name) and t.id not in (L_tr, L_trpot, L_net) and t.id not in tr_args]
    L_trns = rest[0] if len(rest) == 1 else None
    et0_defs = {n.targets[0].id for n in walk_no_nested(step.node) if isinstance(n, ast.Assign) and isinstance(n.targets[0], ast.Name)
                and isinstance(n.value, ast.Subscript) and isinstance(n.value.slice, ast.Constant) and n.value.slice.value == 3
                and isinstance(n.value.value, ast.Name) and n.value.value.id in step.params}
    f_tr = formal_for(lambda a: isinstance(a, ast.Name) and a.id == L_tr)
    f_trns = formal_for(lambda a: isinstance(a, ast.Name) and a.id == L_trns)
    f_et0 = formal_for(lambda a: isinstance(a, ast.Name) and a.id in et0_defs)
    f_gs = formal_for(lambda a: isinstance(a, ast.Name) and a.id == "growing_season")
    if not all([f_B, f_BNS, f_hiref, f_crop, f_tr, f_trns, f_et0, f_gs]):
        raise AnalysisError("biomass_accumulation: cannot map the step's actual arguments to formals")
    ret = [r for r in walk_no_nested(ba.node) if isinstance(r, ast.Return)]
    if len(ret) != 1 or not isinstance(ret[0].value, ast.Tuple) or len(ret[0].value.elts) != 2:
        raise AnalysisError("biomass_accumulation: expected a single 2-tuple return")
    tests = {norm(n.ast) for n in Sym(prog, ba).cfg.live_nodes() if n.kind == "test"}
    t_hiref = [t for t in tests if re.fullmatch(rf"{f_hiref} > 0", t)]
    t_ct = sorted(t for t in tests if re.fullmatch(rf"{f_crop}\.CropType == [123]", t))
    t_nan = [t for t in tests if "isnan" in t]
    if not t_hiref or len(t_ct) < 2:
        raise AnalysisError("biomass_accumulation: the yield-formation guard (CropType in {2,3} and HIref > 0) vanished")
    base_force = {t: False for t in t_nan}       # A-11
    chk.assume("A-11")
    c_unit = lambda tr: A.mul(A.mul(A.mul(A.atom(f"{f_crop}.WP"), A.atom(f"{f_crop}.fCO2")), A.atom(tr)), A.inverse(A.atom(f_et0)))
    vals_cfg = [
        ("outside yield formation (HIref <= 0)", {t_hiref[0]: False, t_ct[0]: True}, False),
        ("outside yield formation (leafy crop)", {t: False for t in t_ct}, False),
        ("yield formation", {t_hiref[0]: True, t_ct[0]: True}, True),
    ]
    for label, force, yf in vals_cfg:
        force = dict(force)
        force.update(base_force)
        sym = Sym(prog, ba, consts={f_gs: True}, force=force)
        chk.valuation(f"biomass_accumulation: {label}")
        for n, st in sym.at_return():
            for pos, (fin, ftr) in enumerate(((f_B, f_tr), (f_BNS, f_trns))):
                inc = A.add(sym.nf(ret[0].value.elts[pos], st), A.atom(fin), -1)
                c = c_unit(ftr)
                construct = f"return[{pos}] - {fin} | {label}"
                if not yf:
                    if A.equal(inc, c):
                        chk.ok("C06.a", where, construct, f"== WP*fCO2*{ftr}/et0")
                    else:
                        chk.violation("C06.a", where, construct, f"daily biomass gain is {A.text(inc)[:140]}, not WP*fCO2*{ftr}/et0", loc=ba.loc(n.ast))
                else:
                    (cm, cc), = c.items()
                    divisible = all(all(dict(m).get(a, 0) >= pw if pw > 0 else dict(m).get(a, 0) <= pw for a, pw in cm) for m in inc) and bool(inc)
                    at100 = _subst(inc, f"{f_crop}.WPy", Fraction(100))
                    if divisible and A.equal(at100, c):
                        chk.ok("C06.a", where, construct, "every monomial divisible by WP*fCO2*Tr/et0 and equal to it at WPy=100")
                    else:
                        chk.violation("C06.a", where, construct,
                                      f"daily biomass gain {A.text(inc)[:160]} is not WP*(1-(1-WPy/100)*phi)*fCO2*{ftr}/et0", loc=ba.loc(n.ast))


def rule_b(chk, prog):
    step = prog.func(STEP_FN)
    s = Sym(prog, step, force=IN_SEASON)
    w = row_writers(prog)
    cols = output_columns(prog)
    # the final_stats writer
    fs = [n for n in walk_no_nested(step.node) if isinstance(n, ast.Assign) and isinstance(n.targets[0], ast.Subscript)
          and isinstance(n.targets[0].value, ast.Attribute) and n.targets[0].value.attr == "loc"
          and isinstance(n.targets[0].value.value, ast.Attribute) and n.targets[0].value.value.attr == "final_stats"]
    if len(fs) != 1 or not isinstance(fs[0].value, ast.List) or len(fs[0].value.elts) != 8:
        raise AnalysisError("final_stats writer not found / not an 8-element list")
    fs = fs[0]
    nfs = s.cfg.node_of(fs)
    st_fs = s.state_in[nfs.id]
    ng = s.cfg.node_of(w["crop_growth"])
    st_g = s.state_in[ng.id]
    gvals = {c: s.nf(e, st_g) for c, e in zip(cols["crop_growth"], w["crop_growth"].value.elts)}
    for pos, col in ((4, "DryYield"), (5, "FreshYield"), (6, "YieldPot")):
        got = s.nf(fs.value.elts[pos], st_fs)
        construct = f"final_stats[{pos}] == crop_growth.{col} of the harvest day"
        if A.equal(got, gvals[col]):
            chk.ok("C06.b", STEP_FN, construct, A.text(got)[:100])
        else:
            chk.violation("C06.b", STEP_FN, construct, f"summary value {A.text(got)[:120]} differs from the daily row's {A.text(gvals[col])[:120]}",
                          loc=step.loc(fs))
    # harvest step = the row index of the daily tables
    got = s.nf(fs.value.elts[3], st_fs)
    row_idx = s.nf(w["crop_growth"].targets[0].slice.elts[0], st_g)
    col0 = gvals["time_step_counter"]
    construct = "final_stats[3] (harvest step) == index and column 0 of the daily row"
    if A.equal(got, row_idx) and A.equal(got, col0):
        chk.ok("C06.b", STEP_FN, construct, A.text(got))
    else:
        chk.violation("C06.b", STEP_FN, construct, f"harvest step {A.text(got)} vs row index {A.text(row_idx)} vs column {A.text(col0)}", loc=step.loc(fs))
    got = A.text(s.nf(fs.value.elts[2], st_fs))
    construct = "final_stats[2] (harvest date) == clock step_end_time"
    if got.endswith(".step_end_time"):
        chk.ok("C06.b", STEP_FN, construct, got)
    else:
        chk.violation("C06.b", STEP_FN, construct, f"harvest date is {got}", loc=step.loc(fs))
    got = A.text(s.nf(fs.value.elts[0], st_fs))
    key = A.text(s.nf(fs.targets[0].slice, st_fs))
    construct = "final_stats row key and Season column == season counter"
    if got.endswith(".season_counter") and key == got:
        chk.ok("C06.b", STEP_FN, construct, got)
    else:
        chk.violation("C06.b", STEP_FN, construct, f"row key {key}, Season column {got}", loc=step.loc(fs))
    return s, fs


def rule_c(chk, prog, s, fs):
    step = prog.func(STEP_FN)
    flow = flow_of(step)
    # (IrrDay, IrrTot) pairing per method
    wf = row_writers(prog)["water_flux"]
    L_day, L_tot, L_net, L_irr = (step_local(prog, k) for k in ("irr_day", "irr_tot", "irr_net", "irr"))
    defs = {}
    for n in walk_no_nested(step.node):
        if isinstance(n, ast.Assign) and len(n.targets) == 1 and isinstance(n.targets[0], ast.Name) and n.targets[0].id in (L_day, L_tot):
            defs.setdefault(flow.stmt_node[id(n)], n)
    by_block = {}
    for nid, n in defs.items():
        cds = frozenset(flow.cfg.transitive_control_deps(nid))
        by_block.setdefault(cds, {})[n.targets[0].id] = n.value
    ok_pairs = 0
    for cds, d in by_block.items():
        day, tot = d.get(L_day), d.get(L_tot)
        txt = (norm(day) if day is not None else None, norm(tot) if tot is not None else None)
        tests = {(norm(flow.cfg.nodes[t].ast), l) for t, l in cds if flow.cfg.nodes[t].kind == "test"}
        m4 = any(t.endswith("irrigation_method == 4") and l is True for t, l in tests)
        not4 = any(t.endswith("irrigation_method == 4") and l is False for t, l in tests)
        construct = f"(IrrDay, IrrTot) = {txt}"
        if m4:
            good = txt[0] == L_net and txt[1] is not None and txt[1].endswith(".irr_net_cum")
        elif not4:
            good = txt[0] == L_irr and txt[1] is not None and txt[1].endswith(".irr_cum")
        else:
            good = txt == ("0", "0")
        ok_pairs += 1
        if good:
            chk.ok("C06.c", STEP_FN, construct, "daily amount and seasonal counter of the same quantity")
        else:
            chk.violation("C06.c", STEP_FN, construct, "the reported daily irrigation and the seasonal total are not the matching pair for the method",
                          loc=step.loc(day if day is not None else tot))
    chk.floor("C06.c-pairs", ok_pairs, 3, "definitions of the (IrrDay, IrrTot) pair")
    # final_stats[7] is IrrTot, water_flux.IrrDay is IrrDay
    if norm(fs.value.elts[7]) == L_tot:
        chk.ok("C06.c", STEP_FN, "final_stats[7] == IrrTot")
    else:
        chk.violation("C06.c", STEP_FN, "final_stats[7] == IrrTot", f"seasonal irrigation column is {norm(fs.value.elts[7])}", loc=step.loc(fs))
    # PreIrr added to both the daily net requirement and the seasonal net counter
    st = s.state_in[s.cfg.node_of(wf).id]
    irrnet = s.nf(ast.Name(id=L_net, ctx=ast.Load()), st)
    cum = None
    for k, v in st.env.items():
        if k.endswith(".irr_net_cum"):
            cum = v
    pre = [a for m in irrnet for a, _ in m if a.startswith("pre_irrigation@")]
    construct = "IrrNet and irr_net_cum both include PreIrr exactly once"
    if cum is not None and len(pre) == 1:
        c1 = sum(c for m, c in irrnet.items() if m == ((pre[0], 1),))
        c2 = sum(c for m, c in cum.items() if m == ((pre[0], 1),))
        if c1 == 1 and c2 == 1:
            chk.ok("C06.c", STEP_FN, construct, f"IrrNet = {A.text(irrnet)[:80]}; irr_net_cum = {A.text(cum)[:80]}")
        else:
            chk.violation("C06.c", STEP_FN, construct, f"coefficients of PreIrr: daily {c1}, seasonal {c2}", loc=step.loc(wf))
    else:
        chk.violation("C06.c", STEP_FN, construct, "pre-irrigation is not added to the daily net requirement and to the seasonal net counter",
                      loc=step.loc(wf))
    # transpiration: irr_net_cum' = irr_net_cum + IrrNet (method 4, TrPot > 0)
    tr = prog.find_func("transpiration")
    chk.fn(tr.key)
    call = [c for c, t in prog.calls_in(step) if getattr(t, "key", None) == tr.key][0]
    P = tr.params
    f_m = next(P[i] for i, a in enumerate(call.args) if isinstance(a, ast.Attribute) and a.attr == "irrigation_method")
    f_gs = next(P[i] for i, a in enumerate(call.args) if isinstance(a, ast.Name) and a.id == "growing_season")
    f_st = next(P[i] for i, a in enumerate(call.args) if isinstance(a, ast.Name) and a.id == step_local(prog, "state"))
    sym = Sym(prog, tr, consts={f_gs: True, f_m: 4}, force={"TrPot > 0": True, "TrPot <= 0": False})
    rets = sym.at_return()
    ret_t = [r for r in walk_no_nested(tr.node) if isinstance(r, ast.Return)][0]
    tg = [n for n in walk_no_nested(step.node) if isinstance(n, ast.Assign) and n.value is call][0].targets[0].elts
    pos = next(i for i, t in enumerate(tg) if isinstance(t, ast.Name) and t.id == L_net)
    for n, stt in rets:
        net = sym.nf(ret_t.value.elts[pos], stt)
        cumv = None
        for k, v in stt.env.items():
            if k.endswith(".irr_net_cum"):
                cumv = v
        construct = "transpiration: irr_net_cum' == irr_net_cum + IrrNet (method 4)"
        if cumv is not None and A.equal(A.add(cumv, net, -1), A.atom(f"{f_st}.irr_net_cum")):
            chk.ok("C06.c", f"{tr.module}:{tr.qualname}", construct, f"IrrNet = {A.text(net)[:60]}")
        else:
            chk.violation("C06.c", f"{tr.module}:{tr.qualname}", construct,
                          f"seasonal net counter becomes {A.text(cumv)[:100] if cumv is not None else 'unchanged'} while the returned daily requirement is {A.text(net)[:80]}",
                          loc=tr.loc(n.ast))
    # irrigation(): counter incremented after the cap by the returned depth -> shared with C13.b
    from .c13 import counter_accumulation
    counter_accumulation(chk, prog, "C06.c")
    # who may write the counters
    roles = step_roles(prog)
    allowed = {"solution_single_time_step", "transpiration", "reset_initial_conditions"}
    nw = 0
    for key in sorted(roles.reached):
        fi = prog.funcs[key]
        for sto in stores(prog, fi, roles):
            if sto.kind == "attr" and sto.field in ("irr_cum", "irr_net_cum") and any(p.startswith("STATE.") for p in sto.paths):
                nw += 1
                if fi.qualname in allowed:
                    chk.ok("C06.c", f"{fi.module}:{fi.qualname}", sto.text, "designated writer of the seasonal counter")
                else:
                    chk.violation("C06.c", f"{fi.module}:{fi.qualname}", sto.text, "an undesignated function writes a seasonal irrigation counter", loc=fi.loc(sto.node))
    chk.floor("C06.c-writers", nw, 6, "stores to the seasonal counters")
    # the net counter is cleared inside a season only when net irrigation is not the strategy: abstract interpretation of transpiration
    # on the valuation (method = 4, growing season) - no constant store to irr_net_cum is reachable
    from ..absint import Interp, Const as _Const
    from ..flags import DOMAINS
    from ..da import local_literal_domains
    it = Interp(prog, tr, domains=DOMAINS, local_domains=local_literal_domains(tr), part_key="facts", maxp=32,
                param_vals={f_m: _Const(4), f_gs: _Const(True)}).run()
    chk.valuation("transpiration: irrigation_method=4, growing_season=True")
    nclear = 0
    for n in it.cfg.live_nodes():
        a = n.ast
        if isinstance(a, ast.Assign) and isinstance(a.targets[0], ast.Attribute) and a.targets[0].attr == "irr_net_cum" and isinstance(a.value, ast.Constant):
            nclear += 1
            if not it.in_states.get(n.id):
                chk.ok("C06.c", f"{tr.module}:{tr.qualname}", norm(a) + f" #{nclear}", "unreachable in a net-irrigation season")
            else:
                chk.violation("C06.c", f"{tr.module}:{tr.qualname}", norm(a), "the seasonal net-irrigation counter is cleared on a day of a net-irrigation season "
                              "(e.g. a day without potential transpiration): the seasonal total no longer equals the sum of the daily column",
                              loc=tr.loc(a))
    chk.floor("C06.c-clears", nclear, 1, "constant stores to irr_net_cum in transpiration")
    # both seasonal counters start every season at 0: cleared on every path of the season reset
    rs = prog.func(RESET_FN)
    rflow = flow_of(rs)
    for cnt in ("irr_cum", "irr_net_cum"):
        nodes = set()
        for sto in stores(prog, rs, None):
            v = getattr(sto.node, "value", None)
            if sto.kind == "attr" and sto.field == cnt and isinstance(v, ast.Constant) and v.value == 0:
                k = rflow.stmt_node.get(id(sto.node)) or rflow.node_of(sto.node)
                if k is not None:
                    nodes.add(k)
        construct = f"<state>.{cnt} = 0 on every path of the season reset"
        if nodes and not rflow.cfg.paths_exist_avoiding(rflow.cfg.entry, rflow.cfg.exit, nodes):
            chk.ok("C06.c", f"{rs.module}:{rs.qualname}", construct, "cleared unconditionally")
        else:
            chk.violation("C06.c", f"{rs.module}:{rs.qualname}", construct, f"the season reset does not clear {cnt} (on every path): when the run jumps from a harvest to "
                          "the next planting date the new season's total continues the previous season's", loc=rs.loc())


def summary_written_once(flow, nid) -> bool:
    """must-pass-through: with the 'not yet harvested' edges of all harvest-flag tests removed the store is unreachable"""
    cfg = flow.cfg
    edges = set()
    for n in cfg.live_nodes():
        if n.kind != "test":
            continue
        t = norm(n.ast)
        if t.endswith(".harvest_flag is False") or t.endswith(".harvest_flag == False") or (t.startswith("not ") and t.endswith(".harvest_flag")):
            edges.add((n.id, True))
        elif t.endswith(".harvest_flag is True") or t.endswith(".harvest_flag == True") or \
                (isinstance(n.ast, ast.Attribute) and n.ast.attr == "harvest_flag"):
            edges.add((n.id, False))
    return bool(edges) and not cfg.reachable_without_edges(nid, edges)


def rule_d(chk, prog, fs):
    step = prog.func(STEP_FN)
    flow = flow_of(step)
    roles = step_roles(prog)
    nid = flow.stmt_node[id(fs)]
    cds = flow.cfg.transitive_control_deps(nid)
    tests = {(norm(flow.cfg.nodes[t].ast), l) for t, l in cds if flow.cfg.nodes[t].kind == "test"}
    guarded = summary_written_once(flow, nid)
    construct = norm(fs.targets[0]) + " = [...]"
    if guarded:
        chk.ok("C06.d", STEP_FN, construct, "every path to the store takes the True edge of a test `harvest_flag is False` (edge removal)")
    else:
        chk.violation("C06.d", STEP_FN, construct, "the summary row is written without testing the harvest flag: a season could get several rows", loc=step.loc(fs))
    # harvest_flag = True in the same block (same control dependences, after the store)
    sets = [n for n in walk_no_nested(step.node) if isinstance(n, ast.Assign) and isinstance(n.targets[0], ast.Attribute)
            and n.targets[0].attr == "harvest_flag" and isinstance(n.value, ast.Constant) and n.value.value is True]
    good = any(flow.cfg.transitive_control_deps(flow.stmt_node[id(n)]) == cds for n in sets)
    if good:
        chk.ok("C06.d", STEP_FN, "harvest_flag = True", "set in the same block as the summary row")
    else:
        chk.violation("C06.d", STEP_FN, "harvest_flag = True", "the harvest flag is not set together with the summary row", loc=step.loc(fs))
    # no other store to final_stats; harvest_flag cleared only in the reset
    nfs, nclear = 0, 0
    for key in sorted(roles.reached):
        fi = prog.funcs[key]
        for sto in stores(prog, fi, roles):
            if any(p.startswith("OUT.final_stats") for p in sto.paths):
                nfs += 1
                if sto.node is not fs:
                    chk.violation("C06.d", f"{fi.module}:{fi.qualname}", sto.text, "a second writer of the seasonal summary", loc=fi.loc(sto.node))
            if sto.kind == "attr" and sto.field == "harvest_flag" and any(p.startswith("STATE.") for p in sto.paths):
                v = getattr(sto.node, "value", None)
                if isinstance(v, ast.Constant) and v.value is False:
                    nclear += 1
                    if fi.key == RESET_FN:
                        chk.ok("C06.d", f"{fi.module}:{fi.qualname}", sto.text, "harvest flag cleared by the season reset")
                    else:
                        chk.violation("C06.d", f"{fi.module}:{fi.qualname}", sto.text, "the harvest flag is cleared outside the season reset", loc=fi.loc(sto.node))
                elif not (isinstance(v, ast.Constant) and v.value is True):
                    chk.violation("C06.d", f"{fi.module}:{fi.qualname}", sto.text, "the harvest flag is assigned a non-literal", loc=fi.loc(sto.node))
    chk.floor("C06.d-writers", nfs, 1, "stores to final_stats")
    chk.floor("C06.d-clear", nclear, 1, "clearing stores of harvest_flag")
    reset_paired_with_counter(chk, prog, "C06.d")


def rule_h(chk, prog):
    """C06.h (seasonal irrigation = sum of the daily column): the value the step writes to the IrrDay column under a surface-irrigation method
    is the very depth `irrigation()` returned - the one it added to the seasonal counter in the same call: every definition of the local that
    reaches the column is the unpacking of that call (no rescaling in between; the application efficiency belongs to the infiltrating water,
    not to the depth applied)."""
    from ..cp import step_local
    step = prog.func(STEP_FN)
    flow = flow_of(step)
    cfg = flow.cfg
    irr = step_local(prog, "irr")
    irr_day = step_local(prog, "irr_day")
    n = 0
    for a in walk_no_nested(step.node):
        if not (isinstance(a, ast.Assign) and len(a.targets) == 1 and isinstance(a.targets[0], ast.Name) and a.targets[0].id == irr_day
                and isinstance(a.value, ast.Name) and a.value.id == irr):
            continue
        nid = flow.stmt_node.get(id(a))
        if nid is None:
            continue
        n += 1
        construct = norm(a)
        bad = []
        for d in flow.defs_reaching(irr, nid):
            da = cfg.nodes[d].ast if d != ENTRY else None
            ok = isinstance(da, ast.Assign) and isinstance(da.value, ast.Call) and getattr(prog.resolve_call(step, da.value), "name", "") == "irrigation"
            if not ok:
                bad.append(norm(da)[:60] if da is not None else "function entry")
        if bad:
            chk.violation("C06.h", STEP_FN, construct, f"the depth written to the daily irrigation column is redefined after irrigation() returned it ({'; '.join(bad)}): "
                          "the seasonal counter, accumulated inside that call, no longer equals the sum of the daily column", loc=step.loc(a))
        else:
            chk.ok("C06.h", STEP_FN, construct, "the depth irrigation() returned, unmodified")
    chk.floor("C06.h", n, 1, "stores of the surface-irrigation depth to the daily column's local")


def reset_paired_with_counter(chk, prog, rule: str):
    """(C06.d, shared with C12.g) the season reset is called only right after the season counter has been advanced to the season that starts:
    the reset converts the calendar of, and applies the CO2 adjustment to, Seasonal_Crop_List[season_counter] - called before the increment it
    re-adjusts the crop of the season that has just ended and the new season runs on unconverted parameters."""
    # the reset is called only together with season_counter + 1
    up = prog.find_func("update_time")
    fl = flow_of(up)
    calls = [c for c, t in prog.calls_in(up) if getattr(t, "key", None) == RESET_FN]
    for c in calls:
        cn = fl.node_of(c)
        inc = [n for n in walk_no_nested(up.node) if isinstance(n, ast.Assign) and isinstance(n.targets[0], ast.Attribute)
               and n.targets[0].attr == "season_counter" and fl.stmt_node.get(id(n)) in fl.cfg.dominators()[cn]
               and fl.cfg.transitive_control_deps(fl.stmt_node[id(n)]) == fl.cfg.transitive_control_deps(cn)]
        construct = "reset_initial_conditions(...) preceded by season_counter + 1 in the same block"
        def _is_increment(v, at, depth=0):
            """`<clock>.season_counter + 1`, directly or through a single-definition local"""
            if norm(v).endswith(".season_counter + 1"):
                return True
            if isinstance(v, ast.Name) and depth < 3:
                ds = [d for d in fl.defs_reaching(v.id, at)]
                if len(ds) == 1 and isinstance(fl.cfg.nodes[ds[0]].ast, ast.Assign):
                    return _is_increment(fl.cfg.nodes[ds[0]].ast.value, ds[0], depth + 1)
            return False
        if inc and _is_increment(inc[0].value, fl.stmt_node[id(inc[0])]):
            chk.ok(rule, f"{up.module}:{up.qualname}", construct)
        else:
            chk.violation(rule, f"{up.module}:{up.qualname}", construct, "the season reset is not paired with the increment of the season counter", loc=up.loc(c))
    chk.floor(rule + "-reset", len(calls), 2, "calls of the season reset")


def tcols(chk, prog, rule="T-COLS"):
    step = prog.func(STEP_FN)
    cols = output_columns(prog)
    w = row_writers(prog)
    out = prog.cls("Output")
    widths = {}
    for attr, exprs in out.init_fields.items():
        e = exprs[0]
        if isinstance(e, ast.Call) and isinstance(e.func, ast.Attribute) and e.func.attr == "zeros" and isinstance(e.args[0], ast.Tuple):
            wd = e.args[0].elts[1]
            widths[attr] = wd.value if isinstance(wd, ast.Constant) else None
    s = Sym(prog, step, force=IN_SEASON)
    for table in ("water_flux", "crop_growth"):
        elts = w[table].value.elts
        construct = f"{table}: {len(elts)} row elements / {len(cols[table])} column names / array width {widths.get(table)}"
        if len(elts) == len(cols[table]) == widths.get(table):
            chk.ok(rule, STEP_FN, construct)
        else:
            chk.violation(rule, STEP_FN, construct, "writer list, column names and array width disagree", loc=step.loc(w[table]))
            continue
        st = s.state_in[s.cfg.node_of(w[table]).id]
        for c, e in zip(cols[table], elts):
            construct = f"{table}.{c} <- {norm(e)}"
            if c in FLUX_SOURCE:
                a = _single_atom(s.nf(e, st))
                m = re.match(r"^([\w.]+)@\d+\[(\d+)\]~\d+$", a or "")
                if m and m.group(1) == FLUX_SOURCE[c]:
                    chk.ok(rule, STEP_FN, construct, f"return #{m.group(2)} of {m.group(1)}")
                else:
                    chk.violation(rule, STEP_FN, construct, f"column {c} must carry the value returned by {FLUX_SOURCE[c]}, it carries {A.text(s.nf(e, st))[:100]}",
                                  loc=step.loc(e))
            elif c == "IrrDay":
                if isinstance(e, ast.Name):     # its definitions are paired with the seasonal counter by C06.c
                    chk.ok(rule, STEP_FN, construct)
                else:
                    chk.violation(rule, STEP_FN, construct, "column IrrDay does not carry the daily irrigation selected for the method", loc=step.loc(e))
            elif c == "gdd":
                t = A.text(s.nf(e, st))
                if "growing_degree_day" in t or norm(e) == "gdd":
                    chk.ok(rule, STEP_FN, construct)
                else:
                    chk.violation(rule, STEP_FN, construct, "column gdd does not carry the day's growing degree days", loc=step.loc(e))
            else:
                # state / clock columns: the field of the same name
                if isinstance(e, ast.Attribute) and e.attr == c:
                    chk.ok(rule, STEP_FN, construct, "field of the same name")
                else:
                    chk.violation(rule, STEP_FN, construct, f"column {c} does not carry the state field of that name", loc=step.loc(e))
    # actual vs potential: the "potential" column carries the return that is also kept in the state
    # (e_pot / t_pot, the demand used by next day's irrigation), the "actual" column a different return
    st_wf = s.state_in[s.cfg.node_of(w["water_flux"]).id]
    for act, pot, fn, field in (("Es", "EsPot", "soil_evaporation", "e_pot"), ("Tr", "TrPot", "transpiration", "t_pot")):
        cal = prog.find_func(fn)
        idx = {}
        for c in (act, pot):
            a = _single_atom(s.nf(w["water_flux"].value.elts[cols["water_flux"].index(c)], st_wf))
            m = re.match(r"^([\w.]+)@\d+\[(\d+)\]~\d+$", a or "")
            idx[c] = int(m.group(2)) if m else None
        construct = f"water_flux.{pot} is the potential ({fn}'s value kept as STATE.{field}), water_flux.{act} is not"
        sc = Sym(prog, cal)
        rets = [r for r in walk_no_nested(cal.node) if isinstance(r, ast.Return) and isinstance(r.value, ast.Tuple)]
        good = idx[act] is not None and idx[pot] is not None and bool(rets)
        for nn, stt in sc.at_return():
            el = nn.ast.value.elts
            if not good or max(idx.values()) >= len(el):
                good = False
                break
            # value kept as the state's demand: returned position assigned to STATE.<field> by the step, or the attribute set in the callee
            kept = None
            call = [c for c, t in prog.calls_in(step) if getattr(t, "key", None) == cal.key][0]
            tg = [a for a in walk_no_nested(step.node) if isinstance(a, ast.Assign) and a.value is call][0].targets[0].elts
            for i, t in enumerate(tg):
                if isinstance(t, ast.Attribute) and t.attr == field:
                    kept = sc.nf(el[i], stt)
            if kept is None:
                for k, v in stt.env.items():
                    if k.endswith("." + field):
                        kept = v
            if kept is None or not A.equal(sc.nf(el[idx[pot]], stt), kept) or A.equal(sc.nf(el[idx[act]], stt), kept):
                good = False
        if good:
            chk.ok(rule, STEP_FN, construct, f"returns #{idx[pot]} (potential) and #{idx[act]} (actual)")
        else:
            chk.violation(rule, STEP_FN, construct, f"the actual and potential columns of {fn} are not the actual / potential values it returns", loc=step.loc(w["water_flux"]))
    # water_storage: 3 leading columns
    ws = [n for n in walk_no_nested(step.node) if isinstance(n, ast.Assign) and isinstance(n.targets[0], ast.Subscript)
          and isinstance(n.targets[0].value, ast.Attribute) and n.targets[0].value.attr == "water_storage"]
    chk.floor(rule + "-ws", len(ws), 2, "writers of water_storage")
    # final_stats columns: 8
    fsc = out.init_fields.get("final_stats")
    ncol = None
    if fsc and isinstance(fsc[0], ast.Call):
        for kw in fsc[0].keywords:
            if kw.arg == "columns" and isinstance(kw.value, ast.List):
                ncol = len(kw.value.elts)
    construct = f"final_stats: 8 row elements / {ncol} column names"
    if ncol == 8:
        chk.ok(rule, STEP_FN, construct)
    else:
        chk.violation(rule, STEP_FN, construct, "summary writer and column names disagree", loc=step.loc())

# --------------------------------------------------------------------------------------------- C06.e

_PCT_FORMALS: Dict[str, Set[str]] = {}     # function key -> formals fed from the state's pct_lag_phase at its call in the step


def _ub1(fi, flow, nid, e, depth=0) -> Tuple[bool, str]:
    """is expression e, evaluated at cfg node nid, at most 1 by construction?"""
    cfg = flow.cfg
    if isinstance(e, ast.Constant) and isinstance(e.value, (int, float)) and not isinstance(e.value, bool):
        return (e.value <= 1, f"constant {e.value}")
    if isinstance(e, ast.Call) and isinstance(e.func, ast.Name) and e.func.id == "min" and e.args:
        for a in e.args:
            ok, why = _ub1(fi, flow, nid, a, depth + 1)
            if ok:
                return True, f"min(..., {why})"
        return False, f"no argument of {norm(e)} is bounded by 1"
    if isinstance(e, ast.BinOp) and isinstance(e.op, ast.Div):
        num, den = e.left, e.right
        # X / Y under the guard X < Y (or X <= Y), or min(X, Y) / Y
        for t, l in cfg.transitive_control_deps(nid):
            c = cfg.nodes[t].ast
            if cfg.nodes[t].kind == "test" and isinstance(c, ast.Compare) and len(c.ops) == 1:
                a, b, op = norm(c.left), norm(c.comparators[0]), c.ops[0]
                if (l is True and isinstance(op, (ast.Lt, ast.LtE)) and a == norm(num) and b == norm(den)) or \
                   (l is False and isinstance(op, (ast.Gt, ast.GtE)) and a == norm(num) and b == norm(den)) or \
                   (l is True and isinstance(op, (ast.Gt, ast.GtE)) and b == norm(num) and a == norm(den)) or \
                   (l is False and isinstance(op, (ast.Lt, ast.LtE)) and b == norm(num) and a == norm(den)):
                    return True, f"ratio {norm(e)} under the guard {norm(num)} < {norm(den)}"
        if isinstance(num, ast.Call) and isinstance(num.func, ast.Name) and num.func.id == "min" and any(norm(a) == norm(den) for a in num.args):
            return True, f"min(x, d) / d with d = {norm(den)}"
        if isinstance(den, ast.Constant) and den.value == 100 and isinstance(num, ast.Name) and num.id in _PCT_FORMALS.get(fi.key, ()):
            return True, f"percentage {norm(num)} / 100 (every writer of the state's percentage keeps it <= 100, checked below)"
        return False, f"the ratio {norm(e)} is not guarded by {norm(num)} < {norm(den)}"
    if isinstance(e, ast.Name) and depth < 3:
        ds = flow.defs_reaching(e.id, nid)
        whys = []
        for d in ds:
            if d == ENTRY:
                return False, f"{e.id} is a parameter"
            a = cfg.nodes[d].ast
            if not isinstance(a, ast.Assign):
                return False, f"unrecognised definition of {e.id}"
            ok, why = _ub1(fi, flow, d, a.value, depth + 1)
            if not ok:
                return False, why
            whys.append(why)
        return True, "; ".join(sorted(set(whys)))
    return False, f"`{norm(e)}` is not bounded by 1 by construction"


def rule_e(chk, prog):
    """WPadj = WP * (1 - (1 - WPy/100) * phi): phi <= 1 keeps the scaling at or above WPy/100"""
    ba = prog.find_func("biomass_accumulation")
    where = f"{ba.module}:{ba.qualname}"
    flow = flow_of(ba)
    n = 0
    step0 = prog.func(STEP_FN)
    for c, t in prog.calls_in(step0):
        if getattr(t, "key", None) == ba.key:
            _PCT_FORMALS[ba.key] = {ba.params[i] for i, a in enumerate(c.args) if isinstance(a, ast.Attribute) and a.attr == "pct_lag_phase"}
    for a in walk_no_nested(ba.node):
        if not isinstance(a, ast.Assign):
            continue
        for m in ast.walk(a.value):
            # (1 - <..WPy..>/100) * phi   or   phi * (1 - ...)
            if isinstance(m, ast.BinOp) and isinstance(m.op, ast.Mult):
                for x, y in ((m.left, m.right), (m.right, m.left)):
                    if isinstance(x, ast.BinOp) and isinstance(x.op, ast.Sub) and isinstance(x.left, ast.Constant) and x.left.value == 1 \
                            and any(isinstance(z, ast.Attribute) and z.attr == "WPy" for z in ast.walk(x.right)) and isinstance(y, ast.Name):
                        n += 1
                        nid = flow.stmt_node[id(a)]
                        phi = y.id
                        for d in flow.defs_reaching(phi, nid):
                            construct = f"{norm(flow.cfg.nodes[d].ast)[:80] if d != ENTRY else phi + ' (parameter)'} <= 1"
                            if d == ENTRY:
                                chk.violation("C06.e", where, construct, "the yield-formation switch is a parameter", loc=ba.loc(a))
                                continue
                            ok, why = _ub1(ba, flow, d, flow.cfg.nodes[d].ast.value)
                            if ok:
                                chk.ok("C06.e", where, construct, why)
                            else:
                                chk.violation("C06.e", where, construct,
                                              f"the yield-formation switch {phi} can exceed 1 ({why}): the water productivity then drops below "
                                              "WP*WPy/100 and the daily biomass gain below the floor the crop's productivity factor allows",
                                              loc=ba.loc(flow.cfg.nodes[d].ast))
    chk.floor("C06.e", n, 1, "sites scaling the water productivity by the yield-formation switch")
    # A-18 discharged: every writer of the state's pct_lag_phase leaves it <= 100
    step = prog.func(STEP_FN)
    nw = 0
    for key, fi in sorted(prog.funcs.items()):
        for sto in stores(prog, fi, None):
            if sto.kind == "attr" and sto.field == "pct_lag_phase":
                nw += 1
                a = sto.node
                construct = f"{sto.text[:80]} <= 100"
                w = f"{fi.module}:{fi.qualname}"
                val = a.value if isinstance(a, ast.Assign) else None
                if isinstance(val, ast.Constant) and isinstance(val.value, (int, float)) and val.value <= 100:
                    chk.ok("C06.e", w, construct, f"constant {val.value}")
                    continue
                if isinstance(val, ast.Call) and isinstance(a.targets[0], ast.Tuple):
                    callee = prog.resolve_call(fi, val)
                    pos = next((i for i, t in enumerate(a.targets[0].elts) if isinstance(t, ast.Attribute) and t.attr == "pct_lag_phase"), None)
                    rets = [r for r in walk_no_nested(callee.node) if isinstance(r, ast.Return)] if callee is not None and hasattr(callee, "node") else []
                    if pos is not None and len(rets) == 1 and isinstance(rets[0].value, ast.Tuple) and isinstance(rets[0].value.elts[pos], ast.Name):
                        cf = flow_of(callee)
                        nm = rets[0].value.elts[pos].id
                        bad = []
                        for d in cf.defs_reaching(nm, cf.stmt_node[id(rets[0])]):
                            if d == ENTRY:
                                continue        # the incoming value: inductively <= 100
                            v = cf.cfg.nodes[d].ast.value
                            if isinstance(v, ast.Constant) and isinstance(v.value, (int, float)) and v.value <= 100:
                                continue
                            if isinstance(v, ast.BinOp) and isinstance(v.op, ast.Mult) and isinstance(v.left, ast.Constant) and v.left.value == 100 \
                                    and _ub1(callee, cf, d, v.right)[0]:
                                continue
                            bad.append(norm(cf.cfg.nodes[d].ast)[:80])
                        if not bad:
                            chk.ok("C06.e", w, construct, f"{callee.qualname} returns constants <= 100, 100 * (x / y) under x < y, or the incoming value")
                            chk.fn(callee.key)
                        else:
                            chk.violation("C06.e", w, construct, f"{callee.qualname} can return a lag-phase percentage above 100: {bad}", loc=fi.loc(a))
                        continue
                chk.violation("C06.e", w, construct, "unrecognised writer of the lag-phase percentage", loc=fi.loc(a))
    chk.floor("C06.e-writers", nw, 3, "writers of pct_lag_phase")


def run(chk, prog, tier):
    rule_h(chk, prog)
    # C06.g = C08.c: the CO2 factor the daily biomass gain is scaled with is the season's own (rewritten unconditionally at every season start)
    from .c08 import rule_c as co2_factor_rewritten
    from ._alias import Alias
    co2_factor_rewritten(Alias(chk, "C08.c", "C06.g"), prog)
    rule_a(chk, prog)
    rule_e(chk, prog)
    s, fs = rule_b(chk, prog)
    rule_c(chk, prog, s, fs)
    rule_d(chk, prog, fs)
    tcols(chk, prog)
    # C06.f: the CO2 concentration behind the CO2-adjusted water productivity is interpolated from the user's table in ascending year order
    from ._siblings import interp_sorted
    chk.floor("C06.f", interp_sorted(chk, prog, "C06.f", "compute_variables"), 1, "interpolations of the CO2 table")
    chk.exhaustive = True
