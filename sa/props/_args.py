"""Argument / formal agreement (T-ARGS): the repository passes long positional argument lists (`root_development(Crop, prof, NewCond_DAP, ...)`,
`growing_degree_day(method, Tupp, Tbase, temp_max, temp_min)`), and three quarters of the name-carrying actuals are spelled like the formal
they are bound to.  A *swap* is a pair of positions (i, j) of one call where the actual at i is spelled like formal j AND the actual at j is
spelled like formal i - each goes where the other belongs.  One-way mismatches (`Crop.CCx` passed as `CCx0`) are the repository's idiom and
are not reported.  Names are compared after dropping the record prefix (`NewCond_`, `Crop.` ...), case and underscores.  Keyword arguments
bind by name and cannot be swapped.  The mirror image for results (T-RET): a tuple returned by a repository function and unpacked by position
into names, where target i is spelled like the returned name at j and vice versa.  Expected count on a healthy tree is zero: the matcher is run on an embedded positive example first."""
from __future__ import annotations
import ast
import re
from typing import Iterable, List, Optional

from ..model import norm, AnalysisError

_PREFIX = re.compile(r"^(newcond|initcond|init_cond|crop|soil|prof|profile|self|param_struct|clock_struct|irrmngt|fieldmngt|clock|weather)[_.]")


def _key(s: str) -> str:
    s = _PREFIX.sub("", s.lower())
    return re.sub(r"[^a-z0-9]", "", s)


def _actual_keys(a: ast.AST) -> List[str]:
    if isinstance(a, ast.Name):
        return [_key(a.id)]
    if isinstance(a, ast.Attribute):
        return [_key(a.attr), _key(norm(a))]
    return []


def swaps_of(call: ast.Call, formals: List[str]):
    """[(i, j)] swapped pairs of a call with the callee's positional formals"""
    fk = [_key(p) for p in formals]
    ak = [(_actual_keys(a) if i < len(fk) else []) for i, a in enumerate(call.args)]
    out = []
    for i in range(min(len(ak), len(fk))):
        for j in range(i + 1, min(len(ak), len(fk))):
            if not ak[i] or not ak[j] or fk[i] == fk[j]:
                continue
            if fk[j] in ak[i] and fk[i] in ak[j] and fk[i] not in ak[i] and fk[j] not in ak[j]:
                out.append((i, j))
    return out


_EXAMPLE = """
def callee(method, Tupp, Tbase, temp_max, temp_min):
    pass
def caller(Crop, temp_min, temp_max):
    callee(Crop.GDDmethod, Crop.Tupp, Crop.Tbase, temp_min, temp_max)
    callee(Crop.GDDmethod, Crop.Tbase, Crop.Tupp, temp_max, temp_min)
    callee(Crop.GDDmethod, Crop.Tupp, Crop.Tbase, temp_max, temp_min)
"""


def arg_swaps(chk, prog, rule: str, callers: Optional[Iterable[str]] = None) -> int:
    ex = ast.parse(_EXAMPLE)
    formals = [a.arg for a in ex.body[0].args.args]
    got = [swaps_of(c.value, formals) for c in ex.body[1].body]
    if got != [[(3, 4)], [(1, 2)], []]:
        raise AnalysisError(f"{rule}: the matcher no longer recognises its positive example ({got})")
    n = named = 0
    keys = sorted(callers) if callers is not None else sorted(prog.funcs)
    for key in keys:
        fi = prog.funcs.get(key)
        if fi is None:
            continue
        for c, t in prog.calls_in(fi):
            if not hasattr(t, "params") or hasattr(t, "init_fields"):
                continue
            pos = t.params[1:] if (t.cls and t.params and t.params[0] in ("self", "cls")) else t.params
            if len(c.args) < 2 or any(isinstance(a, ast.Starred) for a in c.args):
                continue
            n += 1
            named += sum(1 for i, a in enumerate(c.args) if i < len(pos) and _actual_keys(a))
            chk.fn(key)
            for i, j in swaps_of(c, list(pos)):
                chk.violation(rule, f"{fi.module}:{fi.qualname}", f"{t.qualname}(.., {norm(c.args[i])}, .., {norm(c.args[j])}, ..)",
                              f"arguments {i + 1} and {j + 1} are swapped: `{norm(c.args[i])}` is bound to the formal `{pos[i]}` and `{norm(c.args[j])}` to `{pos[j]}` "
                              f"- each is spelled like the other's formal", loc=fi.loc(c))
    chk.ok(rule, "aquacrop", f"{n} positional calls of repository functions ({named} name-carrying arguments)", "no pair of arguments is bound crosswise; matcher exercised on the embedded example")
    return_swaps(chk, prog, rule, callers)
    return n


_RET_EXAMPLE = """
def callee(x):
    Tr = x
    TrPot = 2 * x
    return Tr, TrPot, x
def caller(NewCond):
    TrPot, NewCond.Tr, y = callee(1)
    Tr, TrPot, y = callee(1)
"""


def _unpack_swaps(targets: List[ast.AST], returned: List[ast.AST]):
    tk = [_actual_keys(e) for e in targets]
    rk = [_actual_keys(e) for e in returned]
    out = []
    for i in range(len(rk)):
        for j in range(i + 1, len(rk)):
            if rk[i] and rk[j] and tk[i] and tk[j] and set(rk[i]) & set(tk[j]) and set(rk[j]) & set(tk[i]) \
                    and not set(rk[i]) & set(tk[i]) and not set(rk[j]) & set(tk[j]):
                out.append((i, j))
    return out


def return_swaps(chk, prog, rule: str, callers: Optional[Iterable[str]] = None) -> int:
    """the mirror image for results: a callee returns `(a, b, ...)` and the caller unpacks the tuple into names; positions i and j are swapped
    when the caller's target at i is spelled like the callee's returned name at j and vice versa."""
    from ..model import walk_no_nested
    ex = ast.parse(_RET_EXAMPLE)
    ret = [r for r in ast.walk(ex.body[0]) if isinstance(r, ast.Return)][0].value.elts
    got = [_unpack_swaps(a.targets[0].elts, ret) for a in ex.body[1].body]
    if got != [[(0, 1)], []]:
        raise AnalysisError(f"{rule}: the matcher no longer recognises its positive example ({got})")
    n = 0
    keys = sorted(callers) if callers is not None else sorted(prog.funcs)
    for key in keys:
        fi = prog.funcs.get(key)
        if fi is None:
            continue
        for a in walk_no_nested(fi.node):
            if not (isinstance(a, ast.Assign) and len(a.targets) == 1 and isinstance(a.targets[0], ast.Tuple) and isinstance(a.value, ast.Call)):
                continue
            t = prog.resolve_call(fi, a.value)
            if not hasattr(t, "params") or hasattr(t, "init_fields"):
                continue
            rets = [r for r in walk_no_nested(t.node) if isinstance(r, ast.Return) and isinstance(r.value, ast.Tuple)
                    and len(r.value.elts) == len(a.targets[0].elts)]
            if not rets:
                continue
            n += 1
            chk.fn(key)
            for r in rets:
                for i, j in _unpack_swaps(a.targets[0].elts, r.value.elts):
                    chk.violation(rule, f"{fi.module}:{fi.qualname}", f"{norm(a.targets[0].elts[i])}, {norm(a.targets[0].elts[j])} = {t.qualname}(...)[{i}], [{j}]",
                                  f"results {i + 1} and {j + 1} are unpacked crosswise: {t.qualname} returns `{norm(r.value.elts[i])}` at position {i + 1} and "
                                  f"`{norm(r.value.elts[j])}` at position {j + 1}", loc=fi.loc(a))
    chk.ok(rule, "aquacrop", f"{n} tuple results of repository functions unpacked by position", "no pair of results is unpacked crosswise; matcher exercised on the embedded example")
    return n
