"""C16 - every valid configuration runs to completion with finite outputs (four crash classes)."""
from __future__ import annotations
import ast
import re
from typing import Dict, List, Optional, Set, Tuple

from ..common import step_roles, init_roles
from ..da import analyse_all
from ..effects import stores
from ..flags import DOMAINS
from ..model import norm, walk_no_nested, FuncInfo
from ..pure import is_crop_obj
from ..rdef import flow_of, ENTRY
from ..roles import is_fancy_index
from ..tables import crop_catalogue, allowed_keys
from ._tablediv import table_divisors

EXPLANATION = (
    "C16.a: definite assignment of every local in all functions of the package, on CFGs pruned by the documented finite "
    "flag domains, an order (point-algebra) abstraction of the comparisons each function makes, and call-site contexts "
    "(domains and order facts of actual arguments joined over all call sites): a use that may be unbound on a feasible "
    "valuation is an UnboundLocalError for some valid configuration. C16.b: every attribute read on a model record "
    "object (state, clock, parameters, soil profile, management structures, crop, CO2, outputs) while stepping or "
    "initialising is a field assigned by the class constructor, the crop catalogue (for every one of the 37 crops) or "
    "an initialisation function (AttributeError class). C16.c: divisions / logarithms that are pure functions of crop "
    "parameters evaluated over the 37 effective crops. C16.d: first/last-element access (x[0], x[-1], .iloc[0]) on values "
    "whose constructor can yield an empty sequence (argwhere, boolean mask, query, range, slice, loop-appended list) "
    "must be guarded by an emptiness test or covered by a named input assumption. C16.e (sibling agreement): every "
    "expression that measures the time since the start of yield formation has the normal form dap - delayed_cds - "
    "HIstartCD - 1 (over canonical state / crop atoms), so that the HIt > 0 guards of the callers protect the divisions "
    "by that quantity in the callees. C16.f: no in-place store targets the SoilProfile arrays (they are read-only views of a "
    "pandas frame: ValueError). C16.g: X.iloc[e] with a computed index is bounded by the length of what it indexes (range(len(.)) loop "
    "variable, a counter running down from len(.)-1 under >= 0, or a guard comparing the index with a length). C16.h: constant propagation "
    "of the step for water_table in {0,1}: no cell of the daily tables receives the constant None (stored as NaN). C16.i: month and day of "
    "a real date are completed to a date only with a leap mock year (own positive example). C16.j: the profile-deepening while loop makes "
    "progress on every iteration (every path from the body's entry back to the test stores into the thickness column). C16.k: prepare_weather floors the ReferenceET column of the frame it returns at a positive value on every path (biomass accumulation divides by it), and no inplace=True method is applied to a selection of a frame anywhere (no effect under copy-on-write; own positive example). C16.l: the curve-number runoff quotient, whose denominator is the rain itself when the retention is 0 (curve number 100), is evaluated only under a strict comparison of the rain with the initial abstraction. C16.m (no step beyond the window; abstract interpretation over 8 clock states, shared with C07.b): whenever the step just taken ends on or after the end date the termination test returns True - otherwise update_time reads one past the last entry of time_span and the run raises IndexError on the last day of a window that cuts a season. C16.n (T-LOOP, shared with C07.m): every while loop of the package has a visible reason to stop - a local compared with a loop-invariant bound and stepped towards it on every cycle (must-pass-through on the CFG), a countdown, a flag set from a counter test, a value recomputed from a stepped counter (listed, with the monotonicity reason), a delegated progress argument (the model's outer loop: C07.b; the profile deepening loop), or a listed convergence search that is preceded on every path by a guard raising when a parameter its convergence needs is <= 0. C16.o (the top soil keeps a compartment): every thickness store of the deepening loop concerns a compartment below the top soil (guarded by dzsum > z_top) or is followed on every path by z_top = max(z_top, first thickness) - otherwise a one-compartment profile has no compartment ending within z_top and root_zone_water's assertion fails. C16.p (a rule the code follows at every instance): a division whose divisor is exactly a field of the crop state (ccx_w, ccx_w_ns, ccx_early_sen - 0 at a season's start and once the canopy is gone) is control dependent on a test of that very field. C16.q (NaN-safe case split): where a local is the plain quotient of two formals whose divisor is tested nowhere (biomass / potential biomass, 0/0 before any transpiration), every assignment of a result that reads the quotient or a local derived from it is directly control dependent on the True edge of a comparison on it - comparisons with NaN are False, so the fall-through must be the neutral value. NOT decided: numeric assert "
    "failures, non-finite results from run-time values, pandas-internal errors.")

L = frozenset
# order axioms / loop assumptions used by the definite-assignment analysis (assumption ids in brackets)
AXIOMS = {
    "reset_initial_conditions": ([("CO2ref", "#550", L("<"))], "A-3"),
    "compute_variables": ([("CO2ref", "#550", L("<"))], "A-3"),
    "read_groundwater_table": ([("len(df)", "#1", L("=>"))], "A-4"),
}
NONEMPTY_LOOPS = {"compute_variables": ({"range(param_struct.NCrops)"}, "A-9")}

# first-element sites accepted under a named assumption: (function, normalised construct) -> (assumption, reason)
FIRST_ELEM_ASSUMED = {
    ("germination", "np.argwhere(prof.dzsum >= Soil_zGerm).flatten()[0]"): ("A-8", "profile deeper than z_germ"),
    ("pre_irrigation", "np.argwhere(prof.dzsum >= rootdepth).flatten()[0]"): ("A-8", "profile deeper than the root zone"),
    ("root_zone_water", "np.argwhere(prof.dzsum >= rootdepth).flatten()[0]"): ("A-8", "profile deeper than the root zone"),
    ("root_development", "np.argwhere(prof.dzsum >= ZiTmp).flatten()[0]"): ("A-8", "profile deeper than Zmax"),
    ("_depth_with_restrictive_layers", "l_idx[0]"): ("A-12", "layers are numbered 1..nLayer and each has a compartment"),
    ("groundwater_inflow", "np.argwhere(zMid >= z_gw).flatten()[0]"): ("A-13", "wt_in_soil is True only if a compartment centre lies below the table"),
    ("start_under_water_table", "np.where(comp_mid >= z_gw)[0][0]"): ("A-13", "reached only with wt_in_soil True: the same test established it"),
    ("Soil.add_layer", "self.profile[self.profile.Layer == new_layer - 1].dzsum.values[-1]"): ("A-12", "the previous layer has a compartment"),
    ("reset_initial_conditions", "gdd_cum[-1]"): ("A-14", "weather covers the planting date of the season"),
    ("read_model_parameters", "clock_struct.planting_dates[0]"): ("A-15", "reached only after plant_years[0] succeeded; one planting date per plant year"),
    ("compute_variables", "crop_list[0]"): ("A-15", "CropChoices has one entry per season; seasons exist once plant_years[0] succeeded"),
}


def _kind(e: ast.AST, fi: FuncInfo, flow, prog, chain: Set[str], depth=0) -> str:
    """'E' possibly empty, 'N' surely non-empty, 'U' unknown (object field / parameter)."""
    if depth > 12:
        return "U"
    if isinstance(e, ast.Call):
        f = e.func
        ext = prog.external_name(fi, f) if isinstance(f, ast.Attribute) else None
        if ext in ("numpy.argwhere", "numpy.where", "numpy.nonzero", "numpy.flatnonzero"):
            return "E"
        if isinstance(f, ast.Name) and f.id == "range":
            return "E"
        if isinstance(f, ast.Name) and f.id in ("list", "sorted", "tuple") and e.args:
            return _kind(e.args[0], fi, flow, prog, chain, depth + 1)
        if isinstance(f, ast.Attribute) and f.attr in ("query", "dropna", "nonzero"):
            return "E"
        if isinstance(f, ast.Attribute) and f.attr == "split":
            return "N"
        if isinstance(f, ast.Attribute) and f.attr in ("flatten", "ravel", "cumsum", "reset_index", "copy", "astype",
                                                      "round", "clip", "to_numpy", "tolist", "unique", "sort_values"):
            return _kind(f.value, fi, flow, prog, chain, depth + 1)
        if ext in ("numpy.cumsum", "numpy.array", "numpy.asarray", "pandas.to_datetime", "pandas.DatetimeIndex",
                   "numpy.sort", "numpy.unique", "numpy.round") and e.args:
            return _kind(e.args[0], fi, flow, prog, chain, depth + 1)
        if ext == "numpy.append" and len(e.args) >= 2:
            ks = [_kind(a, fi, flow, prog, chain, depth + 1) for a in e.args[:2]]
            return "N" if "N" in ks else ("E" if "E" in ks else "U")
        return "U"
    if isinstance(e, (ast.List, ast.Tuple)):
        return "N" if e.elts else "E"
    if isinstance(e, ast.ListComp):
        return _kind(e.generators[0].iter, fi, flow, prog, chain, depth + 1)
    if isinstance(e, ast.Subscript):
        if isinstance(e.slice, ast.Slice):
            return "E"
        if is_fancy_index(e.slice):
            return "E"
        if isinstance(e.slice, ast.Name):
            # mask variable?
            k = _kind_name_is_mask(e.slice, fi, flow)
            if k:
                return "E"
        if isinstance(e.slice, ast.Tuple) and any(isinstance(x, ast.Slice) for x in e.slice.elts):
            # column / row selection of a 2-D array keeps the number of rows of the base
            return _kind(e.value, fi, flow, prog, chain, depth + 1)
        if isinstance(e.slice, ast.Constant) and isinstance(e.slice.value, int):
            # np.where(...)[0] : the index array
            if isinstance(e.value, ast.Call) and prog.external_name(fi, e.value.func) in ("numpy.where", "numpy.nonzero"):
                return "E"
            return "U"
        return "U"
    if isinstance(e, ast.Attribute):
        base = e.value
        if e.attr in ("values", "index", "flat", "T") or not isinstance(base, ast.Name):
            k = _kind(base, fi, flow, prog, chain, depth + 1)
            if k != "U" or e.attr in ("values", "index", "flat", "T"):
                return k
        if isinstance(base, ast.Name):
            # same-function store obj.attr = expr
            ks = []
            for n in walk_no_nested(fi.node):
                if isinstance(n, ast.Assign):
                    for t in n.targets:
                        if isinstance(t, ast.Attribute) and isinstance(t.value, ast.Name) and t.value.id == base.id and t.attr == e.attr:
                            ks.append(_kind(n.value, fi, flow, prog, chain, depth + 1))
            if ks:
                return "E" if "E" in ks else ("N" if all(k == "N" for k in ks) else "U")
            k = _kind(base, fi, flow, prog, chain, depth + 1)
            return k if k == "E" else "U"
        return "U"
    if isinstance(e, ast.Name):
        chain.add(e.id)
        nid = flow.node_of(e)
        if nid is None:
            return "U"
        ks = []
        for d in flow.defs_reaching(e.id, nid):
            if d == ENTRY:
                ks.append("U")
                continue
            st = flow.cfg.nodes[d].ast
            if isinstance(st, ast.Assign) and len(st.targets) == 1 and isinstance(st.targets[0], ast.Name):
                ks.append(_kind(st.value, fi, flow, prog, chain, depth + 1))
            else:
                ks.append("U")
        if "E" in ks:
            return "E"
        if ks and all(k == "N" for k in ks):
            return "N"
        return "U"
    if isinstance(e, ast.BinOp):
        return "U"
    return "U"


def _kind_name_is_mask(name: ast.Name, fi, flow) -> bool:
    nid = flow.node_of(name)
    if nid is None:
        return False
    for d in flow.defs_reaching(name.id, nid):
        if d == ENTRY:
            continue
        st = flow.cfg.nodes[d].ast
        if isinstance(st, ast.Assign) and isinstance(st.value, ast.Compare):
            return True
    return False


def _guarded(node_id: int, flow, chain: Set[str]) -> Optional[str]:
    cfg = flow.cfg
    for tid, label in cfg.transitive_control_deps(node_id):
        tn = cfg.nodes[tid]
        if tn.kind != "test":
            continue
        txt = norm(tn.ast)
        for sub in ast.walk(tn.ast):
            if isinstance(sub, ast.Call) and isinstance(sub.func, ast.Name) and sub.func.id == "len" and sub.args:
                names = {x.id for x in ast.walk(sub.args[0]) if isinstance(x, ast.Name)}
                if names & chain:
                    return txt
            if isinstance(sub, ast.Subscript) and isinstance(sub.value, ast.Attribute) and sub.value.attr == "shape":
                names = {x.id for x in ast.walk(sub.value.value) if isinstance(x, ast.Name)}
                if names & chain:
                    return txt
    # a dominating `if <cond>: raise` on a size variable
    return None


def first_element_sites(chk, prog):
    sites = 0
    flagged = 0
    used_assumed = set()
    for key, fi in sorted(prog.funcs.items()):
        flow = flow_of(fi)
        for n in walk_no_nested(fi.node):
            if not (isinstance(n, ast.Subscript) and isinstance(n.ctx, ast.Load)):
                continue
            s = n.slice
            first = isinstance(s, ast.Constant) and s.value == 0 and not isinstance(s.value, bool)
            last = isinstance(s, ast.UnaryOp) and isinstance(s.op, ast.USub) and isinstance(s.operand, ast.Constant) and s.operand.value == 1
            if not (first or last):
                continue
            base = n.value
            if isinstance(base, ast.Attribute) and base.attr in ("iloc", "loc", "iat", "at"):
                base = base.value
            if isinstance(base, ast.Attribute) and base.attr == "shape":
                continue
            if isinstance(base, ast.Call) and prog.external_name(fi, base.func) in ("numpy.where", "numpy.nonzero"):
                continue        # element 0 of the tuple returned by np.where, not of a sequence
            nid = flow.node_of(n)
            if nid is None:
                continue
            sites += 1
            chain: Set[str] = set()
            k = _kind(base, fi, flow, prog, chain)
            construct = norm(n)
            where = f"{fi.module}:{fi.qualname}"
            if k != "E":
                chk.ok("C16.d", where, construct, "base cannot be classified as possibly empty (object field, parameter or non-empty literal)", nontrivial=False)
                continue
            flagged += 1
            g = _guarded(nid, flow, chain)
            if g is None and isinstance(base, ast.Call) and isinstance(base.func, ast.Name) and base.func.id == "range":
                # range(n)[-1]: guarded by an earlier `if n < 1: raise`
                arg = base.args[0] if base.args else None
                if isinstance(arg, ast.Name):
                    for tn in flow.cfg.live_nodes():
                        if tn.kind == "test" and tn.id in flow.cfg.dominators()[nid] and arg.id in norm(tn.ast) \
                                and any(isinstance(flow.cfg.nodes[t].ast, ast.Raise) for t, l in tn.succs if l is True):
                            g = norm(tn.ast) + " -> raise"
            if g is not None:
                chk.ok("C16.d", where, construct, f"possibly-empty constructor, guarded by `{g}`")
                continue
            ak = (fi.qualname, construct)
            if ak in FIRST_ELEM_ASSUMED:
                aid, why = FIRST_ELEM_ASSUMED[ak]
                used_assumed.add(ak)
                chk.assume(aid)
                chk.ok("C16.d", where, construct, f"possibly-empty constructor; covered by assumption {aid}: {why}")
                continue
            # guarded by a comparison against the last element of the same column (query sites)
            cd_txt = " ; ".join(norm(flow.cfg.nodes[t].ast) for t, _ in flow.cfg.transitive_control_deps(nid) if flow.cfg.nodes[t].kind == "test")
            if ".query(" in construct and "dzsum" in cd_txt:
                chk.ok("C16.d", where, construct, f"query result non-empty under guard `{cd_txt}`")
                continue
            chk.violation("C16.d", where, construct,
                          "first/last element of a value whose constructor can be empty (range / slice / mask / argwhere / "
                          "loop-appended list), with no emptiness guard: IndexError for some valid configuration", loc=fi.loc(n))
    chk.floor("C16.d", sites, 60, "first/last-element access sites scanned")
    chk.floor("C16.d-emptyable", flagged, 10, "sites with a possibly-empty constructor")
    stale = [k for k in FIRST_ELEM_ASSUMED if k not in used_assumed]
    if stale:
        chk.notes["stale_first_element_assumptions"] = [f"{a}: {b}" for a, b in stale]


ROOT_CLASS = [
    (r"^STATE$", "InitialCondition"), (r"^CLOCK$", "ClockStruct"), (r"^PARAM$", "ParamStruct"),
    (r"^PARAM\.Soil$", "Soil"), (r"^PARAM\.Soil\.Profile$", "SoilProfile"),
    (r"^PARAM\.(IrrMngt|FallowIrrMngt)$", "IrrMngtStruct"), (r"^PARAM\.(FieldMngt|FallowFieldMngt)$", "FieldMngtStruct"),
    (r"^PARAM\.CO2$", "CO2"), (r"^OUT$", "Output"),
    (r"^USER\.soil$", "Soil"), (r"^USER\.co2_concentration$", "CO2"), (r"^USER\.groundwater$", "GroundWater"),
    (r"^USER\.initial_water_content$", "InitialWaterContent"), (r"^USER\.irrigation_management$", "IrrigationManagement"),
    (r"^USER\.(field_management|fallow_field_management)$", "FieldMngt"),
]


def attribute_definedness(chk, prog):
    roles_list = [("step", step_roles(prog)), ("init", init_roles(prog))]
    cat = crop_catalogue(prog)
    crop_ci = prog.cls("Crop")
    # fields assigned somewhere (constructor + stores in any reached function)
    fields: Dict[str, Set[str]] = {}
    for ci in prog.classes.values():
        fields.setdefault(ci.name, set()).update(ci.init_fields)
        fields[ci.name].update(ci.methods)
        fields[ci.name].update(ci.class_attrs)
    fields["Crop"] |= allowed_keys(prog, "Crop")
    fields.setdefault("IrrigationManagement", set()).update(allowed_keys(prog, "IrrigationManagement"))
    crop_extra: Set[str] = set()

    def local_cls(fi, e) -> Optional[str]:
        """class of a local that is bound to a freshly constructed record object"""
        if not isinstance(e, ast.Name):
            return None
        flow = flow_of(fi)
        nid = flow.node_of(e)
        if nid is None:
            return None
        cs = set()
        for d in flow.defs_reaching(e.id, nid):
            st = flow.cfg.nodes[d].ast if d != ENTRY else None
            c = None
            if isinstance(st, ast.Assign) and isinstance(st.value, ast.Call):
                t = prog.resolve_call(fi, st.value)
                if hasattr(t, "init_fields"):
                    c = t.name
            cs.add(c)
        return cs.pop() if len(cs) == 1 else None

    def cls_of(paths: Set[str]) -> Optional[str]:
        cs = set()
        for p in paths:
            c = None
            p = p.replace("~", "")          # a shallow copy (sa/roles.py) is an object of the same class
            if is_crop_obj({p}):
                c = "Crop"
            else:
                for rx, cn in ROOT_CLASS:
                    if re.match(rx, p):
                        c = cn
            cs.add(c)
        return cs.pop() if len(cs) == 1 else None

    for _, r in roles_list:
        for key in r.reached:
            fi = prog.funcs.get(key)
            if fi is None:
                continue
            for st in stores(prog, fi, r):
                if st.kind == "attr":
                    c = cls_of(r.paths(fi, st.target)) or local_cls(fi, st.target)
                    if c:
                        fields.setdefault(c, set()).add(st.field)
    # prepare_gdd sets crop attributes dynamically from a literal list of names
    pg = prog.find_func("prepare_gdd")
    for n in walk_no_nested(pg.node):
        if isinstance(n, ast.List) and n.elts and all(isinstance(x, ast.Constant) and isinstance(x.value, str) for x in n.elts):
            fields["Crop"].update(x.value for x in n.elts)
    reads = 0
    for phase, r in roles_list:
        for key in sorted(r.reached):
            fi = prog.funcs.get(key)
            if fi is None:
                continue
            chk.fn(key)
            for n in walk_no_nested(fi.node):
                if isinstance(n, ast.Attribute) and isinstance(n.ctx, ast.Load):
                    c = cls_of(r.paths(fi, n.value))
                    if c is None and fi.cls in fields and isinstance(n.value, ast.Name) and fi.node.args.args \
                            and n.value.id == fi.node.args.args[0].arg and fi.name != "__init__":
                        c = fi.cls          # `self` inside a method of a record class
                    if c is None or c not in fields:
                        continue
                    reads += 1
                    where = f"{fi.module}:{fi.qualname}"
                    construct = f"{c}.{n.attr} read as {norm(n)}"
                    if n.attr.startswith("__"):
                        continue
                    if n.attr in fields[c]:
                        if c == "Crop" and n.attr not in crop_ci.init_fields and n.attr not in crop_ci.methods \
                                and n.attr in allowed_keys(prog, "Crop"):
                            missing = [cn for cn, d in cat.items() if n.attr not in d]
                            if missing and n.attr not in ("planting_date", "harvest_date", "Name"):
                                chk.violation("C16.b", where, construct,
                                              f"attribute {n.attr} is not set by Crop.__init__ and missing from catalogue crops {missing[:5]}",
                                              loc=fi.loc(n))
                                continue
                        chk.ok("C16.b", where, construct, nontrivial=False)
                    else:
                        chk.violation("C16.b", where, construct,
                                      f"attribute {n.attr} is never assigned on {c} (constructor, catalogue or initialisation): AttributeError",
                                      loc=fi.loc(n))
    chk.floor("C16.b", reads, 600, "attribute reads on model record objects resolved to a class")


def rule_a(chk, prog):
    axioms = {k: v[0] for k, v in AXIOMS.items()}
    nonempty = {k: v[0] for k, v in NONEMPTY_LOOPS.items()}
    res = analyse_all(prog, DOMAINS, axioms, nonempty)
    for k, v in list(AXIOMS.items()) + list(NONEMPTY_LOOPS.items()):
        chk.assume(v[1])
    chk.assume("A-1")
    nfun = 0
    nlocals = 0
    for key, r in sorted(res.items()):
        fi = r.fi
        chk.fn(key)
        nfun += 1
        where = f"{fi.module}:{fi.qualname}"
        names = sorted(r.interp.locals)
        nlocals += len(names)
        for name in names:
            us = r.by_name.get(name)
            if not us:
                chk.ok("C16.a", where, name, "definitely assigned at every use" + (" (path-refined)" if r.level else ""),
                       nontrivial=bool(r.level) or name not in fi.params)
                continue
            u = us[0]
            chk.violation("C16.a", where, name,
                          f"local '{name}' may be unbound when read at line {u.astnode.lineno} (UnboundLocalError)",
                          loc=fi.loc(u.astnode), witness=u.witness[:300])
        if r.ctx is not None:
            chk.callsite(f"{key}: {r.ctx.sites} call-site contexts")
    chk.floor("C16.a", nfun, 95, "functions analysed")
    chk.floor("C16.a-locals", nlocals, 900, "locals checked")


def readonly_arrays(chk, prog):
    """C16.f: the SoilProfile arrays are `.values` of a pandas frame (read-only under copy-on-write): an in-place
    store into them raises ValueError at run time (the same stores violate C12)"""
    from ..common import step_roles
    from ..effects import stores as _stores
    roles = step_roles(prog)
    n = 0
    for key in sorted(roles.reached):
        fi = prog.funcs[key]
        for st in _stores(prog, fi, roles):
            if not st.inplace:
                continue
            n += 1
            hit = sorted(p for p in st.paths if p.startswith("PARAM.Soil.Profile."))
            where = f"{fi.module}:{fi.qualname}"
            if hit:
                chk.violation("C16.f", where, st.text, f"in-place store into {hit[0]}, an array taken from a pandas frame (read-only): ValueError: "
                              "assignment destination is read-only", loc=fi.loc(st.node))
    chk.ok("C16.f", "aquacrop", f"{n} in-place stores below _perform_timestep", "none targets the soil-profile arrays")
    chk.floor("C16.f", n, 30, "in-place stores examined")


def positional_index_sites(chk, prog):
    """C16.g: `X.iloc[e]` with a computed scalar index e (not the literal first / last element, which is C16.d): the index is bounded
    by the length of what it indexes - a `range(len(.))` loop variable, a counter that starts at `len(.) - 1` and runs down under a
    `>= 0` guard, or the access is control dependent on a comparison of the index with a length."""
    n = 0
    for key, fi in sorted(prog.funcs.items()):
        flow = None
        where = f"{fi.module}:{fi.qualname}"
        for x in walk_no_nested(fi.node):
            if not (isinstance(x, ast.Subscript) and isinstance(x.value, ast.Attribute) and x.value.attr == "iloc" and isinstance(x.ctx, ast.Load)):
                continue
            idx = x.slice
            if isinstance(idx, (ast.Slice, ast.Tuple, ast.Compare, ast.List)) or isinstance(idx, ast.Constant):
                continue
            if isinstance(idx, ast.UnaryOp) and isinstance(idx.operand, ast.Constant):
                continue
            # X.iloc[<argsort of a column of X>] is a permutation of X's own positions (not a scalar index)
            from ._weather import is_argsort_of
            if isinstance(x.value.value, ast.Name) and is_argsort_of(idx, x.value.value.id):
                continue
            flow = flow or flow_of(fi)
            nid = flow.node_of(x)
            if nid is None:
                continue
            n += 1
            chk.fn(key)
            construct = norm(x)
            inner = idx
            while isinstance(inner, ast.Call) and isinstance(inner.func, ast.Name) and inner.func.id == "int" and len(inner.args) == 1:
                inner = inner.args[0]
            names = {v.id for v in ast.walk(inner) if isinstance(v, ast.Name)}
            why = None
            def is_len(e):
                return any(isinstance(c, ast.Call) and isinstance(c.func, ast.Name) and c.func.id == "len" for c in ast.walk(e)) or \
                    any(isinstance(c, ast.Attribute) and c.attr in ("shape", "size") for c in ast.walk(e))
            def len_like(e, at):
                if is_len(e):
                    return True
                if isinstance(e, ast.Name):
                    for d in flow.defs_reaching(e.id, at):
                        a = flow.cfg.nodes[d].ast if d != ENTRY else None
                        if isinstance(a, ast.Assign) and is_len(a.value):
                            return True
                return False
            # (a) loop variable of range(len(.)) / range(k, len(.)) / range(<name bound to a length or index of this frame>)
            if isinstance(inner, ast.Name):
                for d in flow.defs_reaching(inner.id, nid):
                    dn = flow.cfg.nodes[d] if d != ENTRY else None
                    if dn is not None and dn.kind == "for" and isinstance(dn.ast.iter, ast.Call) and isinstance(dn.ast.iter.func, ast.Name) \
                            and dn.ast.iter.func.id == "range" and dn.ast.iter.args and len_like(dn.ast.iter.args[-1], d):
                        why = f"loop variable of `{norm(dn.ast.iter)}`"
                    elif dn is not None and isinstance(dn.ast, ast.Assign) and isinstance(dn.ast.value, ast.BinOp) and isinstance(dn.ast.value.op, ast.Sub) \
                            and is_len(dn.ast.value.left) and isinstance(dn.ast.value.right, ast.Constant) and dn.ast.value.right.value == 1:
                        # (b) counter starting at len - 1: must run down under a >= 0 guard
                        guard = any(flow.cfg.nodes[t].kind == "test" and isinstance(flow.cfg.nodes[t].ast, ast.Compare)
                                    and norm(flow.cfg.nodes[t].ast.left) == inner.id and isinstance(flow.cfg.nodes[t].ast.ops[0], ast.GtE) and l is True
                                    for t, l in flow.cfg.transitive_control_deps(nid))
                        if guard:
                            why = f"counter from `{norm(dn.ast.value)}` down, under `{inner.id} >= 0`"
            # (c) control dependent on a comparison of the index with a length
            if why is None:
                for t, l in flow.cfg.transitive_control_deps(nid):
                    c = flow.cfg.nodes[t].ast
                    if flow.cfg.nodes[t].kind == "test" and isinstance(c, ast.Compare) and len(c.ops) == 1:
                        lt = (isinstance(c.ops[0], ast.Lt) and l is True) or (isinstance(c.ops[0], ast.GtE) and l is False)
                        if lt and ({v.id for v in ast.walk(c.left) if isinstance(v, ast.Name)} & names) and len_like(c.comparators[0], t):
                            why = f"guarded by `{norm(c)}`"
            if why:
                chk.ok("C16.g", where, construct, why)
            else:
                chk.violation("C16.g", where, construct,
                              "positional access with a computed index that is not bounded by the length of the series (no range(len(.)) loop, no "
                              "length guard): IndexError when the series is shorter than the index, e.g. a season cut short by the end of the window",
                              loc=fi.loc(x))
    chk.floor("C16.g", n, 3, "positional accesses with a computed index")


def no_none_outputs(chk, prog):
    """C16.h: every value that reaches a cell of the daily tables is a number: interprocedural constant propagation of the daily step
    for water_table in {0, 1}, in and out of season; a cell whose abstract value is the constant None (a callee's `return None`
    threaded into the state) is stored as NaN in the float table - a non-finite reported number on every simulated day"""
    from ..cp import batch, row_writers
    from ..common import STEP_FN
    from ..absint import Const
    res = batch(prog, [{"param_struct.water_table": 0}, {"param_struct.water_table": 1}])
    step = prog.func(STEP_FN)
    n = 0
    for r in res:
        label = f"water_table={r.config['param_struct.water_table']}"
        chk.valuation(label)
        for table in ("water_flux", "crop_growth"):
            loc = step.loc(row_writers(prog)[table])
            for gs in (True, False):
                for row in r.rows[table][gs]:
                    for col, v in row.items():
                        n += 1
                        construct = f"{table}.{col} | {label}, growing_season={gs}"
                        if isinstance(v, Const) and v.v is None:
                            chk.violation("C16.h", STEP_FN, construct, f"the value reaching column {col} is the constant None: the float table stores NaN, "
                                          "a non-finite reported number on every such day", loc=loc)
                        else:
                            chk.ok("C16.h", STEP_FN, construct, f"abstract value {v}", nontrivial=False)
    chk.floor("C16.h", n, 100, "table cells examined (columns x valuations x partitions)")


_MOCK_YEAR_EXAMPLE = "x = pd.to_datetime('1990/' + f'{d.month}' + '/' + f'{d.day}')"


def _mock_year_sites(tree: ast.AST):
    """to_datetime(<literal 'YYYY/'> ... <date>.month ... <date>.day): (call, year)"""
    import re as _re
    out = []
    for c in ast.walk(tree):
        if isinstance(c, ast.Call) and isinstance(c.func, ast.Attribute) and c.func.attr == "to_datetime" and c.args:
            arg = c.args[0]
            attrs = {x.attr for x in ast.walk(arg) if isinstance(x, ast.Attribute)}
            if not {"month", "day"} <= attrs:
                continue
            for k in ast.walk(arg):
                if isinstance(k, ast.Constant) and isinstance(k.value, str):
                    m = _re.match(r"^(\d{4})[/-]", k.value)
                    if m:
                        out.append((c, int(m.group(1))))
    return out


def mock_years(chk, prog):
    """C16.i: a month and day taken from a real date (which can be 29 February) are completed to a date only with a leap mock year"""
    ex = _mock_year_sites(ast.parse(_MOCK_YEAR_EXAMPLE))
    if len(ex) != 1 or ex[0][1] != 1990:
        raise AnalysisError("C16.i: the rule no longer recognises its positive example")
    n = 0
    for key, fi in sorted(prog.funcs.items()):
        for c, y in _mock_year_sites(fi.node):
            n += 1
            chk.fn(key)
            where = f"{fi.module}:{fi.qualname}"
            leap = y % 4 == 0 and (y % 100 != 0 or y % 400 == 0)
            if leap:
                chk.ok("C16.i", where, norm(c)[:90], f"mock year {y} is a leap year")
            else:
                chk.violation("C16.i", where, norm(c)[:90], f"month and day of a real date are parsed with the non-leap mock year {y}: a date of 29 February "
                              "(e.g. a simulation period ending on a leap day) raises an undocumented date-parsing error", loc=fi.loc(c))
    chk.floor("C16.i", n, 1, "month/day of a date completed with a literal year")


_INPLACE_EXAMPLE = """
def f(weather_df):
    reference_et = weather_df['ReferenceET']
    reference_et.clip(lower=0.1, inplace=True)
    weather_df['MinTemp'].fillna(0, inplace=True)
    weather_df.drop(['Day'], axis=1, inplace=True)
    return weather_df
"""


def _inplace_on_selection(fn_node) -> list:
    """calls `<sel>.m(..., inplace=True)` where <sel> is a column / row selection of a frame (`F[...]`, `F.col`, `F.loc[...]`) or a local bound
    to one: under pandas copy-on-write the method changes a temporary and the frame keeps its values"""
    sel_locals = set()
    for a in ast.walk(fn_node):
        if isinstance(a, ast.Assign) and isinstance(a.targets[0], ast.Name) and isinstance(a.value, ast.Subscript) and isinstance(a.value.value, (ast.Name, ast.Attribute)):
            sel_locals.add(a.targets[0].id)
    out = []
    for c in ast.walk(fn_node):
        if isinstance(c, ast.Call) and isinstance(c.func, ast.Attribute) and any(k.arg == "inplace" and isinstance(k.value, ast.Constant) and k.value.value is True for k in c.keywords):
            r = c.func.value
            if isinstance(r, ast.Subscript) or (isinstance(r, ast.Name) and r.id in sel_locals) or \
                    (isinstance(r, ast.Attribute) and not (isinstance(r.value, ast.Name) and r.value.id == "self") and isinstance(r.value, ast.Name)):
                out.append(c)
    return out


def et0_floor(chk, prog):
    """C16.k (weather read through prepare_weather never has a reference ET of 0 - biomass accumulation divides by it): prepare_weather assigns
    the ReferenceET column of the frame it returns from an expression that applies a positive lower bound (`.clip(lower=c)`, `np.maximum(., c)`,
    c > 0), on every path to the return; and nowhere in the package is an `inplace=True` method applied to a selection of a frame (a no-op
    under copy-on-write; the rule carries its own positive example)."""
    ex = _inplace_on_selection(ast.parse(_INPLACE_EXAMPLE))
    if len(ex) != 2:
        raise AnalysisError(f"C16.k: the in-place lint finds {len(ex)} of the 2 sites of its positive example")
    n = 0
    for key, fi in sorted(prog.funcs.items()):
        for c in _inplace_on_selection(fi.node):
            n += 1
            chk.violation("C16.k", f"{fi.module}:{fi.qualname}", norm(c)[:90], "inplace=True on a selection of a frame changes a temporary copy (pandas copy-on-write): the frame "
                          "keeps its values - the operation has no effect", loc=fi.loc(c))
    chk.notes["C16.k_inplace_calls_on_selections"] = n
    pw = prog.find_func("prepare_weather")
    chk.fn(pw.key)
    where = f"{pw.module}:{pw.qualname}"
    flow = flow_of(pw)
    cfg = flow.cfg
    rets = [r for r in walk_no_nested(pw.node) if isinstance(r, ast.Return) and isinstance(r.value, ast.Name)]
    if len(rets) != 1:
        raise AnalysisError("prepare_weather: expected one `return <frame>`")
    frame = rets[0].value.id
    rn = flow.stmt_node[id(rets[0])]
    def lower_bounded(e):
        for c in ast.walk(e):
            if isinstance(c, ast.Call) and isinstance(c.func, ast.Attribute) and c.func.attr == "clip":
                lo = next((k.value for k in c.keywords if k.arg == "lower"), c.args[0] if c.args else None)
                if isinstance(lo, ast.Constant) and isinstance(lo.value, (int, float)) and lo.value > 0:
                    return lo.value
            if isinstance(c, ast.Call) and norm(c.func) in ("np.maximum", "np.clip", "numpy.maximum", "numpy.clip", "max"):
                for a_ in c.args[1:]:
                    if isinstance(a_, ast.Constant) and isinstance(a_.value, (int, float)) and a_.value > 0:
                        return a_.value
        return None
    setters = {}
    for a in walk_no_nested(pw.node):
        if isinstance(a, ast.Assign) and isinstance(a.targets[0], ast.Subscript) and isinstance(a.targets[0].value, ast.Name) and a.targets[0].value.id == frame \
                and isinstance(a.targets[0].slice, ast.Constant) and a.targets[0].slice.value == "ReferenceET":
            lb = lower_bounded(a.value)
            if lb is not None:
                setters[flow.stmt_node[id(a)]] = (a, lb)
    construct = f"{frame}['ReferenceET'] floored before `return {frame}`"
    if not setters:
        chk.violation("C16.k", where, construct, "the returned frame's ReferenceET column is never assigned from an expression with a positive lower bound: a day "
                      "with a reference ET of 0 (the built-in Brussels file has 17) reaches `Tr / et0` - ZeroDivisionError in biomass accumulation", loc=pw.loc(rets[0]))
    elif cfg.paths_exist_avoiding(cfg.entry, rn, set(setters)):
        chk.violation("C16.k", where, construct, "the floor of the reference ET is skipped on some path to the return", loc=pw.loc(rets[0]))
    else:
        # the frame is not re-bound to something else after the floor
        later = [cfg.nodes[k].ast for k in range(len(cfg.nodes)) if isinstance(cfg.nodes[k].ast, ast.Assign) and any(isinstance(t, ast.Name) and t.id == frame for t in cfg.nodes[k].ast.targets)
                 and any(cfg.paths_exist_avoiding(sn, k, set()) for sn in setters)]
        bad_later = [l for l in later if not (isinstance(l.value, ast.Call) and isinstance(l.value.func, ast.Attribute) and l.value.func.attr in ("drop", "copy", "reset_index", "sort_values", "rename")
                                              and isinstance(l.value.func.value, ast.Name) and l.value.func.value.id == frame)]
        if bad_later:
            chk.violation("C16.k", where, construct, f"the frame is re-bound after the floor ({norm(bad_later[0])[:60]})", loc=pw.loc(bad_later[0]))
        else:
            chk.ok("C16.k", where, construct, f"lower bound {sorted(v[1] for v in setters.values())[0]} applied on every path")


def runoff_quotient(chk, prog):
    """C16.l (the curve-number quotient is never 0/0): with a curve number of 100 the retention S is 0, so the denominator `rain + k*S` of the runoff
    formula is the rain itself; the quotient is evaluated only under a *strict* test that the rain exceeds the initial abstraction
    (`term <= 0` False with term = rain - a*S, or `rain > a*S` True) - a non-strict test (`rain < a*S` False) lets a rainless day through
    and raises ZeroDivisionError (weather values are Python floats)."""
    rp = prog.find_func("rainfall_partition")
    chk.fn(rp.key)
    where = f"{rp.module}:{rp.qualname}"
    flow = flow_of(rp)
    cfg = flow.cfg
    rain = rp.params[0]
    n = 0
    def mentions_rain(e, at, depth=0):
        for x in ast.walk(e):
            if isinstance(x, ast.Name):
                if x.id == rain:
                    return True
                if depth < 3:
                    for d in flow.defs_reaching(x.id, at):
                        a = cfg.nodes[d].ast if d != ENTRY else None
                        if isinstance(a, ast.Assign) and mentions_rain(a.value, d, depth + 1):
                            return True
        return False
    for dv in walk_no_nested(rp.node):
        if not (isinstance(dv, ast.BinOp) and isinstance(dv.op, ast.Div) and any(isinstance(x, ast.Name) and x.id == rain for x in ast.walk(dv.right))):
            continue
        nid = flow.node_of(dv)
        if nid is None:
            continue
        n += 1
        construct = norm(dv)[:90]
        strict, weak = [], []
        for t, l in cfg.transitive_control_deps(nid):
            c = cfg.nodes[t].ast
            if cfg.nodes[t].kind != "test" or not (isinstance(c, ast.Compare) and len(c.ops) == 1):
                continue
            lft, rgt, op = c.left, c.comparators[0], c.ops[0]
            if mentions_rain(lft, t) and not mentions_rain(rgt, t):
                pass
            elif mentions_rain(rgt, t) and not mentions_rain(lft, t):
                op = {ast.Lt: ast.Gt(), ast.LtE: ast.GtE(), ast.Gt: ast.Lt(), ast.GtE: ast.LtE()}.get(type(op), op)
            else:
                continue
            # now: <rain-side> op <other>
            if (isinstance(op, ast.Gt) and l is True) or (isinstance(op, ast.LtE) and l is False):
                strict.append(norm(c))
            elif (isinstance(op, ast.GtE) and l is True) or (isinstance(op, ast.Lt) and l is False):
                weak.append(norm(c))
        if strict:
            chk.ok("C16.l", where, construct, f"evaluated only where the rain strictly exceeds the abstraction ({strict[0]})")
        else:
            chk.violation("C16.l", where, construct, "the runoff quotient is not protected by a strict comparison of the rain with the initial abstraction"
                          + (f" (only `{weak[0]}`, which admits equality)" if weak else "") + ": with a curve number of 100 (S = 0) a rainless day evaluates 0.0 / 0.0 - "
                          "ZeroDivisionError", loc=rp.loc(dv))
    chk.floor("C16.l", n, 1, "quotients over the rain in rainfall_partition")


def deepening_progress(chk, prog):
    """C16.j (initialisation terminates): a `while` loop below _initialize whose test reads a quantity of the Soil object (zSoil) makes
    progress on every iteration: every path from the loop body's entry back to the loop test passes a store into the profile's
    thickness column (followed by the refresh of the derived total) - a `for ... if ...: break` that may find nothing to change is
    not enough."""
    from ..common import INIT_ROOT
    n = n_o = 0
    for key in sorted(prog.reachable_from(INIT_ROOT)):
        fi = prog.funcs.get(key)
        if fi is None:
            continue
        flow = None
        for w in walk_no_nested(fi.node):
            if not (isinstance(w, ast.While) and any(isinstance(x, ast.Attribute) and x.attr == "zSoil" for x in ast.walk(w.test))):
                continue
            flow = flow or flow_of(fi)
            cfg = flow.cfg
            n += 1
            chk.fn(key)
            where = f"{fi.module}:{fi.qualname}"
            tests = [t for t in cfg.live_nodes() if t.kind == "test" and t.stmt is w]
            body_entry = {t2 for t in tests for t2, l in t.succs if l is True and cfg.nodes[t2].stmt is not w}
            heads = [k for k in cfg.live_nodes() if k.kind == "loophead" and k.stmt is w]
            progress = {k.id for k in cfg.live_nodes() if isinstance(k.ast, (ast.Assign, ast.AugAssign)) and any(
                isinstance(x, ast.Constant) and x.value == "dz" for x in ast.walk(k.ast.targets[0] if isinstance(k.ast, ast.Assign) else k.ast.target))}
            construct = f"while {norm(w.test)}: progress on every iteration"
            stuck = any(cfg.paths_exist_avoiding(b, h.id, progress) for b in body_entry for h in heads)
            if not progress or stuck:
                chk.violation("C16.j", where, construct, "an iteration of the deepening loop can complete without changing any compartment thickness (no compartment "
                              "qualifies): the loop never ends, e.g. Soil('SandyLoam', dz=[0.3]*4) under Maize", loc=fi.loc(w))
            else:
                chk.ok("C16.j", where, construct, "every path through the body stores into the thickness column")
            # C16.o: the water-stress routines need a compartment that ends within the top soil (`assert comp_sto > 0` in root_zone_water; the
            # Soil constructor guarantees z_top >= dz[0]). A thickness store of the deepening loop either concerns a compartment that lies
            # below the top soil (guarded by `dzsum > z_top`), or is followed on every path to the next iteration by `z_top = max(z_top, <dz>)`.
            ztop_sets = {k.id for k in cfg.live_nodes() if isinstance(k.ast, ast.Assign) and isinstance(k.ast.targets[0], ast.Attribute)
                         and k.ast.targets[0].attr == "z_top" and isinstance(k.ast.value, ast.Call) and norm(k.ast.value.func) in ("max", "np.maximum")
                         and any(isinstance(x, ast.Attribute) and x.attr == "z_top" for x in ast.walk(k.ast.value))
                         and any((isinstance(x, ast.Attribute) and x.attr == "dz") or (isinstance(x, ast.Constant) and x.value == "dz") for x in ast.walk(k.ast.value))}
            for pid_ in sorted(progress):
                pn = cfg.nodes[pid_]
                if not any(x is pn.ast for x in ast.walk(w)):
                    continue
                guarded = any(cfg.nodes[t].kind == "test" and l is True and isinstance(cfg.nodes[t].ast, ast.Compare)
                              and any(isinstance(x, ast.Attribute) and x.attr == "z_top" for x in ast.walk(cfg.nodes[t].ast.comparators[0]))
                              and isinstance(cfg.nodes[t].ast.ops[0], (ast.Gt, ast.GtE))
                              and any(isinstance(x, ast.Constant) and x.value == "dzsum" for x in ast.walk(cfg.nodes[t].ast.left))
                              for t, l in cfg.transitive_control_deps(pid_))
                cons = f"{norm(pn.ast)[:80]}: a compartment still ends within the top soil"
                n_o += 1
                if guarded:
                    chk.ok("C16.o", where, cons, "only compartments below the top soil are thickened (`dzsum > z_top`)")
                elif all(not cfg.paths_exist_avoiding(s_, h.id, ztop_sets) for s_, _ in pn.succs for h in heads):
                    chk.ok("C16.o", where, cons, "followed on every path by z_top = max(z_top, first thickness)")
                else:
                    chk.violation("C16.o", where, cons, "this store may thicken the first compartment beyond the top-soil depth (a profile of one compartment, e.g. "
                                  "Soil('Loam', dz=[1.2]) under Maize): no compartment ends within z_top and root_zone_water's `assert comp_sto > 0` fails", loc=fi.loc(pn.ast))
    chk.floor("C16.j", n, 1, "loops on the soil depth below _initialize")
    chk.floor("C16.o", n_o, 1, "thickness stores of the deepening loop")


def state_field_divisors(chk, prog):
    """C16.p (guarded divisors - a rule the code follows at every instance): a division whose divisor is exactly a field of the crop state
    (`x / NewCond.ccx_w`, `.. / NewCond.ccx_early_sen`) - a quantity that is 0 at the start of a season and after the canopy is gone - is
    control dependent on a test of that very field. The field may be guarded inside a callee for other uses; the division itself must not
    run before the test (a "de-duplication" that moves the guard into a helper but leaves the quotient in front of the call divides 0 by 0)."""
    from ..common import step_roles
    roles = step_roles(prog)
    n = 0
    for key in sorted(roles.reached):
        fi = prog.funcs[key]
        flow = flow_of(fi)
        cfg = flow.cfg
        for d in walk_no_nested(fi.node):
            if not (isinstance(d, ast.BinOp) and isinstance(d.op, ast.Div) and isinstance(d.right, ast.Attribute)):
                continue
            if not any(p.startswith("STATE.") for p in roles.paths(fi, d.right)):
                continue
            nid = flow.node_of(d)
            if nid is None:
                continue
            n += 1
            chk.fn(key)
            name = norm(d.right)
            where = f"{fi.module}:{fi.qualname}"
            construct = f"... / {name}"
            guarded = any(cfg.nodes[t].kind == "test" and any(norm(y) == name for y in ast.walk(cfg.nodes[t].ast)) for t, _ in cfg.transitive_control_deps(nid))
            if guarded:
                chk.ok("C16.p", where, construct, "under a test of the field itself")
            else:
                chk.violation("C16.p", where, construct, f"division by the state field {name} with no test of that field on the way: it is 0 at the start of a season and when "
                              "the canopy is gone (ZeroDivisionError, or 0/0 = NaN with numpy scalars)", loc=fi.loc(d))
    chk.floor("C16.p", n, 3, "divisions by a field of the crop state below the daily step")


_NAN_EXAMPLE = """
def f(B, B_NS, d):
    Br = B / B_NS
    r = (Br - 0.5) / 0.5
    if (Br < 0.2) or (Br > 1):
        F = 1
    elif Br < 0.5:
        F = 1 + r * d
    else:
        F = 1 + (1 - r) * d
    return F
"""


def _nan_unsafe_results(fi):
    """[(quotient Assign, offending Assign)] and the number of candidate quotients of function-like object fi (node, params)"""
    from ..rdef import FuncFlow
    flow = FuncFlow(fi)
    cfg = flow.cfg
    out, n = [], 0
    for q in walk_no_nested(fi.node):
        if not (isinstance(q, ast.Assign) and len(q.targets) == 1 and isinstance(q.targets[0], ast.Name) and isinstance(q.value, ast.BinOp)
                and isinstance(q.value.op, ast.Div) and isinstance(q.value.left, ast.Name) and isinstance(q.value.right, ast.Name)
                and q.value.left.id in fi.params and q.value.right.id in fi.params):
            continue
        b = q.value.right.id
        if any(t.kind == "test" and any(isinstance(x, ast.Name) and x.id == b for x in ast.walk(t.ast)) for t in cfg.live_nodes()):
            continue                                   # the divisor is tested: not this rule's subject
        n += 1
        tainted = {q.targets[0].id}
        changed = True
        while changed:
            changed = False
            for a in walk_no_nested(fi.node):
                if isinstance(a, ast.Assign) and len(a.targets) == 1 and isinstance(a.targets[0], ast.Name) and a.targets[0].id not in tainted \
                        and any(isinstance(x, ast.Name) and x.id in tainted for x in ast.walk(a.value)):
                    tainted.add(a.targets[0].id)
                    changed = True
        returned = {x.id for r in walk_no_nested(fi.node) if isinstance(r, ast.Return) and r.value is not None for x in ast.walk(r.value) if isinstance(x, ast.Name)}
        results = tainted & returned
        for a in walk_no_nested(fi.node):
            if not (isinstance(a, ast.Assign) and len(a.targets) == 1):
                continue
            t = a.targets[0]
            is_result = (isinstance(t, ast.Name) and t.id in results) or isinstance(t, (ast.Attribute, ast.Subscript))
            if not is_result or not any(isinstance(x, ast.Name) and x.id in tainted for x in ast.walk(a.value)):
                continue
            nid = flow.stmt_node.get(id(a))
            if nid is None:
                continue
            guarded = any(cfg.nodes[tn].kind == "test" and lab is True and isinstance(cfg.nodes[tn].ast, ast.Compare)
                          and any(isinstance(x, ast.Name) and x.id in tainted for x in ast.walk(cfg.nodes[tn].ast))
                          for tn, lab in cfg.control_deps().get(nid, ()))
            out.append((q, a, guarded))
    return out, n


def nan_safe_quotients(chk, prog):
    """C16.q (every reported number is finite - NaN-safe case splits): a local defined as the plain quotient of two formals whose divisor is
    tested nowhere in the function can be 0/0 = NaN (potential and actual biomass are both 0 until the crop has transpired). Comparisons with
    NaN are False, so the function's results stay finite exactly when every assignment of a returned name (or of an attribute) whose value
    reads the quotient - directly or through locals derived from it - is control dependent on the TRUE edge of a comparison that reads the
    quotient or a derived local; the value of the fall-through branch must not read it. A re-ordered if / elif chain whose formula ends up in
    the `else` arm lets the NaN through. The candidates vanish when the divisor gets a test of its own, so the expected count is not fixed:
    the matcher is run on an embedded positive example first."""
    from types import SimpleNamespace
    exn = ast.parse(_NAN_EXAMPLE).body[0]
    ex, exc = _nan_unsafe_results(SimpleNamespace(node=exn, params=[a.arg for a in exn.args.args]))
    if exc != 1 or sorted(g for _, _, g in ex) != [False, True]:
        raise AnalysisError(f"C16.q: the matcher no longer recognises its positive example ({exc}, {[g for _, _, g in ex]})")
    n = 0
    for key in sorted(prog.funcs):
        fi = prog.funcs[key]
        res, cand = _nan_unsafe_results(fi)
        n += cand
        where = f"{fi.module}:{fi.qualname}"
        for q, a, guarded in res:
            chk.fn(key)
            construct = f"{norm(a)[:80]}  [quotient {norm(q)}]"
            if guarded:
                chk.ok("C16.q", where, construct, "reads the quotient only under the True edge of a comparison on it (False for NaN)")
            else:
                chk.violation("C16.q", where, construct, f"`{norm(q)}` is 0/0 = NaN while both quantities are 0 and `{q.value.right.id}` is tested nowhere; this assignment "
                              "reads it on a branch that is not entered through the True edge of a comparison on it (every comparison with NaN is False, so the NaN "
                              "reaches the result): non-finite yields", loc=fi.loc(a))
    chk.ok("C16.q", "aquacrop", f"{n} quotient(s) of two formals with an untested divisor", "matcher exercised on the embedded example (one unsafe, one safe assignment)")


def run(chk, prog, tier):
    from ._siblings import yield_clock_agreement
    chk.parallel(prog, [rule_a, attribute_definedness, lambda c, p: table_divisors(c, p, "C16.c"), first_element_sites,
                        lambda c, p: yield_clock_agreement(c, p, "C16.e"), readonly_arrays, positional_index_sites])
    no_none_outputs(chk, prog)
    mock_years(chk, prog)
    deepening_progress(chk, prog)
    et0_floor(chk, prog)
    runoff_quotient(chk, prog)
    state_field_divisors(chk, prog)
    nan_safe_quotients(chk, prog)
    from .c07 import finished_at_window_end
    finished_at_window_end(chk, prog, "C16.m")
    from ._loops import loop_variants
    chk.floor("C16.n", loop_variants(chk, prog, "C16.n"), 18, "while loops of the package classified by their reason to stop")
    chk.exhaustive = True
