"""Shared helpers for the weather-table rules (C14, C15)."""
from __future__ import annotations
import ast
from typing import List, Optional, Tuple
from ..common import INIT_ROOT
from ..model import norm, walk_no_nested, AnalysisError

REQUIRED = ["MinTemp", "MaxTemp", "Precipitation", "ReferenceET", "Date"]


def weather_matrix_binding(prog):
    """the statement of _initialize that builds the positional weather matrix, and its column order (or None)"""
    fi = prog.func(INIT_ROOT)
    for n in walk_no_nested(fi.node):
        if isinstance(n, ast.Assign) and isinstance(n.targets[0], ast.Attribute) and n.targets[0].attr == "_weather":
            v = n.value
            order = None
            # self.weather_df[[...]].values  /  .loc[:, [...]].values / .reindex(columns=[...]).values / to_numpy()
            core = v
            if isinstance(core, ast.Attribute) and core.attr == "values":
                core = core.value
            elif isinstance(core, ast.Call) and isinstance(core.func, ast.Attribute) and core.func.attr == "to_numpy":
                core = core.func.value
            lst = None
            if isinstance(core, ast.Subscript):
                sl = core.slice
                if isinstance(sl, ast.List):
                    lst = sl
                elif isinstance(sl, ast.Tuple) and len(sl.elts) == 2 and isinstance(sl.elts[1], ast.List):
                    lst = sl.elts[1]
            elif isinstance(core, ast.Call) and isinstance(core.func, ast.Attribute) and core.func.attr == "reindex":
                for kw in core.keywords:
                    if kw.arg == "columns" and isinstance(kw.value, ast.List):
                        lst = kw.value
            if lst is not None and all(isinstance(x, ast.Constant) and isinstance(x.value, str) for x in lst.elts):
                order = [x.value for x in lst.elts]
            return fi, n, order
    raise AnalysisError("_initialize no longer builds self._weather")


def const_index(sl: ast.AST) -> Optional[int]:
    """k for x[k] or x[:, k]"""
    if isinstance(sl, ast.Constant) and isinstance(sl.value, int) and not isinstance(sl.value, bool):
        return sl.value
    if isinstance(sl, ast.Tuple) and len(sl.elts) == 2 and isinstance(sl.elts[0], ast.Slice) \
            and isinstance(sl.elts[1], ast.Constant) and isinstance(sl.elts[1].value, int):
        return sl.elts[1].value
    return None


def window_selection(chk, prog, rule):
    """read_weather_inputs cuts the window only by boolean masks on the Date column (both bounds)"""
    from ..rdef import flow_of, ENTRY
    rw = prog.find_func("read_weather_inputs")
    chk.fn(rw.key)
    flow = flow_of(rw)
    where = f"{rw.module}:{rw.qualname}"
    rets = [r for r in walk_no_nested(rw.node) if isinstance(r, ast.Return)]
    if not rets or not all(isinstance(r.value, ast.Name) for r in rets):
        raise AnalysisError("read_weather_inputs: expected `return <name>`")
    frame = rets[-1].value.id
    param = rw.params[1] if len(rw.params) > 1 else None
    # every definition of the returned frame (transitively, for every return) is a Date-mask selection of the previous frame
    seen, work = set(), [(r.value, flow.stmt_node[id(r)]) for r in rets]
    nsel = 0
    mask_texts = []
    while work:
        name_node, nid = work.pop()
        for d in flow.defs_reaching(name_node.id if isinstance(name_node, ast.Name) else name_node, nid):
            if d in seen:
                continue
            seen.add(d)
            if d == ENTRY:
                continue
            st = flow.cfg.nodes[d].ast
            construct = norm(st)
            ok = False
            if isinstance(st, ast.Assign) and isinstance(st.value, ast.Subscript) and isinstance(st.value.value, ast.Name):
                sl = st.value.slice
                if isinstance(sl, ast.Name):
                    # a mask kept in a local: in_period = (F.Date >= a) & (F.Date <= b); F = F[in_period]
                    mds = [flow.cfg.nodes[k].ast for k in flow.defs_reaching(sl.id, d) if k != ENTRY]
                    if len(mds) == 1 and isinstance(mds[0], ast.Assign):
                        sl = mds[0].value
                        construct = construct + "  with  " + norm(mds[0])
                        mask_texts.append(norm(mds[0]))
                atoms = [sl] if isinstance(sl, ast.Compare) else (
                    [sl.left, sl.right] if isinstance(sl, ast.BinOp) and isinstance(sl.op, ast.BitAnd) else [])
                ok = bool(atoms) and all(isinstance(a, ast.Compare) and isinstance(a.left, ast.Attribute) and a.left.attr == "Date"
                                         and "date" in norm(a.comparators[0]).lower() for a in atoms)
                if ok:
                    nsel += 1
                    work.append((st.value.value, d))
            if not ok and _row_permutation(st):
                # sorting by date / renumbering the index keeps the set of rows: follow the frame through it
                work.append((_row_permutation(st), d))
                chk.ok(rule, where, construct, "reorders the rows, selects none")
                continue
            if ok:
                chk.ok(rule, where, construct, "rows selected by comparing the Date column with the window")
            else:
                if "sort_values(" in construct:
                    chk.violation(rule, where, construct, "the rows are ordered by the *label* 'Date': when the user's table is indexed by its own Date column the label is "
                                  "ambiguous and pandas raises - re-indexing the weather table must not matter (order through the column's values: argsort)", loc=rw.loc(st))
                    base = st.value if isinstance(st, ast.Assign) else None
                    while isinstance(base, (ast.Call, ast.Attribute, ast.Subscript)):
                        base = base.func if isinstance(base, ast.Call) else base.value
                    if isinstance(base, ast.Name):
                        work.append((base, d))      # keep following the frame: the bounds are reported on their own
                    continue
                chk.violation(rule, where, construct,
                              "the simulation window is cut out of the weather table by something else than a comparison on the Date "
                              "column (index labels / row positions depend on how the table happens to be indexed)", loc=rw.loc(st))
    chk.floor(rule, nsel, 1, "Date-mask selections in read_weather_inputs")
    # both bounds are applied
    txt = " ".join(norm(flow.cfg.nodes[d].ast) for d in seen if d != ENTRY) + " " + " ".join(mask_texts)
    if ">=" in txt and "<=" in txt:
        chk.ok(rule, where, "window bounds", "both the start and the end date bound the selection")
    else:
        chk.violation(rule, where, "window bounds", "the selection does not bound the rows by both the start and the end date", loc=rw.loc())


def is_argsort_of(e, frame: str, col: str = None) -> bool:
    """e is `<frame>.<col>.argsort(...)[.values]` / `np.argsort(<frame>.<col>[.values], ...)`: a permutation of range(len(frame))"""
    while isinstance(e, ast.Attribute) and e.attr in ("values", "array") or (isinstance(e, ast.Call) and isinstance(e.func, ast.Attribute) and e.func.attr == "to_numpy"):
        e = e.value if isinstance(e, ast.Attribute) else e.func.value
    src = None
    if isinstance(e, ast.Call) and isinstance(e.func, ast.Attribute) and e.func.attr == "argsort" and not (isinstance(e.func.value, ast.Name) and e.func.value.id in ("np", "numpy")):
        src = e.func.value
    elif isinstance(e, ast.Call) and norm(e.func) in ("np.argsort", "numpy.argsort") and e.args:
        src = e.args[0]
    if src is None:
        return False
    while isinstance(src, ast.Attribute) and src.attr in ("values", "array"):
        src = src.value
    if isinstance(src, ast.Attribute) and isinstance(src.value, ast.Name) and src.value.id == frame:
        return col is None or src.attr == col
    if isinstance(src, ast.Subscript) and isinstance(src.value, ast.Name) and src.value.id == frame and isinstance(src.slice, ast.Constant):
        return col is None or src.slice.value == col
    return False


def _row_permutation(st):
    """the frame name X for `Y = X.sort_values("Date"...)[.reset_index(drop=True)]` / `Y = X.reset_index(drop=True)` / `Y = X.sort_index()`: same rows, other order"""
    if not (isinstance(st, ast.Assign) and isinstance(st.targets[0], ast.Name)):
        return None
    v = st.value
    # X.iloc[<argsort of X's Date column>]: a permutation of the rows of X
    if isinstance(v, ast.Subscript) and isinstance(v.value, ast.Attribute) and v.value.attr == "iloc" and isinstance(v.value.value, ast.Name) \
            and is_argsort_of(v.slice, v.value.value.id, "Date"):
        return v.value.value
    while isinstance(v, ast.Call) and isinstance(v.func, ast.Attribute) and v.func.attr in ("sort_values", "reset_index", "sort_index", "copy"):
        if v.func.attr == "sort_values":
            by = v.args[0] if v.args else next((k.value for k in v.keywords if k.arg == "by"), None)
            if not (isinstance(by, ast.Constant) and by.value == "Date"):
                return None
            # a sort by the *label* "Date" is ambiguous (ValueError) when the user's index is itself named Date: acceptable only on a
            # frame whose index has just been dropped
            inner = v.func.value
            if not (isinstance(inner, ast.Call) and isinstance(inner.func, ast.Attribute) and inner.func.attr == "reset_index"
                    and any(k.arg == "drop" and isinstance(k.value, ast.Constant) and k.value.value is True for k in inner.keywords)):
                return None
        v = v.func.value
    return v if isinstance(v, ast.Name) and v is not st.value else None


def day_binding(chk, prog, rule):
    """read_weather_inputs hands back a frame whose k-th row is the record of the k-th simulation day: the return is guarded by a raising test
    that compares the Date column of the frame with the clock's `time_span` (row positions are what the daily step and the season-long
    degree-day sums index by), and the frame that is compared is the frame that is returned"""
    rw = prog.find_func("read_weather_inputs")
    chk.fn(rw.key)
    where = f"{rw.module}:{rw.qualname}"
    all_rets = [r for r in walk_no_nested(rw.node) if isinstance(r, ast.Return)]
    if not all_rets or not all(isinstance(r.value, ast.Name) for r in all_rets):
        raise AnalysisError("read_weather_inputs: expected `return <name>`")
    rets = [r for r in all_rets if r in rw.node.body]          # the top-level return the guard is matched against
    if len(rets) != 1:
        raise AnalysisError("read_weather_inputs: expected one top-level `return <name>`")
    frame = rets[0].value.id
    # names that carry the Date column of the returned frame (one level of locals)
    dates = set()
    for a in walk_no_nested(rw.node):
        if isinstance(a, ast.Assign) and isinstance(a.targets[0], ast.Name):
            if any(isinstance(x, ast.Attribute) and x.attr == "Date" and isinstance(x.value, ast.Name) and x.value.id == frame for x in ast.walk(a.value)) or \
               any(isinstance(x, ast.Subscript) and isinstance(x.value, ast.Name) and x.value.id == frame and isinstance(x.slice, ast.Constant) and x.slice.value == "Date" for x in ast.walk(a.value)):
                dates.add(a.targets[0].id)
    guards = []
    body = rw.node.body
    for i, st in enumerate(body):
        if not isinstance(st, ast.If):
            continue
        t = st.test
        has_span = any(isinstance(x, ast.Attribute) and x.attr == "time_span" for x in ast.walk(t))
        has_dates = any((isinstance(x, ast.Name) and x.id in dates) or (isinstance(x, ast.Attribute) and x.attr == "Date" and isinstance(x.value, ast.Name) and x.value.id == frame)
                        for x in ast.walk(t))
        raises = st.body and all(isinstance(b, ast.Raise) for b in st.body[-1:]) and not st.orelse
        if has_span and has_dates and raises:
            guards.append((i, st))
    if not guards:
        chk.violation(rule, where, "return " + frame,
                      "the clipped weather frame is returned without comparing its dates with the simulation days (clock.time_span): a missing, "
                      "duplicated or out-of-order record shifts every later day onto another day's weather", loc=rw.loc(rets[0]))
        return
    i, g = guards[-1]
    # no other return leaves the function before the guard (an early "nothing to do" exit hands the frame back unchecked and unordered)
    for r in all_rets:
        if r is rets[0]:
            continue
        top = next((j for j, st in enumerate(rw.node.body) if any(x is r for x in ast.walk(st))), None)
        if top is None or top <= i:
            chk.violation(rule, where, f"early `return {norm(r.value)}`", "this return leaves read_weather_inputs before the frame's dates were compared with the simulation "
                          "days (and before the rows were put in chronological order): a table that fits the window exactly but is not in date order is used row by row",
                          loc=rw.loc(r))
    # nothing after the guard changes the row set / order of the frame or of the compared dates
    later = [s for s in body[i + 1:] for a in ast.walk(s) if isinstance(a, ast.Assign) and any(isinstance(t, ast.Name) and t.id == frame for t in a.targets)]
    # and the dates compared are taken from the frame after its last re-definition
    last_def = max((j for j, s in enumerate(body) if any(isinstance(a, ast.Assign) and any(isinstance(t, ast.Name) and t.id == frame for t in a.targets) for a in ast.walk(s))), default=-1)
    date_defs = [j for j, s in enumerate(body) if isinstance(s, ast.Assign) and isinstance(s.targets[0], ast.Name) and s.targets[0].id in dates
                 and any(isinstance(x, ast.Name) and x.id == s.targets[0].id for x in ast.walk(g.test))]
    stale = any(j < last_def for j in date_defs)
    if later or stale:
        chk.violation(rule, where, norm(g.test)[:100],
                      "the frame is re-defined after its dates were compared with the simulation days: the check does not describe what is returned", loc=rw.loc(g))
    else:
        chk.ok(rule, where, norm(g.test)[:100], "raising guard compares the returned frame's dates with clock.time_span")
    # equality of the dates themselves, not of their number: an ==/!= (or .equals) whose two sides are the date vector and time_span
    def _is_dates(x):
        return (isinstance(x, ast.Name) and x.id in dates) or (isinstance(x, ast.Attribute) and x.attr == "Date" and isinstance(x.value, ast.Name) and x.value.id == frame) \
            or (isinstance(x, ast.Call) and isinstance(x.func, ast.Attribute) and x.func.attr in ("to_numpy", "reset_index", "tolist") and _is_dates(x.func.value)) \
            or (isinstance(x, ast.Attribute) and x.attr in ("values", "array") and _is_dates(x.value)) \
            or (isinstance(x, ast.Call) and norm(x.func) in ("pd.DatetimeIndex", "pd.Index", "list", "np.array", "np.asarray") and len(x.args) == 1 and _is_dates(x.args[0]))

    def _is_span(x):
        return (isinstance(x, ast.Attribute) and x.attr == "time_span") \
            or (isinstance(x, ast.Call) and isinstance(x.func, ast.Attribute) and x.func.attr in ("to_numpy", "tolist") and _is_span(x.func.value)) \
            or (isinstance(x, ast.Attribute) and x.attr in ("values", "array") and _is_span(x.value)) \
            or (isinstance(x, ast.Call) and norm(x.func) in ("pd.DatetimeIndex", "pd.Index", "list", "np.array", "np.asarray") and len(x.args) == 1 and _is_span(x.args[0]))

    eq = False
    for x in ast.walk(g.test):
        if isinstance(x, ast.Compare) and len(x.ops) == 1 and isinstance(x.ops[0], (ast.Eq, ast.NotEq)):
            a, b = x.left, x.comparators[0]
            eq = eq or (_is_dates(a) and _is_span(b)) or (_is_span(a) and _is_dates(b))
        if isinstance(x, ast.Call) and isinstance(x.func, ast.Attribute) and x.func.attr in ("equals", "array_equal") and x.args:
            ops = ([x.func.value] if x.func.attr == "equals" else []) + list(x.args)
            eq = eq or (any(_is_dates(o) for o in ops) and any(_is_span(o) for o in ops))
    if eq:
        chk.ok(rule, where, "elementwise comparison", "dates compared for equality with the simulation days")
    else:
        chk.violation(rule, where, "elementwise comparison", "the guard does not compare the dates themselves with the simulation days", loc=rw.loc(g))


# --------------------------------------------------------------------------------------------- whole-row operations

_ROW_OPS = {"dropna", "drop_duplicates", "duplicated"}


def weather_frame_formals(prog):
    """(function key, formal) pairs that receive the user's weather frame, followed positionally from `self.weather_df` in _initialize"""
    from ..common import INIT_ROOT
    ini = prog.func(INIT_ROOT)
    out, work = set(), []
    for c, t in prog.calls_in(ini):
        if hasattr(t, "params"):
            pos = t.params[1:] if (t.cls and t.params and t.params[0] in ("self", "cls")) else t.params
            for i, a in enumerate(c.args):
                if isinstance(a, ast.Attribute) and a.attr == "weather_df" and i < len(pos):
                    work.append((t, pos[i]))
    # the model stores the frame through a property setter: its value parameter holds the user's frame too
    for fi in prog.funcs.values():
        if fi.name == "weather_df" and fi.cls and len(fi.params) == 2 and any(
                isinstance(d, ast.Attribute) and d.attr == "setter" for d in getattr(fi.node, "decorator_list", [])):
            work.append((fi, fi.params[1]))
    while work:
        f, formal = work.pop()
        if (f.key, formal) in out:
            continue
        out.add((f.key, formal))
        for c, t in prog.calls_in(f):
            if hasattr(t, "params"):
                pos = t.params[1:] if (t.cls and t.params and t.params[0] in ("self", "cls")) else t.params
                for i, a in enumerate(c.args):
                    if isinstance(a, ast.Name) and a.id == formal and i < len(pos):
                        work.append((t, pos[i]))
                for k in c.keywords:
                    if isinstance(k.value, ast.Name) and k.value.id == formal and k.arg in t.params:
                        work.append((t, k.arg))
    return out


def whole_row_ops(chk, prog, rule: str) -> int:
    """operations that drop / compare whole rows of the weather frame (dropna, drop_duplicates, duplicated) name the columns they look at
    (`subset=`): without it an unrelated extra column with gaps decides which days survive"""
    n = 0
    formals = weather_frame_formals(prog)
    chk.notes[rule + "_weather_frame_formals"] = sorted(f"{k}:{f}" for k, f in formals)
    for key, formal in sorted(formals):
        fi = prog.funcs[key]
        where = f"{fi.module}:{fi.qualname}"
        # locals holding (a row selection of) the frame: the formal, and names assigned from expressions rooted at such a name
        frames = {formal}
        changed = True
        while changed:
            changed = False
            for a in walk_no_nested(fi.node):
                if isinstance(a, ast.Assign) and isinstance(a.targets[0], ast.Name) and a.targets[0].id not in frames:
                    v = a.value
                    while isinstance(v, (ast.Call, ast.Attribute, ast.Subscript)):
                        v = v.func if isinstance(v, ast.Call) else v.value
                    if isinstance(v, ast.Name) and v.id in frames and not (isinstance(a.value, ast.Subscript) and isinstance(a.value.slice, ast.Constant)):
                        frames.add(a.targets[0].id)
                        changed = True
        for c in walk_no_nested(fi.node):
            if isinstance(c, ast.Call) and isinstance(c.func, ast.Attribute) and c.func.attr in _ROW_OPS:
                recv = c.func.value
                if isinstance(recv, ast.Name) and recv.id in frames:
                    n += 1
                    chk.fn(key)
                    if any(k.arg == "subset" for k in c.keywords):
                        chk.ok(rule, where, norm(c)[:80], "row operation restricted to named columns")
                    else:
                        chk.violation(rule, where, norm(c)[:80], f"{c.func.attr}() on the whole weather frame looks at every column: an unrelated extra column with "
                                      "missing values removes days (shifts the positional day-of-season lookups) or raises", loc=fi.loc(c))
    return n



def scratch_columns(chk, prog, rule: str) -> int:
    """a column the model adds for its own bookkeeping (`F['gdd'] = ...`, `F.loc[mask, 'season'] = ...`) must not land in a frame that still
    carries the user's columns: an unrelated user column of that name is overwritten in part (its other values survive and are read back) or
    refuses the values (dtype). The frame written to must be built by the model (a constructor call) or restricted by name to required
    columns (`F[[...literal required names...]]`); reaching definitions decide which frame a name holds at the store."""
    from ..rdef import flow_of, ENTRY
    n = 0
    formals = weather_frame_formals(prog)
    for key, formal in sorted(formals):
        fi = prog.funcs[key]
        flow = flow_of(fi)
        cfg = flow.cfg
        where = f"{fi.module}:{fi.qualname}"

        def carries_user_columns(name, at, depth=0):
            if depth > 6:
                return True
            for d in flow.defs_reaching(name, at):
                if d == ENTRY:
                    if name == formal:
                        return True
                    continue
                a = cfg.nodes[d].ast
                if not isinstance(a, ast.Assign):
                    continue
                v = a.value
                # restricted by name to required columns
                if isinstance(v, ast.Subscript) and isinstance(v.slice, ast.List) and all(isinstance(e, ast.Constant) and e.value in REQUIRED for e in v.slice.elts):
                    continue
                core = v
                while isinstance(core, (ast.Call, ast.Attribute, ast.Subscript)):
                    if isinstance(core, ast.Call) and norm(core.func) in ("pd.DataFrame", "pandas.DataFrame", "DataFrame"):
                        core = None
                        break
                    core = core.func if isinstance(core, ast.Call) else core.value
                if core is None:
                    continue            # a frame the model built itself
                if isinstance(core, ast.Name) and carries_user_columns(core.id, d, depth + 1):
                    return True
            return False

        for a in walk_no_nested(fi.node):
            if not (isinstance(a, ast.Assign) and isinstance(a.targets[0], ast.Subscript)):
                continue
            t = a.targets[0]
            col = frame = None
            if isinstance(t.value, ast.Name) and isinstance(t.slice, ast.Constant) and isinstance(t.slice.value, str):
                frame, col = t.value.id, t.slice.value
            elif isinstance(t.value, ast.Attribute) and t.value.attr == "loc" and isinstance(t.value.value, ast.Name) and isinstance(t.slice, ast.Tuple) \
                    and len(t.slice.elts) == 2 and isinstance(t.slice.elts[1], ast.Constant) and isinstance(t.slice.elts[1].value, str):
                frame, col = t.value.value.id, t.slice.elts[1].value
            if frame is None or col in REQUIRED:
                continue
            nid = flow.stmt_node.get(id(a))
            if nid is None:
                continue
            # only frames that are (or may be) weather frames: the name has a definition chain to the formal, or is built from it
            n += 1
            chk.fn(key)
            construct = norm(a)[:90]
            if carries_user_columns(frame, nid):
                chk.violation(rule, where, construct, f"the bookkeeping column '{col}' is written into a frame that still carries the user's columns: an unrelated column "
                              f"named '{col}' in the weather table is overwritten in part or rejects the values", loc=fi.loc(a))
            else:
                chk.ok(rule, where, construct, f"'{col}' is a column of a frame the model built itself / restricted to the required columns")
    return n



_LABEL_EXAMPLE = """
def f(weather_df, pl_date):
    pre_planting = weather_df.Date < pl_date
    weather_df = weather_df.drop(weather_df.index[pre_planting])
    later = weather_df.loc[weather_df.index[3:]]
    cols = weather_df.drop(["Day"], axis=1)
    w2 = weather_df.copy()
    w2.index = w2.Date
    ok = w2.loc[w2.index[2:]]
    return weather_df
"""


def _label_sites(fn_node, formal):
    """(node, frame name, what, frame index set from Date in this function) for label-based row operations on frames derived from `formal`"""
    frames = {formal}
    changed = True
    while changed:
        changed = False
        for a in walk_no_nested(fn_node):
            if isinstance(a, ast.Assign) and isinstance(a.targets[0], ast.Name) and a.targets[0].id not in frames:
                v = a.value
                while isinstance(v, (ast.Call, ast.Attribute, ast.Subscript)):
                    v = v.func if isinstance(v, ast.Call) else v.value
                if isinstance(v, ast.Name) and v.id in frames and not (isinstance(a.value, ast.Subscript) and isinstance(a.value.slice, ast.Constant)):
                    frames.add(a.targets[0].id); changed = True
    date_indexed = {a.targets[0].value.id for a in walk_no_nested(fn_node)
                    if isinstance(a, ast.Assign) and isinstance(a.targets[0], ast.Attribute) and a.targets[0].attr == "index" and isinstance(a.targets[0].value, ast.Name)
                    and any(isinstance(x, ast.Attribute) and x.attr == "Date" for x in ast.walk(a.value))}
    def uses_index(e):
        return any(isinstance(x, ast.Attribute) and x.attr == "index" and isinstance(x.value, ast.Name) and x.value.id in frames for x in ast.walk(e))
    out = []
    for c in walk_no_nested(fn_node):
        site = None
        if isinstance(c, ast.Call) and isinstance(c.func, ast.Attribute) and c.func.attr == "drop" and isinstance(c.func.value, ast.Name) and c.func.value.id in frames:
            # dropping columns (axis=1 / columns=) is not a row operation
            if any(k.arg == "columns" for k in c.keywords) or any(k.arg == "axis" and isinstance(k.value, ast.Constant) and k.value.value in (1, "columns") for k in c.keywords):
                continue
            site = (c, c.func.value.id, "drop by index labels")
        elif isinstance(c, ast.Subscript) and isinstance(c.value, ast.Attribute) and c.value.attr == "loc" and isinstance(c.value.value, ast.Name) \
                and c.value.value.id in frames and isinstance(c.ctx, ast.Load) and uses_index(c.slice):
            site = (c, c.value.value.id, "selection by index labels")
        elif isinstance(c, ast.Subscript) and isinstance(c.value, ast.Name) and c.value.id in frames and isinstance(c.ctx, ast.Load) and uses_index(c.slice):
            site = (c, c.value.id, "selection by a test on index labels")
        if site is not None:
            out.append(site + (site[1] in date_indexed,))
    return out


def label_row_ops(chk, prog, rule: str) -> int:
    """rows of the weather frame are never removed or selected through the labels of the user's index: `F.drop(F.index[mask])`,
    `F.drop(labels)`, `F.loc[F.index[...]]`, `F[F.index.isin(...)]` act on every row that carries one of the labels - with repeated labels
    (yearly tables concatenated without ignore_index, a day-of-year index) rows of other days go too. Accepted: boolean masks on columns,
    `.iloc`, and label operations on a frame whose index was set from its own Date column in the same function (`F.index = F.Date`).
    Expected count on a healthy tree is zero: the matcher is run on an embedded positive example first."""
    ex = _label_sites(ast.parse(_LABEL_EXAMPLE).body[0], "weather_df")
    if sorted((w, d) for _, _, w, d in ex) != [("drop by index labels", False), ("selection by index labels", False), ("selection by index labels", True)]:
        raise AnalysisError(f"{rule}: the matcher no longer recognises its positive example ({[(w, d) for _, _, w, d in ex]})")
    n = 0
    for key, formal in sorted(weather_frame_formals(prog)):
        fi = prog.funcs[key]
        where = f"{fi.module}:{fi.qualname}"
        from ..rdef import flow_of
        flow = flow_of(fi)
        idx_sets = [(a.targets[0].value.id, flow.stmt_node.get(id(a))) for a in walk_no_nested(fi.node)
                    if isinstance(a, ast.Assign) and isinstance(a.targets[0], ast.Attribute) and a.targets[0].attr == "index" and isinstance(a.targets[0].value, ast.Name)
                    and any(isinstance(x, ast.Attribute) and x.attr == "Date" for x in ast.walk(a.value))]
        for node, fr, what, dated in _label_sites(fi.node, formal):
            # the index assignment must dominate the site (another branch's assignment does not count)
            sn = flow.node_of(node)
            dated = dated and sn is not None and any(f_ == fr and k is not None and k in flow.cfg.dominators()[sn] for f_, k in idx_sets)
            n += 1
            chk.fn(key)
            if dated:
                chk.ok(rule, where, norm(node)[:90], "the frame's index was set from its Date column in this function: labels are dates")
            else:
                chk.violation(rule, where, norm(node)[:90], f"{what} of the user's weather index: with repeated labels every row sharing a label is affected - days of other "
                              "years vanish from the temperature series the crop calendar is built from", loc=fi.loc(node))
    return n


_REQCOL_EXAMPLE = """
def f(weather_df):
    weather_df = weather_df.assign(Date=weather_df.index)
    weather_df["MinTemp"] = weather_df["MinTemp"].round(1)
    w2 = weather_df.reset_index()
    w2.Date = w2["index"]
    w2.loc[w2.MaxTemp < w2.MinTemp, "MaxTemp"] = 0
    w2.insert(0, "ReferenceET", 1.0)
    return w2
"""


def _required_store_sites(fn: ast.AST, formal: str):
    """[(node, frame name, column, value expression)] - stores into a required weather column of a frame derived from `formal`"""
    frames = {formal}
    changed = True
    while changed:
        changed = False
        for a in walk_no_nested(fn):
            if isinstance(a, ast.Assign) and len(a.targets) == 1 and isinstance(a.targets[0], ast.Name) and a.targets[0].id not in frames:
                core = a.value
                while isinstance(core, (ast.Call, ast.Attribute, ast.Subscript)):
                    core = core.func if isinstance(core, ast.Call) else core.value
                if isinstance(core, ast.Name) and core.id in frames:
                    frames.add(a.targets[0].id)
                    changed = True
    out = []
    for a in walk_no_nested(fn):
        if isinstance(a, (ast.Assign, ast.AugAssign)):
            t = a.targets[0] if isinstance(a, ast.Assign) else a.target
            fr = col = None
            if isinstance(t, ast.Subscript) and isinstance(t.value, ast.Name) and isinstance(t.slice, ast.Constant):
                fr, col = t.value.id, t.slice.value
            elif isinstance(t, ast.Subscript) and isinstance(t.value, ast.Attribute) and t.value.attr in ("loc", "iloc", "at") and isinstance(t.value.value, ast.Name) \
                    and isinstance(t.slice, ast.Tuple) and len(t.slice.elts) == 2 and isinstance(t.slice.elts[1], ast.Constant):
                fr, col = t.value.value.id, t.slice.elts[1].value
            elif isinstance(t, ast.Attribute) and isinstance(t.value, ast.Name):
                fr, col = t.value.id, t.attr
            if fr in frames and col in REQUIRED:
                out.append((a, fr, col, a.value))
        elif isinstance(a, ast.Call) and isinstance(a.func, ast.Attribute) and isinstance(a.func.value, ast.Name) and a.func.value.id in frames:
            if a.func.attr == "assign":
                for k in a.keywords:
                    if k.arg in REQUIRED:
                        out.append((a, a.func.value.id, k.arg, k.value))
            elif a.func.attr == "insert" and len(a.args) >= 3 and isinstance(a.args[1], ast.Constant) and a.args[1].value in REQUIRED:
                out.append((a, a.func.value.id, a.args[1].value, a.args[2]))
    return out


def _same_column_only(value: ast.AST, frames_col) -> bool:
    """the stored value is computed from the same column of the same frame (a dtype / unit-free clean-up), not from the index or other columns"""
    fr, col = frames_col
    reads = []
    for x in ast.walk(value):
        if isinstance(x, ast.Attribute) and x.attr == "index":
            return False
        if isinstance(x, ast.Subscript) and isinstance(x.value, ast.Name) and isinstance(x.slice, ast.Constant) and isinstance(x.slice.value, str):
            reads.append((x.value.id, x.slice.value))
        elif isinstance(x, ast.Attribute) and isinstance(x.value, ast.Name) and x.attr in REQUIRED:
            reads.append((x.value.id, x.attr))
    return bool(reads) and all(r == (fr, col) for r in reads)


def required_column_stores(chk, prog, rule: str) -> int:
    """each weather variable is taken from the user's column of that name: no function that receives the weather frame writes into one of the
    required columns (Date, MinTemp, MaxTemp, Precipitation, ReferenceET) - `F['Date'] = ...`, `F.Date = ...`, `F.loc[.., 'Date'] = ...`,
    `F.assign(Date=...)`, `F.insert(.., 'Date', ..)` - from anything but that same column. In particular the Date column is never rebuilt from
    the index: re-indexing the table must not change which day a record belongs to. Expected count on a healthy tree is zero: the matcher is
    run on an embedded positive example first."""
    ex = _required_store_sites(ast.parse(_REQCOL_EXAMPLE).body[0], "weather_df")
    got = sorted((c, _same_column_only(v, (fr, c))) for _, fr, c, v in ex)
    if got != [("Date", False), ("Date", False), ("MaxTemp", False), ("MinTemp", True), ("ReferenceET", False)]:
        raise AnalysisError(f"{rule}: the matcher no longer recognises its positive example ({got})")
    n = 0
    formals = sorted(weather_frame_formals(prog))
    for key, formal in formals:
        fi = prog.funcs[key]
        where = f"{fi.module}:{fi.qualname}"
        chk.fn(key)
        for node, fr, col, val in _required_store_sites(fi.node, formal):
            n += 1
            if _same_column_only(val, (fr, col)):
                chk.ok(rule, where, norm(node)[:90], f"'{col}' rewritten from itself only")
            else:
                chk.violation(rule, where, norm(node)[:90], f"the weather column '{col}' of the user's table is overwritten" + (
                    " from the index" if any(isinstance(x, ast.Attribute) and x.attr == "index" for x in ast.walk(val)) else "")
                    + ": the value used for a day is no longer the one in the user's column of that name (a re-indexed table gives other results)", loc=fi.loc(node))
    chk.ok(rule, "aquacrop", f"stores into required weather columns in {len(formals)} functions that receive the weather frame", f"{n} found; matcher exercised on the embedded example (5 sites)")
    return len(formals)


_COLSEL_EXAMPLE = """
def f(weather_df):
    t = weather_df.filter(like="Temp").mean(axis=1)
    n = weather_df.select_dtypes("number")
    first = weather_df.iloc[:, 1]
    byname = weather_df[weather_df.columns[2]]
    rowmean = weather_df.mean(axis=1)
    ok1 = weather_df[["MinTemp", "MaxTemp"]].mean(axis=1)
    ok2 = weather_df.iloc[3:10]
    ok3 = weather_df.filter(items=["MinTemp", "MaxTemp"])
    return t
"""


def _colsel_sites(fn: ast.AST, formal: str):
    """[(node, what)] - columns of a frame derived from `formal` chosen by pattern, dtype or position, or aggregated across all columns"""
    frames = {formal}
    changed = True
    while changed:
        changed = False
        for a in walk_no_nested(fn):
            if isinstance(a, ast.Assign) and len(a.targets) == 1 and isinstance(a.targets[0], ast.Name) and a.targets[0].id not in frames:
                v = a.value
                # a selection by a literal list of names is no longer "the user's frame with whatever columns it has"
                if isinstance(v, ast.Subscript) and isinstance(v.slice, ast.List):
                    continue
                core = v
                while isinstance(core, (ast.Call, ast.Attribute, ast.Subscript)):
                    core = core.func if isinstance(core, ast.Call) else core.value
                if isinstance(core, ast.Name) and core.id in frames:
                    frames.add(a.targets[0].id)
                    changed = True

    def is_frame(e):
        return isinstance(e, ast.Name) and e.id in frames

    out = []
    for c in walk_no_nested(fn):
        if isinstance(c, ast.Call) and isinstance(c.func, ast.Attribute) and is_frame(c.func.value):
            m = c.func.attr
            kw = {k.arg: k.value for k in c.keywords}
            if m == "filter" and ("like" in kw or "regex" in kw):
                out.append((c, "columns selected by a name pattern"))
            elif m == "select_dtypes":
                out.append((c, "columns selected by dtype"))
            elif m in ("mean", "sum", "max", "min", "median", "prod", "std", "var", "any", "all", "idxmax", "idxmin") and (
                    (isinstance(kw.get("axis"), ast.Constant) and kw["axis"].value in (1, "columns"))
                    or (c.args and isinstance(c.args[0], ast.Constant) and c.args[0].value in (1, "columns"))):
                out.append((c, "aggregate across all columns of the table"))
        if isinstance(c, ast.Subscript) and isinstance(c.value, ast.Attribute) and c.value.attr == "iloc" and is_frame(c.value.value) \
                and isinstance(c.slice, ast.Tuple) and len(c.slice.elts) == 2:
            col = c.slice.elts[1]
            if not (isinstance(col, ast.Slice) and col.lower is None and col.upper is None and col.step is None):
                out.append((c, "columns selected by position"))
        if isinstance(c, ast.Subscript) and isinstance(c.value, ast.Attribute) and c.value.attr == "columns" and is_frame(c.value.value):
            out.append((c, "column name taken by position from the table's column index"))
    return out


def pattern_column_selection(chk, prog, rule: str) -> int:
    """each weather variable is taken from the column of that name: in the functions that receive the weather frame no column is chosen by a
    name pattern (`filter(like=…/regex=…)`), by dtype, by position (`iloc[:, k]`, `columns[k]`), and nothing is aggregated across all columns
    (`mean(axis=1)`) - an unrelated extra column would join in. Selections by a literal list of names are fine. Expected count zero; the
    matcher is run on an embedded positive example first."""
    ex = _colsel_sites(ast.parse(_COLSEL_EXAMPLE).body[0], "weather_df")
    got = sorted(w for _, w in ex)
    want = sorted(["columns selected by a name pattern", "columns selected by dtype", "columns selected by position",
                   "column name taken by position from the table's column index", "aggregate across all columns of the table"])
    if got != want:
        raise AnalysisError(f"{rule}: the matcher no longer recognises its positive example ({got})")
    n = 0
    formals = sorted(weather_frame_formals(prog))
    for key, formal in formals:
        fi = prog.funcs[key]
        chk.fn(key)
        for node, what in _colsel_sites(fi.node, formal):
            n += 1
            chk.violation(rule, f"{fi.module}:{fi.qualname}", norm(node)[:90], f"{what}: a weather variable is no longer taken from the column of its name - an "
                          "unrelated extra column of the user's table (or another column order) changes the result", loc=fi.loc(node))
    chk.ok(rule, "aquacrop", f"column selections in {len(formals)} functions that receive the weather frame", f"{n} by pattern / dtype / position; matcher exercised on the embedded example (5 sites)")
    return len(formals)


_REORDER_EXAMPLE = """
def f(weather_df):
    a = weather_df.sort_index()
    b = weather_df.sort_values("MinTemp")
    c = weather_df.sample(frac=1)
    ok1 = weather_df.sort_values("Date")
    ok2 = weather_df.iloc[weather_df.Date.argsort(kind="stable").values]
    return a
"""


def _reorder_sites(fn: ast.AST, formal: str):
    """[(node, what)] - the rows of a frame derived from `formal` put into an order that depends on something other than their dates"""
    frames = {formal}
    changed = True
    while changed:
        changed = False
        for a in walk_no_nested(fn):
            if isinstance(a, ast.Assign) and len(a.targets) == 1 and isinstance(a.targets[0], ast.Name) and a.targets[0].id not in frames:
                core = a.value
                while isinstance(core, (ast.Call, ast.Attribute, ast.Subscript)):
                    core = core.func if isinstance(core, ast.Call) else core.value
                if isinstance(core, ast.Name) and core.id in frames:
                    frames.add(a.targets[0].id)
                    changed = True
    out = []
    for c in walk_no_nested(fn):
        if not (isinstance(c, ast.Call) and isinstance(c.func, ast.Attribute) and isinstance(c.func.value, ast.Name) and c.func.value.id in frames):
            continue
        m = c.func.attr
        if m == "sort_index":
            out.append((c, "rows ordered by the labels of the user's index"))
        elif m == "sample":
            out.append((c, "rows shuffled"))
        elif m == "sort_values":
            by = c.args[0] if c.args else next((k.value for k in c.keywords if k.arg == "by"), None)
            if not (isinstance(by, ast.Constant) and by.value == "Date") and not (isinstance(by, ast.List) and [getattr(e, "value", None) for e in by.elts] == ["Date"]):
                out.append((c, "rows ordered by a column other than Date"))
    return out


def row_reordering(chk, prog, rule: str) -> int:
    """the model addresses the weather records by day number after checking them against the simulation days: no function that receives the
    weather frame - the model's setter included, through which the checked table is stored back - puts the rows into an order that depends on
    anything but their dates (`sort_index()` follows the user's index labels; `sort_values(<other column>)`; `sample`). Re-indexing the table
    must not change which record a day reads. Expected count zero; the matcher is run on an embedded positive example first."""
    ex = _reorder_sites(ast.parse(_REORDER_EXAMPLE).body[0], "weather_df")
    if sorted(w for _, w in ex) != sorted(["rows ordered by the labels of the user's index", "rows ordered by a column other than Date", "rows shuffled"]):
        raise AnalysisError(f"{rule}: the matcher no longer recognises its positive example ({[w for _, w in ex]})")
    n = 0
    formals = sorted(weather_frame_formals(prog))
    for key, formal in formals:
        fi = prog.funcs[key]
        chk.fn(key)
        for node, what in _reorder_sites(fi.node, formal):
            n += 1
            chk.violation(rule, f"{fi.module}:{fi.qualname}", norm(node)[:90], f"{what}: the records are read by day number, so after this the model reads other days' weather "
                          "whenever the order differs from the chronological one (an index counting down, repeated yearly labels, shuffled labels)", loc=fi.loc(node))
    chk.ok(rule, "aquacrop", f"row-order operations in {len(formals)} functions that receive the weather frame", f"{n} that depend on index labels / other columns; matcher exercised on the embedded example (3 sites)")
    return len(formals)
