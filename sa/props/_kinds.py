"""Index kinds (T-KIND): the profile's per-compartment arrays (water contents, hydraulic properties, thickness, layer number) are
subscripted with compartment indices only, never with a *layer number*.

Layer-number values: an element read of an attribute named `Layer` (`x = <obj>.Layer[i]`), the loop variable of a `for` over
`<obj>.Layer` (possibly through numpy.unique / numpy.sort), copies of such names and such names +/- a constant.
Sites: every Subscript in the functions reachable from the daily step whose index expression mentions a layer-number name.
A site is exempt only when its statement cannot execute: it lies in a `while` whose test has a conjunct that contradicts an `assert`
dominating the loop on the same names with no redefinition in between (capillary_rise's disabled look-below loop)."""
from __future__ import annotations
import ast
from typing import Dict, List, Set

from ..model import norm, walk_no_nested
from ..rdef import flow_of

LAYER_ATTR = "Layer"


def _reads_layer_elem(e) -> bool:
    return isinstance(e, ast.Subscript) and isinstance(e.value, ast.Attribute) and e.value.attr == LAYER_ATTR


def _iter_layer(e) -> bool:
    """iteration source: obj.Layer, np.unique(obj.Layer), np.sort(np.unique(obj.Layer)), ..."""
    while isinstance(e, ast.Call) and isinstance(e.func, ast.Attribute) and e.func.attr in ("unique", "sort") and e.args:
        e = e.args[0]
    return isinstance(e, ast.Attribute) and e.attr == LAYER_ATTR


def layer_names(fn: ast.AST) -> Set[str]:
    names: Set[str] = set()
    changed = True
    while changed:
        changed = False
        for n in walk_no_nested(fn):
            new = None
            if isinstance(n, ast.Assign) and len(n.targets) == 1 and isinstance(n.targets[0], ast.Name):
                v = n.value
                if _reads_layer_elem(v):
                    new = n.targets[0].id
                elif isinstance(v, ast.Name) and v.id in names:
                    new = n.targets[0].id
                elif isinstance(v, ast.BinOp) and isinstance(v.op, (ast.Add, ast.Sub)) and isinstance(v.left, ast.Name) and v.left.id in names \
                        and isinstance(v.right, ast.Constant):
                    new = n.targets[0].id
            elif isinstance(n, ast.For) and isinstance(n.target, ast.Name) and _iter_layer(n.iter):
                new = n.target.id
            if new and new not in names:
                names.add(new)
                changed = True
    return names


def _contradicts(test: ast.AST, asserted: ast.AST) -> bool:
    """a < b (or a > b, a != b) against an asserted a == b on the same operands"""
    if not (isinstance(asserted, ast.Compare) and len(asserted.ops) == 1 and isinstance(asserted.ops[0], ast.Eq)):
        return False
    a = {norm(asserted.left), norm(asserted.comparators[0])}
    conj = test.values if isinstance(test, ast.BoolOp) and isinstance(test.op, ast.And) else [test]
    for c in conj:
        if isinstance(c, ast.Compare) and len(c.ops) == 1 and isinstance(c.ops[0], (ast.Lt, ast.Gt, ast.NotEq)) \
                and {norm(c.left), norm(c.comparators[0])} == a:
            return True
    return False


def _dead_by_assert(fi, flow, stmt_path: List[ast.AST]) -> str:
    """stmt_path: enclosing statements of the site, outermost first"""
    for w in stmt_path:
        if not isinstance(w, ast.While):
            continue
        tests = [n for n in flow.cfg.live_nodes() if n.kind == "test" and n.stmt is w]
        if not tests:
            continue
        dom = set.intersection(*[set(flow.cfg.dominators().get(t.id, set())) for t in tests])
        body_nodes = {n.id for n in flow.cfg.live_nodes() if n.stmt is not None and any(n.stmt is s or n.ast is s for b in w.body for s in ast.walk(b))}
        for d in dom:
            dn = flow.cfg.nodes[d]
            if not (dn.kind == "test" and isinstance(dn.stmt, ast.Assert)):
                continue
            for t in tests:
                if _contradicts(t.ast, dn.ast):
                    names = {x.id for x in ast.walk(dn.ast) if isinstance(x, ast.Name)}
                    # no redefinition of the asserted names between the assert and the loop test (definitions inside the
                    # loop body are behind the test that can never pass)
                    if all(set(flow.defs_reaching(nm, d)) == set(flow.defs_reaching(nm, t.id)) - body_nodes for nm in names):
                        return f"unreachable: loop test `{norm(t.ast)}` contradicts the dominating `assert {norm(dn.ast)}`"
    return ""


def scan(chk, prog, rule: str, keys) -> int:
    sites = 0
    for key in sorted(keys):
        fi = prog.funcs.get(key)
        if fi is None:
            continue
        ln = layer_names(fi.node)
        if not ln:
            continue
        flow = flow_of(fi)
        where = f"{fi.module}:{fi.qualname}"
        chk.fn(key)
        # enclosing-statement paths
        parents: Dict[int, List[ast.AST]] = {}
        def walk(stmts, path):
            for s in stmts:
                parents[id(s)] = path
                for fld in ("body", "orelse", "finalbody"):
                    sub = getattr(s, fld, None)
                    if isinstance(sub, list) and not isinstance(s, (ast.FunctionDef, ast.AsyncFunctionDef, ast.ClassDef)):
                        walk(sub, path + [s])
                for h in getattr(s, "handlers", []) or []:
                    walk(h.body, path + [s])
        walk(fi.node.body, [])
        for st in walk_no_nested(fi.node):
            if not isinstance(st, ast.stmt) or id(st) not in parents:
                continue
            own = [st.test] if isinstance(st, (ast.If, ast.While)) else [st.iter] if isinstance(st, ast.For) else \
                [c for c in ast.iter_child_nodes(st) if not isinstance(c, ast.stmt)] if not hasattr(st, "body") else []
            for root in own:
                for x in ast.walk(root):
                    if isinstance(x, ast.Subscript) and any(isinstance(i, ast.Name) and i.id in ln for i in ast.walk(x.slice)) \
                            and not isinstance(x.slice, ast.Compare):
                        sites += 1
                        construct = norm(x)
                        dead = _dead_by_assert(fi, flow, parents[id(st)] + [st])
                        if dead:
                            chk.ok(rule, where, construct, dead)
                        else:
                            chk.violation(rule, where, construct,
                                          f"a per-compartment array is subscripted with the layer number "
                                          f"{sorted({i.id for i in ast.walk(x.slice) if isinstance(i, ast.Name) and i.id in ln})}: "
                                          "compartment j of layer l is not compartment l", loc=fi.loc(x))
        # every use of a layer number is otherwise a comparison / assignment: record them as analysed instances
        for nm in sorted(ln):
            chk.ok(rule, where, f"layer-number local {nm}", "never used as an index of a per-compartment array" )
    return sites
