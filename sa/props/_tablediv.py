"""Shared rule: divisions / logarithms whose argument is a pure function of crop parameters are
evaluated over the 37 effective catalogue crops (C05.b, C16.c)."""
from __future__ import annotations
import ast
from typing import Dict, List, Tuple

from ..common import step_roles, init_roles
from ..model import norm, norm_anon, walk_no_nested
from ..pure import PureEval, NotPure, is_crop_obj
from ..effects import stores
from ..rdef import flow_of
from ..tables import effective_crops


def _guards_hold(pe: PureEval, flow, nid: int) -> bool:
    """False if some crop-pure guard on the way to the node rules the node out for this crop."""
    cfg = flow.cfg
    for (tid, label) in cfg.transitive_control_deps(nid):
        tn = cfg.nodes[tid]
        if tn.kind != "test" or label not in (True, False):
            continue
        try:
            v = bool(pe.ev(tn.ast))
        except (NotPure, ZeroDivisionError, ValueError, OverflowError, TypeError):
            continue
        # the node is control dependent on (tid,label): it needs that outcome on *some* path; a node may
        # depend on both outcomes of a test through different paths, so only rule out when it depends on one
        both = {(tid, True), (tid, False)} <= cfg.transitive_control_deps(nid)
        if not both and v != label:
            return False
    return True


def table_divisors(chk, prog, rule: str):
    roles_list = [step_roles(prog), init_roles(prog)]
    eff = effective_crops(prog)
    reached = set()
    for r in roles_list:
        reached |= r.reached
    for k, fi in prog.funcs.items():
        if fi.cls == "Crop":
            reached.add(k)
    # attributes (re)computed at run time outside the constant-folded constructors are not table constants
    folded = {"__init__", "calculate_additional_params", "compute_crop_calendar"}
    derived_sites = []
    for r in roles_list:
        for key in r.reached:
            fi = prog.funcs.get(key)
            if fi is None or fi.name in folded:
                continue
            for st in stores(prog, fi, r):
                if st.kind == "attr" and is_crop_obj(r.paths(fi, st.target)):
                    derived_sites.append((st.field, fi, st.node))
                elif st.kind == "mutcall" and st.field == "*" and is_crop_obj(r.paths(fi, st.target)):
                    derived_sites.append(("*dynamic*", fi, st.node))
    eff2 = {}
    for cname, d in eff.items():
        drop = set()
        for attr, fi, node in derived_sites:
            flow = flow_of(fi)
            nid = flow.stmt_node.get(id(node)) or flow.node_of(node)
            if nid is None:
                continue
            if _guards_hold(PureEval(prog, roles_list, fi, d), flow, nid):
                drop.add(attr)
        eff2[cname] = {k: v for k, v in d.items() if k not in drop}
    eff = eff2
    chk.notes["crop_attributes_derived_at_run_time"] = sorted({a for a, _, _ in derived_sites})
    sites = 0
    pure_sites = 0
    seen_pure = set()
    for key in sorted(reached):
        fi = prog.funcs.get(key)
        if fi is None:
            continue
        flow = flow_of(fi)
        cands: List[Tuple[ast.AST, ast.AST, str]] = []
        for n in walk_no_nested(fi.node):
            if isinstance(n, ast.BinOp) and isinstance(n.op, (ast.Div, ast.FloorDiv, ast.Mod)):
                cands.append((n, n.right, "zero divisor"))
            elif isinstance(n, ast.Call) and isinstance(n.func, ast.Attribute) and n.func.attr in ("log", "log10") \
                    and len(n.args) == 1 and (prog.external_name(fi, n.func) or "").startswith("numpy."):
                cands.append((n, n.args[0], "logarithm of a non-positive value"))
        if not cands:
            continue
        chk.fn(key)
        where = f"{fi.module}:{fi.qualname}"
        for node, arg, what in cands:
            nid = flow.node_of(node)
            if nid is None:
                continue       # unreachable code
            sites += 1
            for cname, crop in eff.items():
                pe = PureEval(prog, roles_list, fi, crop)
                try:
                    v = pe.ev(arg)
                except ZeroDivisionError:
                    continue    # an inner division is reported at its own site
                except (NotPure, ValueError, OverflowError, TypeError, KeyError, IndexError):
                    break       # not a pure function of crop parameters: out of scope of the table rule
                if (key, id(node)) not in seen_pure:
                    seen_pure.add((key, id(node)))
                    pure_sites += 1
                bad = (v == 0) if what == "zero divisor" else (isinstance(v, (int, float)) and v <= 0)
                construct = f"{norm_anon(node)} @crop={cname}"
                if bad and _guards_hold(pe, flow, nid):
                    chk.violation(rule, where, construct,
                                  f"{what}: {norm(arg)} evaluates to {v!r} for built-in crop {cname}",
                                  loc=fi.loc(node))
                else:
                    chk.ok(rule, where, construct, f"{norm(arg)} = {v!r}" + ("" if not bad else " (guarded)"))
    chk.floor(rule + "-sites", sites, 150, "division / logarithm sites scanned")
    chk.floor(rule + "-pure", pure_sites, 25, "sites whose argument is a pure function of crop parameters")
    chk.notes[rule + "_sites_scanned"] = sites
    chk.notes[rule + "_crop_pure_sites"] = pure_sites
    chk.notes["crops"] = len(eff)
