"""C19 - shallow groundwater (two structural clauses)."""
from __future__ import annotations
import ast
from ..cp import batch, is_zero, row_writers
from ..common import STEP_FN, step_roles
from ..effects import stores
from ..rdef import flow_of
from ..model import norm

EXPLANATION = (
    "C19.a: interprocedural constant propagation of the daily step with water_table=0: check_groundwater_table returns "
    "(th_fc_Adj, None, None), capillary_rise returns 0, wt_in_soil is None so groundwater_inflow returns 0; the constants "
    "reach the CR and GwIn columns, in and out of season. C19.b: groundwater_inflow is the last writer of the water "
    "content in the step: no statement after its call stores STATE.th (rebinding or in place), so compartments it "
    "saturates stay saturated at the end of the day (effect summaries over access paths + CFG order). NOT decided: range "
    "of adjusted field capacity, capillary-rise limit, interpolation of observations, equivalence of a very deep table "
    "with none (numeric).")


def run(chk, prog, tier):
    res = batch(prog, [{"param_struct.water_table": 0}])[0]
    chk.fn(STEP_FN)
    fi = prog.func(STEP_FN)
    loc = fi.loc(row_writers(prog)["water_flux"])
    for gs in (True, False):
        rows = res.rows["water_flux"][gs]
        chk.floor(f"C19.a-gs{gs}", len(rows), 1, f"partitions with growing_season={gs}")
        for col in ("CR", "GwIn"):
            for r in rows:
                v = r[col]
                construct = f"water_flux.{col} | water_table=0, growing_season={gs}"
                if is_zero(v):
                    chk.ok("C19.a", STEP_FN, construct, f"constant {v}")
                else:
                    chk.violation("C19.a", STEP_FN, construct,
                                  f"without a water table the value reaching column {col} is {v}, not the constant 0", loc=loc)
    chk.valuation("water_table=0")
    for c in res.calls:
        chk.callsite(c)

    # ---------------------------------------------------------------- C19.b
    roles = step_roles(prog)
    flow = flow_of(fi)
    cfg = flow.cfg
    gw_calls = [n for n in ast.walk(fi.node) if isinstance(n, ast.Call)
                and getattr(prog.resolve_call(fi, n), "name", None) == "groundwater_inflow"]
    if len(gw_calls) != 1:
        chk.error(f"C19.b: expected exactly one call of groundwater_inflow in the step, found {len(gw_calls)}")
        return
    gw_node = flow.node_of(gw_calls[0])
    # every node reachable from the call node
    after, stack = set(), [t for t, _ in cfg.nodes[gw_node].succs]
    while stack:
        k = stack.pop()
        if k in after:
            continue
        after.add(k)
        stack.extend(t for t, _ in cfg.nodes[k].succs)
    # writers of STATE.th: functions (transitively) storing to it
    def writes_th(key, seen=None):
        seen = seen or set()
        if key in seen:
            return []
        seen.add(key)
        f = prog.funcs[key]
        out = []
        for st in stores(prog, f, roles):
            if any(p == "STATE.th" or p.startswith("STATE.th[") for p in st.paths):
                out.append((f, st))
        for call, tgt in prog.calls_in(f):
            if hasattr(tgt, "key") and tgt.key in roles.reached:
                out += writes_th(tgt.key, seen)
        return out
    n_checked = 0
    for nid in sorted(after):
        n = cfg.nodes[nid]
        if n.ast is None:
            continue
        # direct stores in the step itself
        for st in stores(prog, fi, roles):
            if flow.stmt_node.get(id(st.node)) == nid or flow.node_of(st.node) == nid:
                n_checked += 1
                if any(p == "STATE.th" or p.startswith("STATE.th[") for p in st.paths):
                    chk.violation("C19.b", STEP_FN, st.text,
                                  "the water content is written after groundwater_inflow saturated the compartments below the table",
                                  loc=fi.loc(st.node))
        from ..cfg import node_reads
        for root in node_reads(n):
            for sub in ast.walk(root):
                if isinstance(sub, ast.Call):
                    tgt = prog.resolve_call(fi, sub)
                    if hasattr(tgt, "key") and hasattr(tgt, "qualname") and tgt.key in roles.reached:
                        n_checked += 1
                        w = writes_th(tgt.key)
                        construct = f"call {tgt.qualname} after groundwater_inflow"
                        if w:
                            f2, st = w[0]
                            chk.violation("C19.b", STEP_FN, construct,
                                          f"{f2.qualname} writes the water content ({st.text}) after groundwater_inflow",
                                          loc=fi.loc(sub))
                        else:
                            chk.ok("C19.b", STEP_FN, construct, "no store to STATE.th in the callee or its callees")
    chk.floor("C19.b", n_checked, 8, "statements / calls after groundwater_inflow examined")
    chk.assume("A-1")
    chk.assume("A-10")
    chk.exhaustive = True
