"""C19 - shallow groundwater (two structural clauses)."""
from __future__ import annotations
import ast
import re
from ..cp import batch, is_zero, row_writers
from ..common import STEP_FN, step_roles
from ..effects import stores
from ..rdef import flow_of, ENTRY
from ..model import norm, walk_no_nested, AnalysisError

EXPLANATION = (
    "C19.a: interprocedural constant propagation of the daily step with water_table=0: check_groundwater_table returns "
    "(th_fc_Adj, None, None), capillary_rise returns 0, wt_in_soil is None so groundwater_inflow returns 0; the constants "
    "reach the CR and GwIn columns, in and out of season. C19.b: groundwater_inflow is the last writer of the water "
    "content in the step: no statement after its call stores STATE.th (rebinding or in place), so compartments it "
    "saturates stay saturated at the end of the day (effect summaries over access paths + CFG order). C19.c: its loop runs from "
    "the first compartment whose centre is at or below the table to the bottom of the profile and sets each cell to the "
    "saturation value of that same compartment (index agreement through temporaries). C19.d: every read of the adjusted field capacity (and of any other daily-updated state field of which "
    "initialisation leaves a snapshot in the static profile) below the step goes through the state, never through the snapshot. C19.e: the daily water-table series is interpolated on the observations' own dates "
    "(time-weighted, never by position), no label store can append an entry for a date outside the period, and what is handed to the model is "
    "restricted to the simulation days; the date masks of the held-constant method include the observation's own date (the rule carries its own positive example, the pre-fix code, and fails closed if it stops matching it). C19.f (sibling agreement): the adjusted field capacity is computed by two implementations (initialisation, daily); after renaming they have the same tests and the same defining expressions; the 'table inside the profile' flag is computed by the same test (depth >= 0) wherever it is computed. C19.e also requires that a loop which applies the observations one after the other is preceded, on every path, by a sort on the date, and that a forward fill of the observations over the simulation days is completed backwards (days before the first observation take its depth). NOT decided: range "
    "of adjusted field capacity, capillary-rise limit, interpolation of observations, equivalence of a very deep table "
    "with none (numeric).")


def rule_c(chk, prog):
    """groundwater_inflow saturates every compartment from the first one whose centre is below the table down to the
    bottom, each with the saturation value of that same compartment"""
    from .c03 import _resolve_bound
    gw = prog.find_func("groundwater_inflow")
    chk.fn(gw.key)
    flow = flow_of(gw)
    where = f"{gw.module}:{gw.qualname}"
    roles = step_roles(prog)
    loops = [n for n in walk_no_nested(gw.node) if isinstance(n, ast.For)]
    if len(loops) != 1:
        chk.violation("C19.c", where, "for ii in range(idx, len(prof.Comp))", f"expected one loop over the compartments below the table, found {len(loops)}", loc=gw.loc())
        return
    lp = loops[0]
    it = lp.iter
    ok_range = isinstance(it, ast.Call) and isinstance(it.func, ast.Name) and it.func.id == "range" and len(it.args) == 2
    start_ok = end_ok = False
    if ok_range:
        st_e, en_e = it.args
        # start: first index with zMid >= z_gw
        src = st_e
        if isinstance(st_e, ast.Name):
            nid = flow.node_of(st_e)
            ds = flow.defs_reaching(st_e.id, nid)
            if len(ds) == 1 and ds[0] != ENTRY and isinstance(flow.cfg.nodes[ds[0]].ast, ast.Assign):
                src = flow.cfg.nodes[ds[0]].ast.value
        t = norm(src)
        start_ok = "argwhere" in t and ">=" in t and t.endswith(".flatten()[0]") and "zMid" in t.replace("prof.", "")
        if not start_ok and "argwhere" in t:
            # zMid through a local
            start_ok = bool(re.search(r"argwhere\(\w+ >= \w+\)\.flatten\(\)\[0\]", t))
        end_ok = bool(re.fullmatch(r"len\(\w+\.Comp\)", norm(en_e)))
    construct = f"for {norm(lp.target)} in {norm(it)}"
    if ok_range and start_ok and end_ok:
        chk.ok("C19.c", where, construct, "from the first compartment whose centre is at or below the table to the bottom of the profile")
    else:
        chk.violation("C19.c", where, construct, "the loop does not cover every compartment whose centre lies below the water table", loc=gw.loc(lp))
    # stores in the loop: cell[i] = th_s[i]
    n = 0
    for a in ast.walk(lp):
        if isinstance(a, ast.Assign) and isinstance(a.targets[0], ast.Subscript) and any(p_.startswith("STATE.th") for p_ in roles.paths(gw, a.targets[0].value)):
            n += 1
            cell_idx = norm(a.targets[0].slice)
            nid = flow.stmt_node.get(id(a))
            rb = _resolve_bound(gw, flow, a.value, nid)
            construct = norm(a)
            if rb and rb[0] == "th_s" and rb[1] == cell_idx:
                chk.ok("C19.c", where, construct, "set to the saturation of the same compartment")
            else:
                chk.violation("C19.c", where, construct,
                              f"a compartment below the water table is set to {('%s[%s]' % rb) if rb else norm(a.value)}, not to its own saturation "
                              f"th_s[{cell_idx}]: it does not end the day saturated (or ends above saturation)", loc=gw.loc(a))
    chk.floor("C19.c", n, 1, "stores to the water content in groundwater_inflow")


def rule_d(chk, prog):
    """the adjusted field capacity follows the water table day by day: check_groundwater_table recomputes the state's th_fc_Adj at the
    start of every step. Initialisation also leaves a snapshot of it in the static soil profile (frame column / SoilProfile array).
    Every read of a daily-updated state field below the step goes through the state, never through such a snapshot."""
    from ..common import init_roles
    sr, ir = step_roles(prog), init_roles(prog)
    daily = set()
    for key in sorted(sr.reached):
        fi = prog.funcs[key]
        for st in stores(prog, fi, sr):
            for p in st.paths:
                m = re.match(r"^STATE\.(\w+)", p)
                if m:
                    daily.add(m.group(1))
    # snapshots: initialisation stores <non-state object>.f / [..."f"...] = <something read from the state's f>
    snap = {}
    for key in sorted(ir.reached):
        fi = prog.funcs[key]
        for a in walk_no_nested(fi.node):
            if not isinstance(a, ast.Assign):
                continue
            t = a.targets[0]
            f = t.attr if isinstance(t, ast.Attribute) else (t.slice.value if isinstance(t, ast.Subscript) and isinstance(t.slice, ast.Constant)
                                                              and isinstance(t.slice.value, str) else None)
            if f is None or f not in daily:
                continue
            base = t.value
            if any(p.startswith("STATE") for p in ir.paths(fi, base)):
                continue
            if any(isinstance(x, ast.Attribute) and x.attr == f and any(p.startswith("STATE") for p in ir.paths(fi, x.value)) for x in ast.walk(a.value)):
                snap.setdefault(f, []).append(f"{fi.qualname}: {norm(a)[:70]}")
    chk.notes["state_fields_snapshotted_at_initialisation"] = snap
    if "th_fc_Adj" not in daily:
        raise AnalysisError("the step no longer updates STATE.th_fc_Adj")
    fields = sorted(set(snap) | {"th_fc_Adj"})
    n = 0
    for key in sorted(sr.reached):
        fi = prog.funcs[key]
        where = f"{fi.module}:{fi.qualname}"
        for x in walk_no_nested(fi.node):
            if isinstance(x, ast.Attribute) and isinstance(x.ctx, ast.Load) and x.attr in fields:
                ps = sr.paths(fi, x.value)
                n += 1
                chk.fn(key)
                stale = sorted(p for p in ps if p.startswith("PARAM") or p.startswith("USER"))
                if stale:
                    chk.violation("C19.d", where, norm(x), f"reads {x.attr} from {', '.join(stale)} - the snapshot taken at initialisation - instead of the "
                                  "state's value of the day: with a water table that moves, compartments are compared with / filled up to the adjusted "
                                  "field capacity of the first day", loc=fi.loc(x))
                else:
                    chk.ok("C19.d", where, norm(x), "the state's value of the day (" + (", ".join(sorted(ps)) or "local") + ")", nontrivial=False)
    chk.floor("C19.d", n, 5, "reads of the adjusted field capacity below the step")


# --------------------------------------------------------------------------------------------- C19.e

_POSITIVE_EXAMPLE = """
def f(df, ClockStruct):
    z_gw = pd.Series(np.nan * np.ones(len(ClockStruct.time_span)), index=ClockStruct.time_span)
    for row in range(len(df)):
        date = df.Date.iloc[row]
        z_gw.loc[date] = df["Depth(mm)"].iloc[row]
    z_gw = z_gw.interpolate()
    return z_gw
"""


def _label_enlargements(fn: ast.AST):
    """stores `X.loc[k] = v` with a scalar label k (a store that silently appends a new entry when k is not in the index)"""
    out = []
    for a in walk_no_nested(fn):
        if isinstance(a, ast.Assign):
            for t in a.targets:
                if isinstance(t, ast.Subscript) and isinstance(t.value, ast.Attribute) and t.value.attr == "loc" \
                        and isinstance(t.slice, (ast.Name, ast.Attribute, ast.Call, ast.Constant)):
                    out.append(a)
    return out


def _positional_interpolations(fn: ast.AST):
    out = []
    for c in walk_no_nested(fn):
        if isinstance(c, ast.Call) and isinstance(c.func, ast.Attribute) and c.func.attr == "interpolate":
            m = next((k.value for k in c.keywords if k.arg == "method"), c.args[0] if c.args else None)
            if not (isinstance(m, ast.Constant) and m.value in ("time", "index", "values")):
                out.append(c)
    return out


def interpolation_by_time(chk, prog, rule: str):
    """(shared with C14.i) every interpolation of the water-table series is time-weighted: interpolation by position runs over the union of the
    observations and the simulation days, so the depth between two observations depends on how many simulation days lie between them - i.e.
    on the start and end date of the window - and on observations outside it."""
    ex = ast.parse(_POSITIVE_EXAMPLE).body[0]
    if len(_positional_interpolations(ex)) != 1:
        raise AnalysisError(f"{rule}: the rule no longer recognises its positive example")
    fi = prog.find_func("read_groundwater_table")
    chk.fn(fi.key)
    where = f"{fi.module}:{fi.qualname}"
    interps = [c for c in walk_no_nested(fi.node) if isinstance(c, ast.Call) and isinstance(c.func, ast.Attribute) and c.func.attr == "interpolate"]
    bad = _positional_interpolations(fi.node)
    for c in interps:
        if c in bad:
            chk.violation(rule, where, norm(c)[:80], "interpolation by position over the observations and the simulation days: the depth on a day inside a completed "
                          "season depends on where the window starts and ends (and on observations outside it)", loc=fi.loc(c))
        else:
            chk.ok(rule, where, norm(c)[:80], "time-weighted interpolation on the observations' own dates: independent of the window")
    chk.floor(rule, len(interps), 1, "interpolations of the water-table series")


def rule_e(chk, prog):
    """the daily water-table series follows the observations: it is interpolated on the observations' own dates (time-weighted, not by
    position) and has exactly one entry per simulation day (no label store that can append an entry for a date outside the period)"""
    ex = ast.parse(_POSITIVE_EXAMPLE).body[0]
    if len(_label_enlargements(ex)) != 1 or len(_positional_interpolations(ex)) != 1:
        raise AnalysisError("C19.e: the rule no longer recognises its positive example")
    fi = prog.find_func("read_groundwater_table")
    chk.fn(fi.key)
    where = f"{fi.module}:{fi.qualname}"
    flow = flow_of(fi)
    n = 0
    for a in _label_enlargements(fi.node):
        n += 1
        t = a.targets[0]
        nid = flow.stmt_node.get(id(a))
        guarded = nid is not None and any(
            flow.cfg.nodes[x].kind == "test" and isinstance(flow.cfg.nodes[x].ast, ast.Compare) and isinstance(flow.cfg.nodes[x].ast.ops[0], ast.In)
            and l is True and norm(flow.cfg.nodes[x].ast.left) == norm(t.slice) for x, l in flow.cfg.transitive_control_deps(nid))
        if guarded:
            chk.ok("C19.e", where, norm(a)[:80], "label store under a membership test of the label")
        else:
            chk.violation("C19.e", where, norm(a)[:80], "a label store with a date taken from the observations appends an entry when the date lies outside the "
                          "simulation period: the series no longer has one entry per simulation day and the depths inside the period depend on the end date",
                          loc=fi.loc(a))
    for c in _positional_interpolations(fi.node):
        n += 1
        chk.violation("C19.e", where, norm(c)[:80], "interpolation by position: observations that are not one simulation day apart (or lie outside the period) "
                      "are treated as equally spaced; the depth does not follow the configured observations linearly in time", loc=fi.loc(c))
    interps = [c for c in walk_no_nested(fi.node) if isinstance(c, ast.Call) and isinstance(c.func, ast.Attribute) and c.func.attr == "interpolate"]
    for c in interps:
        if c not in _positional_interpolations(fi.node):
            n += 1
            chk.ok("C19.e", where, norm(c)[:80], "time-weighted interpolation on the observations' own dates")
    # what is handed to the model: every definition reaching `<params>.z_gw = X.values` ends in a restriction to the simulation days
    handed = [a for a in walk_no_nested(fi.node) if isinstance(a, ast.Assign) and isinstance(a.targets[0], ast.Attribute) and a.targets[0].attr == "z_gw"
              and isinstance(a.value, ast.Attribute) and a.value.attr == "values" and isinstance(a.value.value, ast.Name)]
    for a in handed:
        nm = a.value.value.id
        nid = flow.stmt_node[id(a)]
        for d in flow.defs_reaching(nm, nid):
            if d == ENTRY:
                continue
            da = flow.cfg.nodes[d].ast
            n += 1
            txt = norm(da)[:90]
            v = da.value if isinstance(da, ast.Assign) else None
            span = v is not None and any(isinstance(x, ast.Attribute) and x.attr == "time_span" for x in ast.walk(v))
            if span:
                chk.ok("C19.e", where, txt, "built on / restricted to the simulation days (time_span)")
            else:
                chk.violation("C19.e", where, txt, "the series handed to the model is not restricted to the simulation days", loc=fi.loc(da))
    # held-constant observations: the depth of an observation applies from its own date on (and the first one also before it)
    nmask = 0
    for a in walk_no_nested(fi.node):
        if isinstance(a, ast.Assign) and isinstance(a.targets[0], ast.Subscript) and isinstance(a.targets[0].value, ast.Attribute) \
                and a.targets[0].value.attr == "loc" and isinstance(a.targets[0].slice, ast.Compare):
            c = a.targets[0].slice
            if any(isinstance(x, ast.Attribute) and x.attr == "index" for x in ast.walk(c)) and len(c.ops) == 1:
                nmask += 1
                n += 1
                if isinstance(c.ops[0], (ast.GtE, ast.LtE, ast.Eq)):
                    chk.ok("C19.e", where, norm(a)[:80], "the observation's own date is included")
                else:
                    chk.violation("C19.e", where, norm(a)[:80], "the mask excludes the observation's own date: on that day the previous observation's depth is still "
                                  "used, the daily depth does not follow the configured observations", loc=fi.loc(a))
    # the mask stores overwrite each other in loop order: the observations must be in chronological order first
    if nmask:
        loop_nodes = [flow.stmt_node.get(id(l)) for l in walk_no_nested(fi.node) if isinstance(l, ast.For)
                      and any(isinstance(a2, ast.Assign) and isinstance(a2.targets[0], ast.Subscript) and isinstance(a2.targets[0].slice, ast.Compare) for a2 in ast.walk(l))]
        sorts = {flow.stmt_node.get(id(st)) or flow.node_of(st) for st in walk_no_nested(fi.node) if isinstance(st, ast.Assign)
                 and any(isinstance(c, ast.Call) and isinstance(c.func, ast.Attribute) and c.func.attr in ("sort_values", "sort_index") for c in ast.walk(st.value))}
        sorts.discard(None)
        for ln in [x for x in loop_nodes if x is not None]:
            n += 1
            construct = "held-constant observations applied in a loop that overwrites later days"
            if sorts and not flow.cfg.paths_exist_avoiding(flow.cfg.entry, ln, sorts):
                chk.ok("C19.e", where, construct, "the observations are sorted by date before the loop (on every path)")
            else:
                chk.violation("C19.e", where, construct, "the loop applies the observations in the order given; dates listed out of order make an earlier observation "
                              "override a later one", loc=fi.loc(flow.cfg.nodes[ln].ast))
    # ... or, written with pandas: forward fill on the simulation days - then the days before the first observation need a backward fill
    nff = 0
    for c in walk_no_nested(fi.node):
        if isinstance(c, ast.Call) and isinstance(c.func, ast.Attribute) and c.func.attr in ("reindex", "ffill", "fillna", "asfreq") \
                and (c.func.attr == "ffill" or any(k.arg == "method" and isinstance(k.value, ast.Constant) and k.value.value in ("ffill", "pad") for k in c.keywords)):
            nff += 1
            n += 1
            # the same chain or a later statement back-fills
            later = [x for x in walk_no_nested(fi.node) if isinstance(x, ast.Call) and isinstance(x.func, ast.Attribute)
                     and (x.func.attr == "bfill" or (x.func.attr in ("fillna", "interpolate") and any(
                         (k.arg == "method" and isinstance(k.value, ast.Constant) and k.value.value in ("bfill", "backfill"))
                         or (k.arg == "limit_direction" and isinstance(k.value, ast.Constant) and k.value.value in ("both", "backward")) for k in x.keywords)))
                     and getattr(x, "lineno", 0) >= c.lineno and any(sub is c for sub in ast.walk(x)) or
                     (isinstance(x, ast.Call) and isinstance(x.func, ast.Attribute) and x.func.attr == "bfill" and getattr(x, "lineno", 0) > c.lineno)]
            if later:
                chk.ok("C19.e", where, norm(c)[:80], "forward fill followed by a backward fill: every simulation day has a depth")
            else:
                chk.violation("C19.e", where, norm(c)[:80], "held-constant observations are forward-filled only: the days before the first observation get no "
                              "depth (NaN) - the first step then fails (or runs on NaN)", loc=fi.loc(c))
    if nmask + nff == 0:
        chk.error("C19.e: the held-constant construction (date masks or a forward fill on the simulation days) was not found")
    chk.floor("C19.e", n, 3, "constructions of the daily water-table series")


def rule_i(chk, prog):
    """C19.i (the depth of the day is the series' entry for that day): every read of the daily water-table series (`<params>.z_gw[k]`) below the
    step and in the initial conditions takes k from the clock's time-step counter (access path CLOCK.time_step_counter) - like the weather
    row and the irrigation schedule - not from the state's copy of the counter, which is refreshed later in the step and still holds the
    previously simulated day."""
    from ..common import step_roles, init_roles
    n = 0
    for roles in (step_roles(prog), init_roles(prog)):
        for key in sorted(roles.reached):
            fi = prog.funcs[key]
            for x in walk_no_nested(fi.node):
                if not (isinstance(x, ast.Subscript) and isinstance(x.value, ast.Attribute) and x.value.attr == "z_gw" and isinstance(x.ctx, ast.Load)):
                    continue
                if not any(p.startswith("PARAM") for p in roles.paths(fi, x.value.value)):
                    continue
                n += 1
                chk.fn(key)
                where = f"{fi.module}:{fi.qualname}"
                construct = norm(x)
                k = x.slice
                ok = isinstance(k, ast.Attribute) and k.attr == "time_step_counter" and any(p == "CLOCK" or p.startswith("CLOCK") for p in roles.paths(fi, k.value)) \
                    and not any(p.startswith("STATE") for p in roles.paths(fi, k.value))
                if ok:
                    chk.ok("C19.i", where, construct, "indexed by the clock's time-step counter")
                else:
                    chk.violation("C19.i", where, construct, f"the daily water-table series is read at `{norm(k)}`, not at the clock's time-step counter: the table used on a day "
                                  "is another day's (the state's counter still holds the previously simulated day)", loc=fi.loc(x))
    chk.floor("C19.i", n, 2, "reads of the daily water-table series")


def rule_j(chk, prog):
    """C19.j (capillary rise stops 4 m below the compartments - sibling rule): capillary_rise compares the distance between the water table and a
    depth with its reach limit in three places (bottom compartment, the disabled look-below loop, the upward loop); every such comparison
    is `z_gw - <depth> < limit` - the table's depth minus the compartment's, so a table far below gives a large positive distance and no
    rise. With the operands swapped the distance is negative for every table below the profile and the cut-off never fires: a table tens
    of metres down still feeds the bottom compartment (a far table no longer equals no table)."""
    fi = prog.find_func("capillary_rise")
    chk.fn(fi.key)
    where = f"{fi.module}:{fi.qualname}"
    sites = []
    for c in ast.walk(fi.node):
        if isinstance(c, ast.Compare) and len(c.ops) == 1 and isinstance(c.left, ast.BinOp) and isinstance(c.left.op, ast.Sub) \
                and isinstance(c.comparators[0], ast.Constant) and isinstance(c.comparators[0].value, (int, float)) and c.comparators[0].value > 0 \
                and isinstance(c.ops[0], (ast.Lt, ast.LtE, ast.Gt, ast.GtE)):
            l, r = norm(c.left.left).lower(), norm(c.left.right).lower()
            if "gw" in l or "gw" in r:
                sites.append(c)
    limits = {c.comparators[0].value for c in sites}
    for c in sites:
        l, r = norm(c.left.left).lower(), norm(c.left.right).lower()
        construct = norm(c)
        if "gw" in l and "gw" not in r and isinstance(c.ops[0], (ast.Lt, ast.LtE)):
            chk.ok("C19.j", where, construct, "table depth minus compartment depth, below the reach limit")
        else:
            chk.violation("C19.j", where, construct, "the distance compared with the reach limit is not `z_gw - <depth>`: for a table below the profile it is negative and the limit "
                          "never applies - capillary rise from a water table far below the profile", loc=fi.loc(c))
    if len(limits) > 1:
        chk.violation("C19.j", where, "reach limits " + ", ".join(str(x) for x in sorted(limits)), "the sibling guards use different reach limits", loc=fi.loc())
    chk.floor("C19.j", len(sites), 3, "comparisons of the distance to the water table with the reach limit")


def rule_g(chk, prog):
    """C19.g (each compartment's adjusted field capacity is built from its own properties): every store into the adjusted-field-capacity array
    `A[k] = v` (both implementations) has a scalar index k, and every per-compartment hydraulic property read in v - `prof.th_fc[j]`, or a
    field of a row `profile.loc[j]` - is taken at j = k. A slice target (`A[:k + 1] = prof.th_fc[k]`) gives the compartments above a far-away
    table the field capacity of the compartment where the upward loop stopped."""
    from ..rdef import flow_of, ENTRY
    from ..model import walk_no_nested
    HYD = {"th_fc", "th_s", "th_wp", "th_dry"}
    n = 0
    for fn in ("check_groundwater_table", "read_model_initial_conditions"):
        fi = prog.find_func(fn)
        flow = flow_of(fi)
        cfg = flow.cfg
        where = f"{fi.module}:{fi.qualname}"
        chk.fn(fi.key)
        for a in walk_no_nested(fi.node):
            if not (isinstance(a, ast.Assign) and isinstance(a.targets[0], ast.Subscript) and isinstance(a.targets[0].value, ast.Name)):
                continue
            nm = a.targets[0].value.id.lower()
            if not ("fc" in nm and "adj" in nm):
                continue
            n += 1
            construct = norm(a)
            k = a.targets[0].slice
            if isinstance(k, ast.Slice):
                reads = [x for x in ast.walk(a.value) if isinstance(x, ast.Subscript) and isinstance(x.value, ast.Attribute) and x.value.attr in HYD]
                if reads and all(norm(x.slice) == norm(k) for x in reads):
                    chk.ok("C19.g", where, construct, f"vectorised over the same slice [{norm(k)}] on both sides")
                    continue
            if not isinstance(k, (ast.Name, ast.Constant)):
                chk.violation("C19.g", where, construct, f"the adjusted field capacity is stored through `{norm(k)}`, not into one compartment: several compartments receive "
                              "one compartment's value", loc=fi.loc(a))
                continue
            ktxt = norm(k)
            nid = flow.stmt_node.get(id(a))
            bad = []
            for x in ast.walk(a.value):
                # prof.th_fc[j]
                if isinstance(x, ast.Subscript) and isinstance(x.value, ast.Attribute) and x.value.attr in HYD:
                    if norm(x.slice) != ktxt:
                        bad.append(f"{norm(x)} read at [{norm(x.slice)}]")
                # row.th_fc with row = profile.loc[j]
                elif isinstance(x, ast.Attribute) and x.attr in HYD and isinstance(x.value, ast.Name) and isinstance(x.ctx, ast.Load):
                    for d in (flow.defs_reaching(x.value.id, nid) if nid is not None else []):
                        da = cfg.nodes[d].ast if d != ENTRY else None
                        v = da.value if isinstance(da, ast.Assign) else None
                        if isinstance(v, ast.Subscript) and isinstance(v.value, ast.Attribute) and v.value.attr in ("loc", "iloc"):
                            if norm(v.slice) != ktxt:
                                bad.append(f"{norm(x)} is the row {norm(v)}")
                        elif v is not None and not isinstance(v, ast.Subscript):
                            pass        # a scalar local (dV, dFC, Xmax): built from rows checked where they are defined
            if bad:
                chk.violation("C19.g", where, construct, f"compartment [{ktxt}] receives a value built from another compartment's properties: {'; '.join(bad)}", loc=fi.loc(a))
            else:
                chk.ok("C19.g", where, construct, f"own properties (index {ktxt})")
    chk.floor("C19.g", n, 8, "stores into the adjusted-field-capacity array (daily and initial implementation)")


def run(chk, prog, tier):
    res = batch(prog, [{"param_struct.water_table": 0}])[0]
    chk.fn(STEP_FN)
    fi = prog.func(STEP_FN)
    loc = fi.loc(row_writers(prog)["water_flux"])
    for gs in (True, False):
        rows = res.rows["water_flux"][gs]
        chk.floor(f"C19.a-gs{gs}", len(rows), 1, f"partitions with growing_season={gs}")
        for col in ("CR", "GwIn"):
            for r in rows:
                v = r[col]
                construct = f"water_flux.{col} | water_table=0, growing_season={gs}"
                if is_zero(v):
                    chk.ok("C19.a", STEP_FN, construct, f"constant {v}")
                else:
                    chk.violation("C19.a", STEP_FN, construct,
                                  f"without a water table the value reaching column {col} is {v}, not the constant 0", loc=loc)
    chk.valuation("water_table=0")
    for c in res.calls:
        chk.callsite(c)

    # ---------------------------------------------------------------- C19.b
    roles = step_roles(prog)
    flow = flow_of(fi)
    cfg = flow.cfg
    gw_calls = [n for n in ast.walk(fi.node) if isinstance(n, ast.Call)
                and getattr(prog.resolve_call(fi, n), "name", None) == "groundwater_inflow"]
    if len(gw_calls) != 1:
        chk.error(f"C19.b: expected exactly one call of groundwater_inflow in the step, found {len(gw_calls)}")
        return
    gw_node = flow.node_of(gw_calls[0])
    # every node reachable from the call node
    after, stack = set(), [t for t, _ in cfg.nodes[gw_node].succs]
    while stack:
        k = stack.pop()
        if k in after:
            continue
        after.add(k)
        stack.extend(t for t, _ in cfg.nodes[k].succs)
    # writers of STATE.th: functions (transitively) storing to it
    def writes_th(key, seen=None):
        seen = seen or set()
        if key in seen:
            return []
        seen.add(key)
        f = prog.funcs[key]
        out = []
        for st in stores(prog, f, roles):
            if any(p == "STATE.th" or p.startswith("STATE.th[") for p in st.paths):
                out.append((f, st))
        for call, tgt in prog.calls_in(f):
            if hasattr(tgt, "key") and tgt.key in roles.reached:
                out += writes_th(tgt.key, seen)
        return out
    n_checked = 0
    for nid in sorted(after):
        n = cfg.nodes[nid]
        if n.ast is None:
            continue
        # direct stores in the step itself
        for st in stores(prog, fi, roles):
            if flow.stmt_node.get(id(st.node)) == nid or flow.node_of(st.node) == nid:
                n_checked += 1
                if any(p == "STATE.th" or p.startswith("STATE.th[") for p in st.paths):
                    chk.violation("C19.b", STEP_FN, st.text,
                                  "the water content is written after groundwater_inflow saturated the compartments below the table",
                                  loc=fi.loc(st.node))
        from ..cfg import node_reads
        for root in node_reads(n):
            for sub in ast.walk(root):
                if isinstance(sub, ast.Call):
                    tgt = prog.resolve_call(fi, sub)
                    if hasattr(tgt, "key") and hasattr(tgt, "qualname") and tgt.key in roles.reached:
                        n_checked += 1
                        w = writes_th(tgt.key)
                        construct = f"call {tgt.qualname} after groundwater_inflow"
                        if w:
                            f2, st = w[0]
                            chk.violation("C19.b", STEP_FN, construct,
                                          f"{f2.qualname} writes the water content ({st.text}) after groundwater_inflow",
                                          loc=fi.loc(sub))
                        else:
                            chk.ok("C19.b", STEP_FN, construct, "no store to STATE.th in the callee or its callees")
    chk.floor("C19.b", n_checked, 8, "statements / calls after groundwater_inflow examined")
    rule_c(chk, prog)
    rule_d(chk, prog)
    rule_e(chk, prog)
    from ._siblings import adjusted_fc_agreement
    adjusted_fc_agreement(chk, prog, "C19.f")
    from ._siblings import wt_in_soil_agreement
    wt_in_soil_agreement(chk, prog, "C19.f")
    rule_g(chk, prog)
    rule_i(chk, prog)
    rule_j(chk, prog)
    from .c18 import rule_h as iwc_adjusted_fc
    iwc_adjusted_fc(chk, prog, rule="C19.h")
    chk.assume("A-1")
    chk.assume("A-10")
    chk.exhaustive = True
