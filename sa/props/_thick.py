"""Thickness agreement (T-THICK): a water depth [mm] and a water content [m3/m3] of compartment j are converted
into each other with compartment j's own thickness:   theta[j] (+)= depth / (1000 * dz[j]),   depth = (theta[j] - x) * 1000 * dz[j].

Sites: every multiplication `1000 * D` (either order, possibly nested in a product) in the process functions reachable from the daily
step where D resolves to a single-compartment thickness `<obj>.dz[k]` - directly, or through a local whose reaching definitions are
all `<obj>.dz[k]` with k not redefined between that definition and the use.  Obligation per site: the compartment-indexed
elements X[j] in the same statement (store target and the reads of the difference being converted) use the index k."""
from __future__ import annotations
import ast
from typing import Dict, List, Optional, Set, Tuple

from ..model import norm, walk_no_nested
from ..rdef import flow_of

THICK_ATTR = "dz"


def _is_1000(n):
    return isinstance(n, ast.Constant) and n.value == 1000


def _factors(n) -> List[ast.AST]:
    if isinstance(n, ast.BinOp) and isinstance(n.op, ast.Mult):
        return _factors(n.left) + _factors(n.right)
    return [n]


def _dz_index(fi, flow, nid, d) -> Optional[Tuple[str, str]]:
    """(index text, how) if expression d is the thickness of one compartment at cfg node nid"""
    if isinstance(d, ast.Subscript) and isinstance(d.value, ast.Attribute) and d.value.attr == THICK_ATTR:
        return norm(d.slice), "direct"
    if isinstance(d, ast.Subscript) and isinstance(d.value, ast.Name) and d.value.id.lower().endswith("dz"):
        return norm(d.slice), "direct"
    if isinstance(d, ast.Name):
        defs = flow.defs_reaching(d.id, nid)
        idx = set()
        for dn in defs:
            if dn < 0:
                return None
            a = flow.cfg.nodes[dn].ast
            if not (isinstance(a, ast.Assign) and len(a.targets) == 1 and isinstance(a.targets[0], ast.Name)):
                return None
            r = _dz_index(fi, flow, dn, a.value)
            if r is None or r[1] != "direct":
                return None
            # the index variables must not be redefined between the alias definition and the use
            for nm in {x.id for x in ast.walk(a.value.slice) if isinstance(x, ast.Name)}:
                if set(flow.defs_reaching(nm, dn)) != set(flow.defs_reaching(nm, nid)):
                    return ("?" + r[0], "stale-alias")
            idx.add(r[0])
        if len(idx) == 1:
            return idx.pop(), "alias " + d.id
    return None


def _scaled_index(fi, flow, nid, d) -> Optional[Tuple[str, str]]:
    """(index text, how) if the local d holds `1000 * <obj>.dz[k]` (a compartment's thickness in mm) at cfg node nid"""
    if not isinstance(d, ast.Name):
        return None
    idx = set()
    for dn in flow.defs_reaching(d.id, nid):
        if dn < 0:
            return None
        a = flow.cfg.nodes[dn].ast
        if not (isinstance(a, ast.Assign) and len(a.targets) == 1 and isinstance(a.targets[0], ast.Name)):
            return None
        fs = _factors(a.value)
        rest = [f for f in fs if not _is_1000(f)]
        if len(fs) != 2 or len(rest) != 1:
            return None
        r = _dz_index(fi, flow, dn, rest[0])
        if r is None or r[1] == "stale-alias":
            return None if r is None else r
        names = {x.id for x in ast.walk(rest[0]) if isinstance(x, ast.Name)}
        if isinstance(rest[0], ast.Name):
            # alias of an alias: the index names are those of the thickness expression
            names = {x for x in ast.walk(ast.parse(r[0], mode="eval")) if isinstance(x, ast.Name)}
            names = {x.id for x in names}
        for nm in names:
            if nm == getattr(rest[0], "id", None):
                continue
            if set(flow.defs_reaching(nm, dn)) != set(flow.defs_reaching(nm, nid)) and any(
                    isinstance(y, ast.Name) and y.id == nm for y in ast.walk(ast.parse(r[0], mode="eval"))):
                return ("?" + r[0], "stale-alias")
        idx.add(r[0])
    if len(idx) == 1:
        return idx.pop(), "mm-thickness local " + d.id
    return None


def scan(chk, prog, rule: str, keys) -> int:
    sites = 0
    for key in sorted(keys):
        fi = prog.funcs.get(key)
        if fi is None:
            continue
        flow = flow_of(fi)
        where = f"{fi.module}:{fi.qualname}"
        seen = set()
        for st in walk_no_nested(fi.node):
            if not isinstance(st, (ast.Assign, ast.AugAssign)):
                continue
            nid = flow.stmt_node.get(id(st))
            if nid is None:
                continue
            # a local that holds the thickness in mm (`dz_mm = 1000 * prof.dz[k]`) used as a factor or divisor
            done = set()
            for m in ast.walk(st.value):
                if not (isinstance(m, ast.BinOp) and isinstance(m.op, (ast.Mult, ast.Div))):
                    continue
                for f in (m.left, m.right):
                    if not isinstance(f, ast.Name) or f.id in done:
                        continue
                    r = _scaled_index(fi, flow, nid, f)
                    if r is None:
                        continue
                    done.add(f.id)
                    k, how = r
                    elems = [x for x in ast.walk(st) if isinstance(x, ast.Subscript) and not (isinstance(x.value, ast.Attribute) and x.value.attr == THICK_ATTR)
                             and isinstance(x.slice, (ast.Name, ast.BinOp, ast.Constant))]
                    sites += 1
                    chk.fn(key)
                    construct = f"{norm(st)[:110]}"
                    if how == "stale-alias":
                        chk.violation(rule, where, construct, f"thickness local {f.id} was computed for index {k[1:]} which has changed since", loc=fi.loc(st))
                        continue
                    bad = [x for x in elems if norm(x.slice) != k]
                    if bad:
                        chk.violation(rule, where, construct,
                                      f"depth <-> water-content conversion uses the thickness of compartment [{k}] ({how}) but the statement handles "
                                      f"{', '.join(sorted({norm(b) for b in bad}))}", loc=fi.loc(st))
                    else:
                        chk.ok(rule, where, construct, f"thickness of [{k}] ({how}); elements {sorted({norm(e) for e in elems}) or 'none (scalar statement)'}")
            for m in ast.walk(st):
                if not (isinstance(m, ast.BinOp) and isinstance(m.op, ast.Mult)) or id(m) in seen:
                    continue
                fs = _factors(m)
                for sub in ast.walk(m):
                    if isinstance(sub, ast.BinOp) and isinstance(sub.op, ast.Mult):
                        seen.add(id(sub))
                if not any(_is_1000(f) for f in fs):
                    continue
                ks = [(f, _dz_index(fi, flow, nid, f)) for f in fs if not _is_1000(f)]
                ks = [(f, r) for f, r in ks if r is not None]
                if not ks:
                    continue
                f, (k, how) = ks[0]
                # compartment-indexed elements of the statement: subscripts with a simple index that are not the thickness itself
                tgt = st.targets[0] if isinstance(st, ast.Assign) else st.target
                elems = []
                for x in ast.walk(st):
                    if isinstance(x, ast.Subscript) and x is not f and not (isinstance(x.value, ast.Attribute) and x.value.attr == THICK_ATTR) \
                            and isinstance(x.slice, (ast.Name, ast.BinOp, ast.Constant)):
                        elems.append(x)
                sites += 1
                chk.fn(key)
                construct = f"{norm(st)[:110]}"
                if how == "stale-alias":
                    chk.violation(rule, where, construct, f"thickness {norm(f)} was read for index {k[1:]} which has changed since", loc=fi.loc(st))
                    continue
                bad = [x for x in elems if norm(x.slice) != k]
                if bad:
                    chk.violation(rule, where, construct,
                                  f"depth <-> water-content conversion uses the thickness of compartment [{k}] ({how}) but the statement handles "
                                  f"{', '.join(sorted({norm(b) for b in bad}))}", loc=fi.loc(st))
                else:
                    chk.ok(rule, where, construct, f"thickness of [{k}] ({how}); elements {sorted({norm(e) for e in elems}) or 'none (scalar statement)'}")
    return sites
