"""C18 - soil profile and initial water content built as specified (tables and derived-column consistency)."""
from __future__ import annotations
import ast
from typing import Dict, List, Set, Tuple

from ..absint import Interp, Const, ALL
from ..flags import DOMAINS
from ..model import norm, walk_no_nested, AnalysisError
from ..tables import builtin_soils, _fold

EXPLANATION = (
    "C18.a (literal table, exhaustive over the 15 built-in soils): for every add_layer call of Soil.__init__ "
    "0 < th_wp < th_fc <= th_s <= 1, Ksat > 0, 0 < penetrability <= 100, thickness positive, the layers cover the "
    "branch's compartment list, the first layer reaches the first compartment; the drainage coefficient stored by "
    "add_layer lies in [0,1] on every path (abstract interpretation with order facts: the clamp dominates the store). "
    "C18.b (derived geometry, def-use on frame columns): the dependency graph of the profile columns is read off "
    "create_df (dzsum <- dz, zBot <- dzsum, z_top <- zBot, dz, zMid <- z_top, zBot); every other function that rewrites a "
    "base column must rewrite every column derived from it before the frame is consumed. C18.c: the depth columns that "
    "are derived (zBot, z_top, zMid) are consumed only by the enumerated groundwater routines; the initial-water-content "
    "interpolation takes its mid-depths from the base column dzsum. C18.d (typestate): the scalars fill_nan derives from the frame (zSoil, nComp) are read, in every "
    "function that receives the user's Soil, only on paths that pass fill_nan() since the entry and since every dz update, and such a "
    "function returns with the Soil fresh - so the deepening loop tests the real depth of the profile. C18.e: add_layer's two branches compare a depth from the surface (thickness, resp. thickness + a value read from dzsum) with the compartment bottoms under the same rounding (sibling agreement + quantity kinds). C18.f: the per-layer initial water content is written into layer depth_layer[i] with the value computed for request i (same index), never by position. C18.g: the requested layers are completed over all layers of the profile before the per-layer fill (an unlisted layer takes the last request, it does not keep the 0 of the allocation). C18.h: with a water table the adjusted field capacity replaces the initial content elementwise, only where field capacity was requested. C18.i: the depth points of the 'Depth' method reach np.interp in ascending order (permuted by an argsort, values with the same permutation). C18.j: every column add_layer writes for a layer is forward-filled by fill_nan over the compartments below the specified layers. C18.k: the thickness column is stored as floats (the deepening adds 0.1 m to single cells). C18.l (T-ARGS): no call of initialisation or of the Soil class binds two positional arguments crosswise (layer properties th_wp / th_fc / th_s, sand / clay). C18.m: in the loops that evaluate an initial-water-content request point by point, the layer used to look up the hydraulic properties is defined in the same iteration on every path to the lookup (no definition from before the loop or from the previous iteration reaches it). NOT decided: arbitrary custom dz, pedotransfer "
    "ranges, numeric interpolation of initial water content.")

DERIVED_CONSUMERS_OK = {
    # function -> reason (all are manifestations of finding F12 on deepened profiles with a water table; no others allowed)
    "create_soil_profile": "copies the frame columns into the SoilProfile arrays",
    "read_model_initial_conditions": "compartment centres for the water-table test (only under water_table == 1)",
    "check_groundwater_table": "compartment centres relative to the water table",
    "capillary_rise": "centre of the bottom compartment relative to the water table",
    "groundwater_inflow": "compartment centres below the water table",
    "create_df": "definition site",
}


def _col_of_target(t: ast.AST) -> str:
    """profile column written by an assignment target, or ''"""
    # self.profile.dz = ... / self.profile["zBot"] = ... / X.profile.loc[i, "dz"] (+)= ...
    if isinstance(t, ast.Attribute) and isinstance(t.value, ast.Attribute) and t.value.attr == "profile":
        return t.attr
    if isinstance(t, ast.Subscript):
        v = t.value
        if isinstance(v, ast.Attribute) and v.attr == "profile" and isinstance(t.slice, ast.Constant) and isinstance(t.slice.value, str):
            return t.slice.value
        if isinstance(v, ast.Attribute) and v.attr in ("loc", "iloc", "at") and isinstance(v.value, ast.Attribute) and v.value.attr == "profile":
            sl = t.slice
            if isinstance(sl, ast.Tuple) and len(sl.elts) == 2 and isinstance(sl.elts[1], ast.Constant) and isinstance(sl.elts[1].value, str):
                return sl.elts[1].value
    return ""


def _cols_read(e: ast.AST) -> Set[str]:
    out = set()
    for n in ast.walk(e):
        if isinstance(n, ast.Attribute) and isinstance(n.value, ast.Attribute) and n.value.attr == "profile" and isinstance(n.ctx, ast.Load):
            out.add(n.attr)
        if isinstance(n, ast.Subscript) and isinstance(n.value, ast.Attribute) and n.value.attr == "profile" \
                and isinstance(n.slice, ast.Constant) and isinstance(n.slice.value, str) and isinstance(n.ctx, ast.Load):
            out.add(n.slice.value)
    return out


def rule_a(chk, prog):
    soils = builtin_soils(prog)
    chk.floor("C18.a-soils", len(soils), 14, "built-in soil branches")
    ci = prog.cls("Soil")
    init = ci.methods["__init__"].node
    # default dz from the signature
    dz_default = None
    a = init.args
    pos = a.args
    for arg, d in zip(pos[len(pos) - len(a.defaults):], a.defaults):
        if arg.arg == "dz":
            try:
                dz_default = _eval_list(d)
            except Exception:
                dz_default = None
    if dz_default is None:
        raise AnalysisError("Soil.__init__: default compartment list dz is no longer a literal")
    where = f"{ci.module}:Soil.__init__"
    for name, d in sorted(soils.items()):
        if name == "custom":
            continue
        chk.valuation(f"soil_type={name}")
        dz = dz_default
        if d["dz"] is not None:
            try:
                dz = _eval_list(d["dz"])
            except Exception:
                chk.violation("C18.a", where, f"{name}: dz override", "compartment list of a built-in soil is not a literal", loc=f"{ci.path}:{d['dz'].lineno}")
                continue
        total = 0.0
        covers = False
        if not d["layers"]:
            chk.violation("C18.a", where, f"{name}: layers", "built-in soil defines no layer", loc=f"{ci.path}:{init.lineno}")
            continue
        for i, args in enumerate(d["layers"]):
            construct = f"{name}: add_layer({', '.join(norm(x) for x in args)})"
            if len(args) != 6:
                chk.violation("C18.a", where, construct, "add_layer is not called with (thickness, thWP, thFC, thS, Ksat, penetrability)", loc=f"{ci.path}:{args[0].lineno}")
                continue
            th = args[0]
            if norm(th) == "sum(dz)":
                thick, covers = sum(dz), True
            else:
                try:
                    thick = float(_fold(th))
                except Exception:
                    chk.violation("C18.a", where, construct, "layer thickness is not a literal", loc=f"{ci.path}:{th.lineno}")
                    continue
            try:
                wp, fc, s, ks, pen = (float(_fold(x)) for x in args[1:])
            except Exception:
                chk.violation("C18.a", where, construct, "hydraulic properties of a built-in soil are not literals", loc=f"{ci.path}:{args[1].lineno}")
                continue
            problems = []
            if not (0 < wp < fc <= s <= 1):
                problems.append(f"need 0 < th_wp < th_fc <= th_s <= 1, got {wp}, {fc}, {s}")
            if not ks > 0:
                problems.append(f"Ksat {ks} <= 0")
            if not (0 < pen <= 100):
                problems.append(f"penetrability {pen} outside (0,100]")
            if not thick > 0:
                problems.append(f"thickness {thick} <= 0")
            if i == 0 and thick + 1e-9 < dz[0]:
                problems.append(f"first layer ({thick} m) does not reach the first compartment ({dz[0]} m)")
            total += thick
            if problems:
                chk.violation("C18.a", where, construct, "; ".join(problems), loc=f"{ci.path}:{args[0].lineno}")
            else:
                chk.ok("C18.a", where, construct, f"air-dry {wp / 2:g} < wp {wp:g} < fc {fc:g} <= sat {s:g}; Ksat {ks:g}")
        construct = f"{name}: layers cover the compartments"
        if covers or total + 1e-9 >= sum(dz):
            chk.ok("C18.a", where, construct, f"layer thicknesses {total:g} m >= profile {sum(dz):g} m")
        else:
            chk.violation("C18.a", where, construct, f"layers sum to {total:g} m but the compartments to {sum(dz):g} m: bottom compartments have no layer",
                          loc=f"{ci.path}:{init.lineno}")
    # tau in [0,1] at the store in add_layer
    al = ci.methods.get("add_layer")
    if al is None:
        raise AnalysisError("Soil.add_layer vanished")
    chk.fn(al.key)
    it = Interp(prog, al, domains=DOMAINS, part_key="facts", maxp=16).run()
    found = 0
    for n in it.cfg.live_nodes():
        a = n.ast
        if isinstance(a, ast.Assign) and any(isinstance(x, ast.Constant) and x.value == "tau" for x in ast.walk(a.targets[0])):
            found += 1
            ok = True
            for p in it.node_facts.get(n.id, []):
                v = p.env.get("tau", (None, False))[0]
                if isinstance(v, Const):
                    good = 0 <= v.v <= 1
                else:
                    good = p.pa.get("tau", "#1") <= frozenset("<=") and p.pa.get("tau", "#0") <= frozenset("=>")
                ok = ok and good
            construct = "tau stored by add_layer lies in [0, 1]"
            if ok:
                chk.ok("C18.a", f"{al.module}:{al.qualname}", construct, "clamp dominates the store on every path")
            else:
                chk.violation("C18.a", f"{al.module}:{al.qualname}", construct, "the drainage coefficient can leave [0,1] before it is stored", loc=al.loc(a))
    chk.floor("C18.a-tau", found, 1, "stores of tau in add_layer")
    chk.exhaustive = True


def _eval_list(e: ast.AST) -> List[float]:
    if isinstance(e, ast.List):
        return [float(_fold(x)) for x in e.elts]
    if isinstance(e, ast.BinOp) and isinstance(e.op, ast.Mult):
        l = e.left if isinstance(e.left, ast.List) else e.right
        k = e.right if isinstance(e.left, ast.List) else e.left
        return _eval_list(l) * int(_fold(k))
    if isinstance(e, ast.BinOp) and isinstance(e.op, ast.Add):
        return _eval_list(e.left) + _eval_list(e.right)
    raise ValueError


def rule_b(chk, prog):
    ci = prog.cls("Soil")
    cdf = ci.methods.get("create_df")
    if cdf is None:
        raise AnalysisError("Soil.create_df vanished")
    # dependency graph from create_df
    dep: Dict[str, Set[str]] = {}
    for a in walk_no_nested(cdf.node):
        if isinstance(a, ast.Assign):
            c = _col_of_target(a.targets[0])
            if c:
                dep[c] = _cols_read(a.value) - {c}
    need = {"dzsum": {"dz"}, "zBot": {"dzsum"}, "z_top": {"zBot", "dz"}, "zMid": {"z_top", "zBot"}}
    for c, srcs in need.items():
        construct = f"create_df: {c} <- {sorted(dep.get(c, set()))}"
        if srcs <= dep.get(c, set()):
            chk.ok("C18.b", f"{cdf.module}:{cdf.qualname}", construct, "column derived from the compartment thicknesses")
        else:
            chk.violation("C18.b", f"{cdf.module}:{cdf.qualname}", construct, f"{c} is no longer derived from {sorted(srcs)}", loc=cdf.loc())

    def derived_from(c: str) -> Set[str]:
        out, work = set(), [c]
        while work:
            x = work.pop()
            for d, srcs in dep.items():
                if x in srcs and d not in out:
                    out.add(d)
                    work.append(d)
        return out
    # every other writer of a base column
    nwriters = 0
    for key, fi in sorted(prog.funcs.items()):
        if fi is cdf:
            continue
        written: List[Tuple[str, ast.AST]] = []
        for a in walk_no_nested(fi.node):
            ts = a.targets if isinstance(a, ast.Assign) else ([a.target] if isinstance(a, ast.AugAssign) else [])
            for t in ts:
                c = _col_of_target(t)
                if c:
                    written.append((c, a))
        cols = {c for c, _ in written}
        # calls to other writers count (fill_nan called after a dz update)
        callee_cols: Set[str] = set()
        for call, tgt in prog.calls_in(fi):
            if hasattr(tgt, "qualname") and tgt.cls == "Soil":
                for a in walk_no_nested(tgt.node):
                    ts = a.targets if isinstance(a, ast.Assign) else ([a.target] if isinstance(a, ast.AugAssign) else [])
                    for t in ts:
                        c = _col_of_target(t)
                        if c:
                            callee_cols.add(c)
        base = sorted(c for c in cols if c in ("dz", "dzsum"))
        if not base:
            continue
        nwriters += 1
        chk.fn(key)
        missing = set()
        for c in base:
            missing |= derived_from(c) - cols - callee_cols
        where = f"{fi.module}:{fi.qualname}"
        if missing:
            construct = f"rewrites {', '.join(base)} without recomputing {', '.join(sorted(missing))}"
            chk.violation("C18.b", where, construct,
                          "compartment bottoms / tops / mid-depths are stale after the thicknesses change (profile deepening, rounding): "
                          "tops and mid-depths are no longer consistent with the running sum of thicknesses", loc=fi.loc(written[0][1]))
        else:
            chk.ok("C18.b", where, f"rewrites {', '.join(base)} and every column derived from them")
    chk.floor("C18.b", nwriters, 2, "functions rewriting base columns of the profile")


def rule_c(chk, prog):
    n = 0
    for key, fi in sorted(prog.funcs.items()):
        for a in walk_no_nested(fi.node):
            col = None
            if isinstance(a, ast.Attribute) and a.attr in ("zMid", "z_top", "zBot") and isinstance(a.ctx, ast.Load):
                # z_top is also the name of a Soil scalar (Soil.z_top): only profile / prof objects
                b = norm(a.value)
                if a.attr == "z_top" and not any(k in b.lower() for k in ("prof", "pdf")):
                    continue
                col = a.attr
            if isinstance(a, ast.Subscript) and isinstance(a.slice, ast.Constant) and a.slice.value in ("zMid", "z_top", "zBot") and isinstance(a.ctx, ast.Load):
                col = a.slice.value
            if col is None:
                continue
            n += 1
            where = f"{fi.module}:{fi.qualname}"
            construct = f"reads derived depth column {col}: {norm(a)}"
            if fi.name in DERIVED_CONSUMERS_OK:
                chk.ok("C18.c", where, construct, DERIVED_CONSUMERS_OK[fi.name])
            else:
                chk.violation("C18.c", where, construct,
                              "uses a depth column that is derived once when the profile is created and is stale on profiles that were "
                              "deepened for the crop's rooting depth; compartment centres must be taken from the running sum dzsum", loc=fi.loc(a))
    chk.floor("C18.c", n, 8, "reads of derived depth columns")
    # the initial-water-content interpolation uses dzsum
    rm = prog.find_func("read_model_initial_conditions")
    interps = [c for c in walk_no_nested(rm.node) if isinstance(c, ast.Call) and isinstance(c.func, ast.Attribute) and c.func.attr == "interp"]
    chk.floor("C18.c-interp", len(interps), 1, "np.interp calls of the initial water content")
    from ..rdef import flow_of, ENTRY
    flow = flow_of(rm)
    for c in interps:
        x = c.args[0]
        cols = set()
        seen = set()
        work = [x]
        while work:
            e = work.pop()
            cols |= {n.attr for n in ast.walk(e) if isinstance(n, ast.Attribute) and isinstance(n.value, ast.Name) and n.value.id == "profile"}
            for nm in ast.walk(e):
                if isinstance(nm, ast.Name) and isinstance(nm.ctx, ast.Load) and nm.id not in seen:
                    seen.add(nm.id)
                    nid = flow.node_of(nm)
                    for d in (flow.defs_reaching(nm.id, nid) if nid is not None else []):
                        if d != ENTRY and isinstance(flow.cfg.nodes[d].ast, ast.Assign):
                            work.append(flow.cfg.nodes[d].ast.value)
        construct = f"np.interp({norm(x)}, ...): abscissa derived from profile columns {sorted(cols)}"
        if "dzsum" in cols and not (cols & {"zMid", "z_top", "zBot"}):
            chk.ok("C18.c", f"{rm.module}:{rm.qualname}", construct, "compartment mid-depths computed from the running sum of thicknesses")
        else:
            chk.violation("C18.c", f"{rm.module}:{rm.qualname}", construct, "the initial water content is not interpolated at mid-depths derived from dzsum", loc=rm.loc(c))


def rule_d(chk, prog):
    """typestate of the Soil object: the scalars fill_nan derives from the frame (total depth zSoil, compartment count nComp) are
    fresh only after fill_nan() has run since the frame was last changed. The user's Soil enters the model in unknown state (the
    constructor stores zSoil = sum(dz argument) before built-in branches replace the compartment list; add_layer / a dz edit do not
    refresh it). In every function below _initialize that receives the Soil as a parameter:
      (1) each read of a derived scalar is reachable only through a fill_nan() call, also from every write of the frame's dz;
      (2) a function that calls fill_nan() or writes dz leaves the Soil fresh at every return."""
    from ..common import INIT_ROOT
    from ..rdef import flow_of
    ci = prog.cls("Soil")
    fn_ = ci.methods.get("fill_nan")
    if fn_ is None:
        raise AnalysisError("Soil.fill_nan vanished")
    derived = sorted({t.attr for a in walk_no_nested(fn_.node) if isinstance(a, ast.Assign) for t in a.targets
                      if isinstance(t, ast.Attribute) and isinstance(t.value, ast.Name) and t.value.id == "self" and t.attr != "profile"})
    if not {"zSoil", "nComp"} <= set(derived):
        raise AnalysisError(f"fill_nan no longer derives zSoil / nComp (derives {derived})")
    n_reads = 0
    for key in sorted(prog.reachable_from(INIT_ROOT)):
        fi = prog.funcs.get(key)
        if fi is None or fi.cls == "Soil":
            continue
        soils = set()
        for arg in fi.node.args.args:
            ann = arg.annotation
            txt = ann.value if isinstance(ann, ast.Constant) and isinstance(ann.value, str) else (norm(ann) if ann is not None else "")
            if txt.split(".")[-1] == "Soil":
                soils.add(arg.arg)
        if not soils:
            continue
        flow = flow_of(fi)
        cfg = flow.cfg
        where = f"{fi.module}:{fi.qualname}"
        def is_refresh(n):
            return n.ast is not None and any(isinstance(c, ast.Call) and isinstance(c.func, ast.Attribute) and c.func.attr == "fill_nan"
                                             and isinstance(c.func.value, ast.Name) and c.func.value.id in soils
                                             for c in ast.walk(n.ast) if n.kind in ("stmt", "test", "for"))
        refresh = {n.id for n in cfg.live_nodes() if is_refresh(n)}
        def writes_dz(n):
            a = n.ast
            ts = a.targets if isinstance(a, ast.Assign) else ([a.target] if isinstance(a, ast.AugAssign) else [])
            return any(_col_of_target(t) in ("dz",) for t in ts)
        writers = {n.id for n in cfg.live_nodes() if n.kind == "stmt" and writes_dz(n)}
        reads = []
        for n in cfg.live_nodes():
            if n.ast is None or n.kind not in ("stmt", "test", "for"):
                continue
            roots = [n.ast] if n.kind != "for" else [n.ast.iter]
            for r in roots:
                for x in ast.walk(r):
                    if isinstance(x, ast.Attribute) and x.attr in derived and isinstance(x.ctx, ast.Load) \
                            and isinstance(x.value, ast.Name) and x.value.id in soils:
                        reads.append((n, x))
        if not reads and not refresh and not writers:
            continue
        chk.fn(key)
        def reach_avoiding(src, dst):
            # a path src ->+ dst that passes no refresh node (src itself excluded)
            seen, stack = set(), [t for t, _ in cfg.nodes[src].succs]
            while stack:
                k = stack.pop()
                if k in seen:
                    continue
                seen.add(k)
                if k == dst:
                    return True
                if k in refresh:
                    continue
                stack.extend(t for t, _ in cfg.nodes[k].succs)
            return False
        for n, x in reads:
            n_reads += 1
            construct = f"read of {norm(x)} in `{norm(n.ast)[:60] if n.kind != 'for' else norm(n.ast.iter)[:60]}`"
            stale_from = []
            if n.id not in refresh and reach_avoiding(cfg.entry, n.id):
                stale_from.append("the function entry (the Soil object as the user left it)")
            for w in sorted(writers):
                if reach_avoiding(w, n.id):
                    stale_from.append(f"the dz update at line {cfg.nodes[w].lineno}")
            if stale_from:
                chk.violation("C18.d", where, construct, f"{norm(x)} is read on a path from {' and from '.join(stale_from)} that does not pass "
                              f"{sorted(soils)[0]}.fill_nan(): the value can be stale (e.g. sum of the dz argument of a built-in soil whose "
                              "compartment list was replaced) and the profile is then not deepened below the maximum rooting depth",
                              loc=fi.loc(x))
            else:
                chk.ok("C18.d", where, construct, "only reachable through fill_nan() since entry and since every dz update")
        if refresh or writers:
            exits = [p for p, _ in cfg.nodes[cfg.exit].preds]
            bad = []
            for src in [cfg.entry] + sorted(writers):
                if reach_avoiding(src, cfg.exit):
                    bad.append("entry" if src == cfg.entry else f"dz update at line {cfg.nodes[src].lineno}")
            construct = "Soil is fresh at every return"
            if bad:
                chk.violation("C18.d", where, construct, f"a path from {', '.join(bad)} reaches a return without fill_nan(): later readers of "
                              f"{', '.join(derived)} (initial conditions, the daily step) see stale values", loc=fi.loc())
            else:
                chk.ok("C18.d", where, construct, "every path from entry / a dz update to a return passes fill_nan()")
    chk.floor("C18.d", n_reads, 1, "reads of fill_nan-derived scalars in functions receiving the Soil")


def rule_e(chk, prog):
    """C18.e (layers are built as specified): Soil.add_layer assigns compartments to a layer by comparing the layer's lower boundary with the
    compartments' bottom depths (dzsum).
      sibling agreement: the first-layer branch and the later-layers branch apply the same rounding to both sides of that comparison
        (0.6 + 0.3 is 0.8999999999999999: an unrounded boundary loses the compartment that ends exactly on it);
      quantity kinds: the boundary is a depth from the surface - the layer thickness alone (first layer) or thickness + a value read from the
        cumulative column dzsum (never a single layer's own thickness, dz.sum())."""
    from ..rdef import flow_of, ENTRY
    ci = prog.cls("Soil")
    al = ci.methods.get("add_layer")
    if al is None:
        raise AnalysisError("Soil.add_layer vanished")
    chk.fn(al.key)
    where = f"{al.module}:{al.qualname}"
    flow = flow_of(al)
    thick = al.params[1] if al.params and al.params[0] == "self" else al.params[0]
    def unround(e):
        if isinstance(e, ast.Call) and isinstance(e.func, ast.Name) and e.func.id == "round" and e.args:
            return e.args[0], (norm(e.args[1]) if len(e.args) > 1 else "0")
        return e, None
    sites = []
    for c in walk_no_nested(al.node):
        if isinstance(c, ast.Compare) and len(c.ops) == 1 and isinstance(c.ops[0], (ast.GtE, ast.LtE, ast.Gt, ast.Lt)):
            l, r = c.left, c.comparators[0]
            lu, lr = unround(l)
            ru, rr = unround(r)
            if any(isinstance(x, ast.Attribute) and x.attr == "dzsum" for x in ast.walk(ru)) and not any(isinstance(x, ast.Attribute) and x.attr == "dzsum" for x in ast.walk(lu)):
                sites.append((c, lu, lr, rr))
            elif any(isinstance(x, ast.Attribute) and x.attr == "dzsum" for x in ast.walk(lu)) and not any(isinstance(x, ast.Attribute) and x.attr == "dzsum" for x in ast.walk(ru)):
                sites.append((c, ru, rr, lr))
    chk.floor("C18.e", len(sites), 2, "comparisons of a layer boundary with the compartment bottoms in add_layer")
    roundings = {(br, dr) for _, _, br, dr in sites}
    for c, bound, br, dr in sites:
        construct = norm(c)[:90]
        nid = flow.node_of(c)
        problems = []
        if br is None or dr is None or br != dr:
            problems.append(f"boundary rounded to {br}, compartment bottoms to {dr}: a boundary that is a floating-point sum falls just below the compartment that "
                            "ends on it")
        if len(roundings) > 1:
            problems.append(f"the branches of add_layer round differently ({sorted(map(str, roundings))})")
        # kinds
        terms = []
        def flat(e):
            if isinstance(e, ast.BinOp) and isinstance(e.op, ast.Add):
                flat(e.left); flat(e.right)
            else:
                terms.append(e)
        flat(bound)
        others = [t for t in terms if not (isinstance(t, ast.Name) and t.id == thick)]
        if not any(isinstance(t, ast.Name) and t.id == thick for t in terms):
            problems.append(f"the boundary `{norm(bound)}` does not contain the layer thickness")
        for t in others:
            depth_kind = False
            if isinstance(t, ast.Name) and nid is not None:
                ds = flow.defs_reaching(t.id, nid)
                depth_kind = bool(ds) and all(d != ENTRY and isinstance(flow.cfg.nodes[d].ast, ast.Assign)
                                              and any(isinstance(x, ast.Attribute) and x.attr == "dzsum" for x in ast.walk(flow.cfg.nodes[d].ast.value))
                                              for d in ds)
            elif any(isinstance(x, ast.Attribute) and x.attr == "dzsum" for x in ast.walk(t)):
                depth_kind = True
            if not depth_kind:
                problems.append(f"`{norm(t)}` is added to the thickness but is not a depth from the surface (not read from the cumulative column dzsum): for a third "
                                "layer the boundary is too shallow and the layer loses its compartments")
        if not others:
            # thickness alone is a depth only for the first layer
            first = nid is not None and any(flow.cfg.nodes[t].kind == "test" and l is True and norm(flow.cfg.nodes[t].ast).endswith("== 1")
                                            for t, l in flow.cfg.transitive_control_deps(flow.stmt_node.get(id(_stmt_of(al, c)), nid)))
            if not first:
                problems.append("the thickness alone is used as the boundary outside the first-layer branch")
        if problems:
            chk.violation("C18.e", where, construct, "; ".join(problems), loc=al.loc(c))
        else:
            chk.ok("C18.e", where, construct, f"boundary is a depth from the surface, both sides rounded to {br}")


def _stmt_of(fi, node):
    for st in walk_no_nested(fi.node):
        if isinstance(st, ast.stmt) and any(x is node for x in ast.walk(st)) and not isinstance(st, (ast.If, ast.For, ast.While, ast.FunctionDef)):
            return st
    return node


def rule_f(chk, prog):
    """C18.f (the initial water content equals the requested value *in each layer*): in the per-layer branch the compartments that receive
    request i are those of layer depth_layer[i] - the same i that selected the hydraulic properties the value was computed from - never
    the i-th layer by position."""
    from ..rdef import flow_of, ENTRY
    fi = prog.find_func("read_model_initial_conditions")
    chk.fn(fi.key)
    where = f"{fi.module}:{fi.qualname}"
    flow = flow_of(fi)
    cfg = flow.cfg
    # the local holding the user's depth_layer list
    dl = {a.targets[0].id for a in walk_no_nested(fi.node) if isinstance(a, ast.Assign) and isinstance(a.targets[0], ast.Name)
          and any(isinstance(x, ast.Attribute) and x.attr == "depth_layer" for x in ast.walk(a.value))}
    changed = True
    while changed:
        changed = False
        for a in walk_no_nested(fi.node):
            if isinstance(a, ast.Assign) and isinstance(a.targets[0], ast.Name) and a.targets[0].id not in dl \
                    and any(isinstance(x, ast.Name) and x.id in dl for x in ast.walk(a.value)) and isinstance(a.value, ast.Call) \
                    and isinstance(a.value.func, ast.Attribute) and a.value.func.attr == "array":
                dl.add(a.targets[0].id); changed = True
    if not dl:
        raise AnalysisError("read_model_initial_conditions no longer reads InitWC.depth_layer")
    n = 0
    for a in walk_no_nested(fi.node):
        if not (isinstance(a, ast.Assign) and isinstance(a.targets[0], ast.Subscript) and isinstance(a.targets[0].slice, ast.Name) and isinstance(a.value, ast.Name)):
            continue
        nid = flow.stmt_node.get(id(a))
        idx = a.targets[0].slice.id
        idefs = [cfg.nodes[d].ast for d in flow.defs_reaching(idx, nid) if d != ENTRY]
        if not idefs or not all(isinstance(d, ast.Assign) and "Layer" in norm(d.value) and "query" in norm(d.value) for d in idefs):
            continue
        n += 1
        construct = f"{norm(a)} with {norm(idefs[0])[:60]}"
        lnames = {x.id for d in idefs for x in ast.walk(d.value) if isinstance(x, ast.Name) and x.id not in ("profile", "int")}
        problems = []
        sel_idx = set()
        for ln in lnames:
            for d in flow.defs_reaching(ln, flow.stmt_node[id(idefs[0])]):
                da = cfg.nodes[d].ast if d != ENTRY else None
                v = da.value if isinstance(da, ast.Assign) else None
                if isinstance(v, ast.Subscript) and isinstance(v.value, ast.Name) and v.value.id in dl:
                    sel_idx.add(norm(v.slice))
                else:
                    problems.append(f"the layer selector `{ln}` is defined by `{norm(da)[:50] if da is not None else 'a parameter'}`, not read from the requested "
                                    f"layer list ({', '.join(sorted(dl))})")
        val_idx = set()
        for d in flow.defs_reaching(a.value.id, nid):
            da = cfg.nodes[d].ast if d != ENTRY else None
            v = da.value if isinstance(da, ast.Assign) else None
            if isinstance(v, ast.Subscript) and isinstance(v.value, ast.Name):
                val_idx.add(norm(v.slice))
            else:
                problems.append(f"the stored value `{a.value.id}` is defined by `{norm(da)[:50] if da is not None else 'a parameter'}`")
        if not problems and sel_idx != val_idx:
            problems.append(f"layer selected with index {sorted(sel_idx)} but value taken with index {sorted(val_idx)}")
        if problems:
            chk.violation("C18.f", where, construct, "; ".join(problems) + ": request i is written into another layer than the one it was computed for "
                          "(e.g. depth_layer=[2, 1])", loc=fi.loc(a))
        else:
            chk.ok("C18.f", where, construct, f"layer = {sorted(dl)[0]}[{sorted(sel_idx)[0]}], value = values[{sorted(val_idx)[0]}]")
    chk.floor("C18.f", n, 1, "per-layer stores of the initial water content")


def rule_k(chk, prog):
    """C18.k (any compartment thickness list): the thickness column of the profile frame is stored as floats - the value assigned to
    `profile.dz` in Soil.create_df is cast (`np.asarray(dz, dtype=float)`, `.astype(float)`, `np.array(.., dtype=float)`) - because the
    profile-deepening loop adds 0.1 m to single cells of that column: on an integer column (dz=[1, 1]) pandas raises TypeError."""
    soil = prog.cls("Soil")
    cd = soil.methods.get("create_df")
    if cd is None:
        raise AnalysisError("Soil.create_df not found")
    chk.fn(cd.key)
    where = f"{cd.module}:{cd.qualname}"
    n = 0
    for a in walk_no_nested(cd.node):
        if isinstance(a, ast.Assign) and isinstance(a.targets[0], ast.Attribute) and a.targets[0].attr == "dz":
            n += 1
            v = a.value
            is_float = (isinstance(v, ast.Call) and any(k.arg == "dtype" and norm(k.value) in ("float", "np.float64", "'float64'", "'float'") for k in v.keywords)) or \
                       (isinstance(v, ast.Call) and isinstance(v.func, ast.Attribute) and v.func.attr == "astype" and v.args and norm(v.args[0]) in ("float", "np.float64", "'float64'", "'float'"))
            if is_float:
                chk.ok("C18.k", where, norm(a), "thicknesses stored as floats")
            else:
                chk.violation("C18.k", where, norm(a), "the thickness column takes the dtype of the list the user gave: with integers (dz=[1, 1]) the deepening loop's `+= 0.1` on a "
                              "cell raises TypeError (Invalid value for dtype int64)", loc=cd.loc(a))
    chk.floor("C18.k", n, 1, "stores of the thickness column in create_df")


def rule_j(chk, prog):
    """C18.j (layers cover all compartments - with every property of the layer): add_layer writes the layer number and the layer's properties
    into the compartments the layer covers; Soil.fill_nan extends the last layer over the compartments below the specified layers by a
    forward fill. Every column add_layer writes under the layer mask must be forward-filled - the whole frame, or a column list that
    contains them all (a list that leaves one out, e.g. the drainage coefficient `tau`, leaves NaN there)."""
    soil = prog.cls("Soil")
    al, fn = soil.methods.get("add_layer"), soil.methods.get("fill_nan")
    if al is None or fn is None:
        raise AnalysisError("Soil.add_layer / Soil.fill_nan not found")
    chk.fn(al.key); chk.fn(fn.key)
    written = set()
    for a in walk_no_nested(al.node):
        if isinstance(a, ast.Assign) and isinstance(a.targets[0], ast.Subscript) and isinstance(a.targets[0].value, ast.Attribute) and a.targets[0].value.attr == "loc" \
                and isinstance(a.targets[0].slice, ast.Tuple) and len(a.targets[0].slice.elts) == 2:
            c = a.targets[0].slice.elts[1]
            if isinstance(c, ast.Constant) and isinstance(c.value, str):
                written.add(c.value)
            elif isinstance(c, ast.List):
                written |= {e.value for e in c.elts if isinstance(e, ast.Constant)}
    chk.floor("C18.j", len(written), 6, "per-layer columns written by add_layer")
    where = f"{fn.module}:{fn.qualname}"
    filled_all, filled = False, set()
    lists = {a.targets[0].id: a.value for a in walk_no_nested(fn.node) if isinstance(a, ast.Assign) and isinstance(a.targets[0], ast.Name) and isinstance(a.value, ast.List)}
    for c in walk_no_nested(fn.node):
        if isinstance(c, ast.Call) and isinstance(c.func, ast.Attribute) and c.func.attr in ("ffill", "pad") or \
                (isinstance(c, ast.Call) and isinstance(c.func, ast.Attribute) and c.func.attr == "fillna" and any(k.arg == "method" for k in c.keywords)):
            recv = c.func.value
            if isinstance(recv, ast.Attribute) and recv.attr == "profile":
                filled_all = True
            elif isinstance(recv, ast.Subscript):
                sl = recv.slice
                if isinstance(sl, ast.Name) and sl.id in lists:
                    sl = lists[sl.id]
                if isinstance(sl, ast.List):
                    filled |= {e.value for e in sl.elts if isinstance(e, ast.Constant)}
                elif isinstance(sl, ast.Constant):
                    filled.add(sl.value)
    construct = "fill_nan forward-fills what add_layer writes"
    missing = sorted(written - filled) if not filled_all else []
    if filled_all:
        chk.ok("C18.j", where, construct, f"whole frame forward-filled ({len(written)} per-layer columns: {', '.join(sorted(written))})")
    elif not missing:
        chk.ok("C18.j", where, construct, f"forward-filled column list covers all {len(written)} per-layer columns")
    else:
        chk.violation("C18.j", where, construct, f"the forward fill leaves out {', '.join(missing)}: in the compartments below the specified layers (a profile longer than the "
                      "layers, or deepened for the crop) that property stays NaN - NaN water contents once drainage reaches them", loc=fn.loc())


def rule_g(chk, prog):
    """C18.g (every layer receives an initial water content): the per-layer branch fills an array allocated with zeros through per-layer
    selections, one request at a time; the list of requested layers it iterates over must have been completed over *all* layers of the
    profile - an `append` of the loop variable of `for l in range(1, <nLayer> + 1)` (under `l not in <listed>`) on the local copy of the
    user's list, on every path before the filling loop. Otherwise a layer the user did not list (the default request names layer 1 only)
    starts at a water content of 0."""
    from ..rdef import flow_of, ENTRY
    fi = prog.find_func("read_model_initial_conditions")
    chk.fn(fi.key)
    where = f"{fi.module}:{fi.qualname}"
    flow = flow_of(fi)
    cfg = flow.cfg
    # filling loops: for .. in range(len(<values>)): layer = L[i]; idx = profile.query("Layer==..").index; thini[idx] = value
    n = 0
    for lp in walk_no_nested(fi.node):
        if not isinstance(lp, ast.For):
            continue
        stores_ = [a for a in ast.walk(lp) if isinstance(a, ast.Assign) and isinstance(a.targets[0], ast.Subscript) and isinstance(a.targets[0].slice, ast.Name)]
        fills = []
        for a in stores_:
            nid = flow.stmt_node.get(id(a))
            idefs = [cfg.nodes[d].ast for d in flow.defs_reaching(a.targets[0].slice.id, nid) if d != ENTRY] if nid is not None else []
            if idefs and all(isinstance(d, ast.Assign) and "Layer" in norm(d.value) and "query" in norm(d.value) for d in idefs):
                fills.append((a, idefs))
        if not fills:
            continue
        a, idefs = fills[0]
        # the list the layer selector is read from
        lists = set()
        for d in idefs:
            for x in ast.walk(d.value):
                if isinstance(x, ast.Name):
                    for dd in flow.defs_reaching(x.id, flow.stmt_node[id(d)]):
                        da = cfg.nodes[dd].ast if dd != ENTRY else None
                        if isinstance(da, ast.Assign) and isinstance(da.value, ast.Subscript) and isinstance(da.value.value, ast.Name):
                            lists.add(da.value.value.id)
        if not lists:
            continue
        n += 1
        L = sorted(lists)[0]
        lpn = flow.stmt_node.get(id(lp)) or flow.node_of(lp)
        if lpn is None:
            lpn = next((k.id for k in cfg.live_nodes() if k.kind == "for" and k.ast is lp), None)
        construct = f"per-layer fill `{norm(a)}` over the requests in `{L}`"
        # completion: for l in range(1, <..nLayer..> + 1): [if l not in ..:] L.append(l)
        comp_nodes = set()
        range_loops = []
        for lp2 in walk_no_nested(fi.node):
            # iteration domain = all layers of the profile: range(1, nLayer + 1), or the layer numbers present in the profile frame
            # (`profile.Layer.unique()`, possibly through sorted(...) / a generator that casts them) / the per-layer table's index
            it_ = lp2.iter if isinstance(lp2, ast.For) else None
            dom_range = isinstance(it_, ast.Call) and norm(it_.func) == "range" and any(isinstance(x, ast.Attribute) and x.attr == "nLayer" for x in ast.walk(it_)) \
                and len(it_.args) == 2 and norm(it_.args[0]) == "1" and isinstance(it_.args[1], ast.BinOp) and isinstance(it_.args[1].op, ast.Add)
            dom_present = it_ is not None and (any(isinstance(x, ast.Call) and isinstance(x.func, ast.Attribute) and x.func.attr == "unique" and isinstance(x.func.value, ast.Attribute)
                                                    and x.func.value.attr == "Layer" for x in ast.walk(it_))
                                               or (isinstance(it_, ast.Attribute) and it_.attr == "index" and "hyd" in norm(it_.value).lower()))
            if dom_range and not dom_present:
                range_loops.append(lp2)
            if isinstance(lp2, ast.For) and isinstance(lp2.target, ast.Name) and dom_present:
                for c in ast.walk(lp2):
                    if isinstance(c, ast.Call) and isinstance(c.func, ast.Attribute) and c.func.attr == "append" and isinstance(c.func.value, ast.Name) \
                            and c.args and isinstance(c.args[0], ast.Name) and c.args[0].id == lp2.target.id:
                        # L itself or the list L was copied from (np.array(L0))
                        src = c.func.value.id
                        ok_src = src == L or any(isinstance(cfg.nodes[dd].ast, ast.Assign) and any(isinstance(x, ast.Name) and x.id == src for x in ast.walk(cfg.nodes[dd].ast.value))
                                                 for dd in flow.defs_reaching(L, lpn) if dd != ENTRY) if lpn is not None else src == L
                        if ok_src:
                            k = next((q.id for q in cfg.live_nodes() if q.kind == "for" and q.ast is lp2), None)
                            if k is not None:
                                comp_nodes.add(k)
        if not comp_nodes and range_loops:
            chk.violation("C18.g", where, construct, f"the requested layers in `{L}` are completed over range(1, nLayer + 1): nLayer counts add_layer calls, and a layer added "
                          "below the bottom of the compartments has no row in the per-layer table - its lookup raises KeyError. Iterate over the layers present in the profile",
                          loc=fi.loc(range_loops[0]))
            continue
        if not comp_nodes:
            chk.violation("C18.g", where, construct, f"the requested layers in `{L}` are never completed over all layers of the profile (no `for l in range(1, nLayer + 1): "
                          f"... {L}.append(l)` before the fill): a layer that is not listed - layer 2 of the Paddy soil under the default request - keeps the 0.0 "
                          "the array was allocated with", loc=fi.loc(lp))
            continue
        # the completion lies on every path to the fill that goes through the Layer-method branch: the fill loop is not reachable from the
        # function entry when the completion loops are removed, unless the path also avoids ... (the fill is itself under the Layer test)
        # tests that guard both the completion and the fill with the same outcome (`methodstr == "Layer"`, operands not redefined in the function)
        # are correlated: a path that skips the completion through the other outcome cannot enter the fill
        def _guards(k):
            return {(norm(cfg.nodes[t].ast), l) for t, l in cfg.transitive_control_deps(k) if cfg.nodes[t].kind == "test"}
        assigned = {t.id for x in walk_no_nested(fi.node) if isinstance(x, (ast.Assign, ast.AugAssign)) for t in (x.targets if isinstance(x, ast.Assign) else [x.target])
                    if isinstance(t, ast.Name)}
        counts = {}
        for x in walk_no_nested(fi.node):
            if isinstance(x, ast.Assign):
                for t in x.targets:
                    if isinstance(t, ast.Name):
                        counts[t.id] = counts.get(t.id, 0) + 1
        common = set.intersection(*[_guards(k) for k in comp_nodes]) & (_guards(lpn) if lpn is not None else set())
        removed = set()
        for txt, lab in common:
            for t in cfg.live_nodes():
                if t.kind == "test" and norm(t.ast) == txt and all(counts.get(v.id, 0) <= 1 for v in ast.walk(t.ast) if isinstance(v, ast.Name)):
                    removed.add((t.id, (not lab) if isinstance(lab, bool) else lab))
        def _reach():
            seen, stack = set(), [cfg.entry]
            while stack:
                k = stack.pop()
                if k in seen or k in comp_nodes:
                    continue
                if k == lpn:
                    return True
                seen.add(k)
                for t, l in cfg.nodes[k].succs:
                    if (k, l) not in removed:
                        stack.append(t)
            return False
        if lpn is not None and _reach():
            chk.violation("C18.g", where, construct, "the completion of the requested layers over all layers of the profile is skipped on some path to the per-layer fill", loc=fi.loc(lp))
        else:
            chk.ok("C18.g", where, construct, f"`{L}` is completed over all layers of the profile on every path before the fill")
    chk.floor("C18.g", n, 1, "per-layer fills of the initial water content")


def rule_h(chk, prog, rule="C18.h"):
    """C18.h / C19.h (with a water table the adjusted field capacity replaces the initial content only where field capacity was requested): every
    store of the initial water content whose value mentions the adjusted field capacity is an elementwise selection
    `np.where(<th compared with th_fc>, <adjusted>, <th>)` - never the whole array (which overrides the other requests and makes th an alias
    of th_fc_Adj), and never decided by the last requested value alone."""
    from ..rdef import flow_of, ENTRY
    ic = prog.find_func("read_model_initial_conditions")
    n = 0
    # the store may sit in the initial conditions themselves or in a helper they (and the season reset) call with the adjusted field
    # capacity: follow `X.th = helper(th, at_fc, th_fc_Adj, ...)` into the helper, formals bound to the actuals
    sites = []
    for a in walk_no_nested(ic.node):
        if isinstance(a, ast.Assign) and isinstance(a.targets[0], ast.Attribute) and a.targets[0].attr == "th" \
                and any(isinstance(x, ast.Attribute) and x.attr == "th_fc_Adj" for x in ast.walk(a.value)):
            h = prog.resolve_call(ic, a.value) if isinstance(a.value, ast.Call) else None
            if hasattr(h, "key"):
                pos = h.params
                bind = {pos[i]: arg for i, arg in enumerate(a.value.args) if i < len(pos)}
                adj = {f for f, arg in bind.items() if any(isinstance(x, ast.Attribute) and x.attr == "th_fc_Adj" for x in ast.walk(arg))}
                cur = {f for f, arg in bind.items() if isinstance(arg, ast.Attribute) and arg.attr == "th"}
                msk = {f: arg for f, arg in bind.items() if isinstance(arg, (ast.Attribute, ast.Name)) and ("fc" in norm(arg).lower()) and f not in adj}
                for b in walk_no_nested(h.node):
                    if isinstance(b, ast.Assign) and isinstance(b.targets[0], ast.Name) and b.targets[0].id in cur \
                            and any(isinstance(x, ast.Name) and x.id in adj for x in ast.walk(b.value)):
                        sites.append((h, b, adj, cur, msk, ic))
            else:
                sites.append((ic, a, None, None, None, ic))
    for fi, a, adj, cur, msk, caller in sites:
        chk.fn(fi.key)
        where = f"{fi.module}:{fi.qualname}"
        flow = flow_of(fi)
        cfg = flow.cfg
        n += 1
        construct = norm(a)
        v = a.value
        if adj is not None:
            # inside the helper: th = np.where(<mask formal>, <adjusted formal>, th) and the caller's mask is `Prop & isclose(th, th_fc)`
            ok = isinstance(v, ast.Call) and norm(v.func) in ("np.where", "numpy.where") and len(v.args) == 3 and isinstance(v.args[0], ast.Name) and v.args[0].id in msk \
                and isinstance(v.args[1], ast.Name) and v.args[1].id in adj and isinstance(v.args[2], ast.Name) and v.args[2].id in cur
            mask_ok = False
            if ok:
                marg = msk[v.args[0].id]
                # definition of the mask in the caller: a comparison of the requested content with the field capacity
                for b in walk_no_nested(caller.node):
                    if isinstance(b, ast.Assign) and norm(b.targets[0]) == norm(marg):
                        reads_th = any(isinstance(x, ast.Attribute) and x.attr == "th" for x in ast.walk(b.value))
                        reads_fc = any(isinstance(x, ast.Attribute) and x.attr == "th_fc" for x in ast.walk(b.value))
                        cmp_ = any(isinstance(x, ast.Compare) or (isinstance(x, ast.Call) and norm(x.func) in ("np.isclose", "numpy.isclose", "np.equal")) for x in ast.walk(b.value))
                        mask_ok = reads_th and reads_fc and cmp_
            if ok and mask_ok:
                chk.ok(rule, where, construct, "elementwise: only compartments whose request was their field capacity take the adjusted value (mask built by the caller)")
            else:
                chk.violation(rule, where, construct, "the adjusted field capacity does not replace the requested content elementwise under a `th compared with th_fc` mask: "
                              "requests other than field capacity are overridden as soon as a water table is present, however deep", loc=fi.loc(a))
            continue
        ok, why = False, "the whole initial profile is replaced by the adjusted field capacity"
        if isinstance(v, ast.Call) and norm(v.func) in ("np.where", "numpy.where") and len(v.args) == 3:
            adj_ok = any(isinstance(x, ast.Attribute) and x.attr == "th_fc_Adj" for x in ast.walk(v.args[1]))
            keep_ok = isinstance(v.args[2], ast.Attribute) and v.args[2].attr == "th"
            mask = v.args[0]
            if isinstance(mask, ast.Name):
                nid = flow.stmt_node.get(id(a))
                ds = [cfg.nodes[d].ast for d in flow.defs_reaching(mask.id, nid) if d != ENTRY]
                mask = ds[0].value if len(ds) == 1 and isinstance(ds[0], ast.Assign) else None
            reads_th = mask is not None and any(isinstance(x, ast.Attribute) and x.attr == "th" for x in ast.walk(mask))
            reads_fc = mask is not None and any(isinstance(x, ast.Attribute) and x.attr == "th_fc" for x in ast.walk(mask))
            is_cmp = mask is not None and (isinstance(mask, ast.Compare) or (isinstance(mask, ast.Call) and norm(mask.func) in ("np.isclose", "numpy.isclose", "np.equal")))
            ok = adj_ok and keep_ok and reads_th and reads_fc and is_cmp
            why = "the selection is not `where(th compared with th_fc, adjusted, th)`"
        if ok:
            chk.ok(rule, where, construct, "elementwise: only compartments at their field capacity take the adjusted value; other requests are kept")
        else:
            chk.violation(rule, where, construct, why + ": requests other than field capacity (wilting point in layer 1, FC in layer 2) are overridden as soon as a "
                          "water table is present, however deep - and th becomes the same array object as th_fc_Adj", loc=fi.loc(a))
    chk.floor(rule, n, 1, "stores of the initial water content from the adjusted field capacity")


def rule_m(chk, prog):
    """C18.m (the requested value of each depth point / layer comes from that point's own layer): in the loops of the initial-conditions
    routine that evaluate a request point by point, the layer used to look up the hydraulic properties (`hydf.loc[layer]`) is defined in
    the same iteration on every path to the lookup - no definition from before the loop or from the previous iteration can reach it (a
    default hoisted out of the loop, or a branch that assigns the layer on one side only, leaves the previous point's layer in force)."""
    from ..rdef import flow_of
    fi = prog.find_func("read_model_initial_conditions")
    flow = flow_of(fi)
    cfg = flow.cfg
    where = f"{fi.module}:{fi.qualname}"
    chk.fn(fi.key)
    n = 0
    for loop in walk_no_nested(fi.node):
        if not isinstance(loop, ast.For):
            continue
        head = next((k for k in cfg.live_nodes() if k.kind == "for" and k.ast is loop), None)
        if head is None:
            continue
        body_entries = [t for t, l in head.succs if l == "body"]
        for x in ast.walk(loop):
            if not (isinstance(x, ast.Subscript) and isinstance(x.value, ast.Attribute) and x.value.attr in ("loc", "iloc") and isinstance(x.slice, ast.Name)
                    and isinstance(x.ctx, ast.Load)):
                continue
            L = x.slice.id
            if L == getattr(loop.target, "id", None):
                # the per-layer hydrology table looked up by the position of the request in the list instead of the layer it names
                if isinstance(x.value.value, ast.Name) and any(isinstance(y, ast.Subscript) and isinstance(y.value, ast.Attribute) and y.value.attr == "loc"
                                                               and norm(y.value.value) == norm(x.value.value) and isinstance(y.slice, ast.Name)
                                                               and y.slice.id != L and "layer" in y.slice.id.lower() for y in ast.walk(fi.node)):
                    n += 1
                    chk.violation("C18.m", where, f"{norm(x)} in `for {norm(loop.target)} in {norm(loop.iter)[:40]}`",
                                  f"the per-layer table `{norm(x.value.value)}` is looked up by the position of the request in the list, not by the layer the request names: "
                                  "requests not listed as layers 1, 2, ... take another layer's properties", loc=fi.loc(x))
                continue                                  # indexed by the loop variable itself
            at = flow.node_of(x)
            if at is None:
                continue
            body_defs = {flow.stmt_node.get(id(a)) for a in ast.walk(loop) if isinstance(a, ast.Assign) and any(isinstance(t, ast.Name) and t.id == L for t in a.targets)}
            body_defs.discard(None)
            if not body_defs:
                continue                                  # constant over the loop: not a per-point lookup
            n += 1
            construct = f"{norm(x)} in `for {norm(loop.target)} in {norm(loop.iter)[:40]}`"
            stale = any(b not in body_defs and cfg.paths_exist_avoiding(b, at, body_defs) for b in body_entries) or any(b == at for b in body_entries)
            if stale:
                chk.violation("C18.m", where, construct, f"a path through the loop body reaches this lookup without defining `{L}` in the same iteration: the layer of the previous "
                              "point (or a default set before the loop) is used - the value of a point at or below the profile bottom comes from another layer's properties",
                              loc=fi.loc(x))
            else:
                chk.ok("C18.m", where, construct, f"`{L}` is defined in the same iteration on every path to the lookup")
    chk.floor("C18.m", n, 4, "per-point layer lookups in the initial-conditions loops")


def run(chk, prog, tier):
    rule_m(chk, prog)
    from ._args import arg_swaps
    from ..common import INIT_ROOT
    chk.floor("C18.l", arg_swaps(chk, prog, "C18.l", set(prog.reachable_from(INIT_ROOT)) | {k for k, f in prog.funcs.items() if f.cls == "Soil"}), 15,
              "positional calls of repository functions in initialisation and the Soil class")
    rule_a(chk, prog)
    rule_b(chk, prog)
    rule_c(chk, prog)
    rule_d(chk, prog)
    rule_e(chk, prog)
    rule_f(chk, prog)
    rule_g(chk, prog)
    rule_h(chk, prog)
    rule_j(chk, prog)
    rule_k(chk, prog)
    from ._siblings import interp_sorted
    chk.floor("C18.i", interp_sorted(chk, prog, "C18.i", "read_model_initial_conditions"), 1, "interpolations of the initial water content")
    chk.assume("A-1")
