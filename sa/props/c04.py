"""C04 - fluxes non-negative, actual <= potential (structural clauses only)."""
from __future__ import annotations
import ast
from ..absint import Interp, Const, Sgn, sign_of, TOP, Obj
from ..cp import StepCP, is_zero, batch, row_writers, step_local
from ..flags import DOMAINS
from ..da import local_literal_domains
from ..effects import stores
from ..common import step_roles, init_roles, STEP_FN
from ..model import norm

EXPLANATION = (
    "C04.a: interprocedural constant propagation of the daily step with growing_season=False shows the constants "
    "reaching the Tr, TrPot and IrrDay columns are 0. C04.b: sign abstract interpretation (values >=0 / <=0 / constants, "
    "order facts on differences) of the step for each irrigation method 0..5 proves the applied irrigation depth that "
    "reaches the IrrDay column is >= 0 on every path. C04.c: every writer of the micro-advection-adjusted canopy cover "
    "(the factor (1 - CC*) of potential soil evaporation) leaves it <= 1 on every exit path (abstract interpretation "
    "with order facts). C04.d: the submergence factor 1 - day_submerged/LagAer that scales surface transpiration is computed "
    "only where the order facts give day_submerged <= LagAer (strict guard before the integer increment), so it is >= 0. C04.e: the net-irrigation refill raises (or lowers) each compartment towards the threshold of its own layer - "
    "the per-layer threshold is recomputed from the compartment's own wilting point / field capacity at every layer change and the "
    "root-zone-average threshold computed before the loop cannot reach the refill (reaching definitions + the layer-change idiom) - "
    "the structural half of the non-negativity of the net requirement. C04.f: every definition of the curve number reaching the retention formula S = 25400/cn - 254 is clamped to constants 0 < lo <= cn <= up <= 100, so S >= 0 is finite and 0 <= runoff <= rain. C04.g (structural half of Es <= EsPot): soil_evaporation's demand ledger - remaining demand + actual evaporation is invariant from its definition to the return (linear template), and every stage potential is defined as min(remaining demand, .) or as a per-sub-step fraction of it. C04.h (structural half of Tr <= TrPot): the root-extraction loop's ledger - remaining demand + actual transpiration invariant through the loop (induction), and the per-compartment sink taken off the ledger has passed the cap against the remaining demand expressed as a water content of the same compartment (later definitions only lower it). C04.i (structural half of DeepPerc >= 0): every comparison in drainage that involves a field capacity uses the adjusted field capacity of the day; the plain value appears in arithmetic only. C04.j = C03.h (the two evaporation extraction loops agree; without the clamp of negative available water the actual evaporation goes negative). C04.k: extraction amounts (added to the evaporation total and taken off the compartment's water) are non-negative on every path into the block. C04.l: the three logistic stress curves (cold stress on transpiration, heat / cold stress on pollination) are evaluated only after their argument was compared with both ends of its interval. C04.m (= T-TIME): no mixture of calendar days and growing degree days (the canopy-ageing counter that lowers the crop coefficient by a per-day rate counts days, never degree days). C04.n (a rule the code follows at every instance): a comparison between elements of per-compartment arrays (water contents, hydraulic properties) carries one index expression - a content is never tested against another compartment's property. NOT decided: the numeric inequalities themselves, non-negativity of DeepPerc / CR / GwIn / Runoff / Es "
    "(numeric, depend on run-time water contents).")


_COMP_PROPS = ("th_wp", "th_fc", "th_s", "th_dry", "th_fc_Adj", "Ksat", "tau")


def rule_n(chk, prog):
    """C04.n (a rule the code follows at every instance): a comparison between elements of per-compartment arrays - water contents and
    hydraulic properties - compares values of ONE compartment: all such subscripts in a comparison carry the same index expression
    (`th[i] <= th_wp[i]`). A guard that tests a compartment's content against another compartment's property (`th_wp[-1]`, the bottom one)
    lets, in a layered soil, a content below its own wilting point through to a formula that then turns negative (capillary rise)."""
    from ..common import step_roles
    from ..model import walk_no_nested
    roles = step_roles(prog)
    n = 0
    for key in sorted(roles.reached):
        fi = prog.funcs[key]
        where = f"{fi.module}:{fi.qualname}"
        for c in walk_no_nested(fi.node):
            if not isinstance(c, ast.Compare):
                continue
            idx = {}
            for x in ast.walk(c):
                if isinstance(x, ast.Subscript) and isinstance(x.ctx, ast.Load) and not isinstance(x.slice, ast.Slice):
                    last = norm(x.value).split(".")[-1]
                    if last in _COMP_PROPS or last.lower() in ("th", "thnew", "th_init") or last.lower().endswith("_th"):
                        idx.setdefault(norm(x.slice), []).append(norm(x))
            if sum(len(v) for v in idx.values()) < 2:
                continue
            n += 1
            chk.fn(key)
            construct = norm(c)[:100]
            if len(idx) == 1:
                chk.ok("C04.n", where, construct, f"one compartment: [{next(iter(idx))}]")
            else:
                chk.violation("C04.n", where, construct, "the comparison mixes compartments: " + "; ".join(f"[{k}]: {', '.join(sorted(set(v)))}" for k, v in sorted(idx.items()))
                              + " - a content is tested against another compartment's property", loc=fi.loc(c))
    chk.floor("C04.n", n, 8, "comparisons between elements of per-compartment arrays below the daily step")


def run(chk, prog, tier):
    rule_n(chk, prog)
    from ._timeunits import time_units
    from ..common import STEP_FN as _STEP, RESET_FN as _RESET
    chk.floor("C04.m", time_units(chk, prog, "C04.m", set(prog.reachable_from(_STEP)) | set(prog.reachable_from(_RESET)) | {_STEP}), 120,
              "expressions and stores carrying a time unit below the daily step and the season reset")
    # ---------------------------------------------------------------- C04.a / C04.b (one batch, parallel)
    configs = [{}] + [{"IrrMngt.irrigation_method": m} for m in range(6)]
    irr_name = step_local(prog, "irr")
    res = batch(prog, configs, want_locals=[irr_name])
    base = res[0]
    step_key = STEP_FN
    chk.fn(step_key)
    writer_loc = prog.func(STEP_FN).loc(row_writers(prog)["water_flux"])
    rows = base.rows["water_flux"][False]
    chk.floor("C04.a", len(rows), 1, "partitions of the row writer with growing_season=False")
    for col in ("Tr", "TrPot", "IrrDay"):
        for r in rows:
            v = r[col]
            if is_zero(v):
                chk.ok("C04.a", step_key, f"water_flux.{col} | growing_season=False", f"constant {v}")
            else:
                chk.violation("C04.a", step_key, f"water_flux.{col} | growing_season=False",
                              f"value reaching column {col} outside a growing season is {v}, not the constant 0",
                              loc=writer_loc)
    chk.valuation("growing_season=False")
    for c in base.calls:
        chk.callsite(c)

    for m, r in zip(range(6), res[1:]):
        chk.valuation(f"irrigation_method={m}")
        parts = r.locals[True]
        if not parts:
            chk.error(f"C04.b: no in-season partition for irrigation_method={m}")
            continue
        for loc in parts:
            v = loc[irr_name]
            sg = sign_of(v)
            construct = f"Irr reaching the row | irrigation_method={m}"
            if sg in ("+", "0"):
                chk.ok("C04.b", step_key, construct, f"abstract value {v}")
            else:
                chk.violation("C04.b", step_key, construct,
                              f"the irrigation depth is not provably >= 0 (abstract value {v}): a max(0, .) clamp or the "
                              f"non-negative seasonal cap is missing on some path", loc=writer_loc)

    # ---------------------------------------------------------------- C04.c
    # producers of canopy_cover_adj / canopy_cover_adj_ns: every function that stores the field
    producers = {}
    for key, fi in prog.funcs.items():
        if fi.name == "__init__":
            continue
        for st in stores(prog, fi, None):
            if st.kind == "attr" and st.field in ("canopy_cover_adj", "canopy_cover_adj_ns"):
                producers.setdefault(key, set()).add(st.field)
    ci = prog.cls("InitialCondition")
    for f in ("canopy_cover_adj", "canopy_cover_adj_ns"):
        if f not in ci.init_fields:
            chk.error(f"C04.c: InitialCondition has no field {f}")
    chk.floor("C04.c", len(producers), 2, "functions writing canopy_cover_adj")
    for key, fields in sorted(producers.items()):
        fi = prog.funcs[key]
        chk.fn(key)
        it = Interp(prog, fi, domains=DOMAINS, local_domains=local_literal_domains(fi), part_key="bound").run()
        exits = it.in_states.get(it.cfg.exit, [])
        for field in sorted(fields):
            # which parameter object carries the field: any Obj whose heap/PA mentions it
            ok_all, detail = True, []
            for p in exits:
                cands = {k[0] for k in p.heap if k[1] == field}
                for t in p.pa.terms():
                    if t.endswith("." + field) and t.startswith("@"):
                        cands.add(t)
                found = False
                for name, (val, _) in p.env.items():
                    if isinstance(val, Obj):
                        hv = p.heap.get((val.oid, field))
                        term = f"@{val.oid}.{field}"
                        rel = p.pa.get(term, "#1")
                        if hv is not None and isinstance(hv, Const):
                            found = True
                            good = isinstance(hv.v, (int, float)) and hv.v <= 1
                            detail.append(f"{hv}")
                        elif rel != frozenset("<=>"):
                            found = True
                            good = rel <= frozenset("<=")
                            detail.append("rel to 1: " + "".join(sorted(rel)))
                        else:
                            continue
                        if not good:
                            ok_all = False
                        break
                if not found:
                    # the field is written in this function but nothing is known about it at this exit
                    # (only a violation if some path of this partition wrote it)
                    ok_all = False
                    detail.append("unbounded at an exit")
            construct = f"{field} <= 1 at every exit"
            where = f"{fi.module}:{fi.qualname}"
            if ok_all and exits:
                chk.ok("C04.c", where, construct, "; ".join(sorted(set(detail))))
            else:
                chk.violation("C04.c", where, construct,
                              f"{field} (factor (1 - CC*) of potential soil evaporation / CC* of potential transpiration) "
                              f"is not bounded by 1 on every path: {'; '.join(sorted(set(detail)))}",
                              loc=fi.loc())
    rule_d(chk, prog)
    # ---------------------------------------------------------------- C04.e
    # the net-irrigation requirement sum_j RootFact[j]*(thCrit_j - th[j])*1000*dz[j] is >= 0 (up to the root-zone rounding) because the
    # refill is triggered by the root-zone averages of the very same per-layer thresholds: every compartment must be refilled towards
    # its own layer's threshold, never towards the root-zone average or another layer's
    from .c03 import rule_d as own_thresholds
    own_thresholds(chk, prog, rule="C04.e", only={"transpiration"}, floor=1)
    rule_f(chk, prog)
    rule_g(chk, prog)
    rule_h(chk, prog)
    rule_i(chk, prog)
    from ._siblings import evap_stage_agreement
    evap_stage_agreement(chk, prog, "C04.j")
    rule_k(chk, prog)
    rule_l(chk, prog)
    chk.assume("A-1")
    chk.exhaustive = True


def rule_f(chk, prog):
    """C04.f: runoff >= 0 and <= rain needs a non-negative retention S = 25400/cn - 254, i.e. cn <= 100: every definition of the curve
    number that reaches the retention formula is a min / max nest with constant bounds 0 < lower and upper <= 100 (F24, F41)"""
    from ..rdef import flow_of, ENTRY
    from ..model import walk_no_nested
    rp = prog.find_func("rainfall_partition")
    chk.fn(rp.key)
    where = f"{rp.module}:{rp.qualname}"
    flow = flow_of(rp)
    n = 0
    for a in walk_no_nested(rp.node):
        if not isinstance(a, ast.Assign):
            continue
        for d in ast.walk(a.value):
            if isinstance(d, ast.BinOp) and isinstance(d.op, ast.Div) and isinstance(d.left, ast.Constant) and d.left.value == 25400 \
                    and isinstance(d.right, ast.Name):
                n += 1
                nid = flow.stmt_node[id(a)]
                cn = d.right.id
                for dd in flow.defs_reaching(cn, nid):
                    da = flow.cfg.nodes[dd].ast if dd != ENTRY else None
                    construct = f"{norm(da)[:70] if da is not None else cn + ' (parameter)'} reaches `{norm(a)[:40]}`"
                    v = da.value if isinstance(da, ast.Assign) else None
                    def _bounds(e):
                        """(lower, upper) constant bounds of a min / max nest over constants, None where unknown"""
                        if isinstance(e, ast.Constant) and isinstance(e.value, (int, float)) and not isinstance(e.value, bool):
                            return e.value, e.value
                        if isinstance(e, ast.Call) and isinstance(e.func, ast.Name) and e.func.id in ("min", "max") and e.args:
                            bs = [_bounds(x) for x in e.args]
                            los = [b[0] for b in bs]
                            ups = [b[1] for b in bs]
                            if e.func.id == "min":
                                lo = None if any(x is None for x in los) else min(los)
                                up = min([x for x in ups if x is not None], default=None)
                            else:
                                lo = max([x for x in los if x is not None], default=None)
                                up = None if any(x is None for x in ups) else max(ups)
                            return lo, up
                        return None, None
                    lo, up = _bounds(v) if v is not None else (None, None)
                    if up is not None and up <= 100 and lo is not None and lo > 0:
                        chk.ok("C04.f", where, construct, f"curve number limited to [{lo}, {up}]: retention S >= 0 and finite")
                    elif up is None or up > 100:
                        chk.violation("C04.f", where, construct, "the curve number that enters the retention S = 25400/cn - 254 is not limited to 100: a positive "
                                      "field-management adjustment makes S negative and the runoff negative or larger than the rain",
                                      loc=rp.loc(da) if da is not None else rp.loc())
                    else:
                        chk.violation("C04.f", where, construct, "the curve number that enters the retention S = 25400/cn - 254 has no positive lower bound: an adjustment of "
                                      "-100 % (or a rounded moisture-adjusted value on a dry top soil) gives 0 and the division raises ZeroDivisionError",
                                      loc=rp.loc(da) if da is not None else rp.loc())
    chk.floor("C04.f", n, 1, "retention formulas 25400 / cn")


def rule_g(chk, prog):
    """C04.g (actual soil evaporation never exceeds potential - the structural half): soil_evaporation keeps a demand ledger
    R = EsPot - EsAct ('water still to extract').
      (1) linear template R + EsAct is invariant from R's definition to the return, on every path: every increment of the actual
          evaporation is taken off the remaining demand and vice versa;
      (2) every stage potential (a local decremented in lockstep with R) is, where it is defined, bounded by R: min(R, .) with R's
          normal form, or a product containing R / <number of sub-steps> as a factor."""
    from .. import affine as A
    from ..symb import Sym
    from ..rdef import flow_of, ENTRY
    from ..model import walk_no_nested, AnalysisError
    from ..common import STEP_FN
    from ..cp import step_local
    se = prog.find_func("soil_evaporation")
    chk.fn(se.key)
    where = f"{se.module}:{se.qualname}"
    step = prog.func(STEP_FN)
    call = [c for c, t in prog.calls_in(step) if getattr(t, "key", None) == se.key][0]
    tg = [n.targets[0].elts for n in walk_no_nested(step.node) if isinstance(n, ast.Assign) and n.value is call and isinstance(n.targets[0], ast.Tuple)][0]
    L_es, L_pot = step_local(prog, "col:Es"), step_local(prog, "col:EsPot")
    pos_es = next(i for i, t in enumerate(tg) if isinstance(t, ast.Name) and t.id == L_es)
    pos_pot = next(i for i, t in enumerate(tg) if isinstance(t, ast.Name) and t.id == L_pot)
    ret = [r for r in walk_no_nested(se.node) if isinstance(r, ast.Return)]
    if len(ret) != 1 or not isinstance(ret[0].value, ast.Tuple):
        raise AnalysisError("soil_evaporation: expected a single tuple return")
    E, P = ret[0].value.elts[pos_es], ret[0].value.elts[pos_pot]
    if not (isinstance(E, ast.Name) and isinstance(P, ast.Name)):
        raise AnalysisError("soil_evaporation: returned actual / potential evaporation are not plain locals")
    E, P = E.id, P.id
    # the ledger R: R = P - E
    rdefs = [a for a in walk_no_nested(se.node) if isinstance(a, ast.Assign) and isinstance(a.targets[0], ast.Name) and isinstance(a.value, ast.BinOp)
             and isinstance(a.value.op, ast.Sub) and norm(a.value.left) == P and norm(a.value.right) == E]
    if len(rdefs) != 1:
        chk.violation("C04.g", where, f"remaining demand = {P} - {E}", "the remaining evaporative demand is no longer defined as potential minus actual: the "
                      "extraction stages are not limited by the potential", loc=se.loc())
        return
    R = rdefs[0].targets[0].id
    flow = flow_of(se)
    base = Sym(prog, se)
    r_nid = base.cfg.node_of(rdefs[0]).id
    # the template restarts *after* the definition: use the successor node(s)
    succ = [t for t, _ in base.cfg.nodes[r_nid].succs]
    sym = Sym(prog, se, templates={"L": {R: 1, E: 1}}, reset_at={"L": succ[0]})
    start = sym.template_at("L", succ[0])
    # (1)
    for n, st in sym.at_return():
        t = st.tmpl.get("L")
        want = sym.state_in[succ[0]]
        ref = A.add(want.env.get(R, A.atom(R)), want.env.get(E, A.atom(E)))
        construct = f"{R} + {E} invariant from `{norm(rdefs[0])}` to the return"
        if t is not None and A.equal(t, ref):
            chk.ok("C04.g", where, construct, "template value unchanged on every path")
        else:
            chk.violation("C04.g", where, construct, "an increment of the actual evaporation is not taken off the remaining demand (or the demand is reduced "
                          f"without evaporating): template {'differs between paths' if t is None else A.text(t)[:80]} vs {A.text(ref)[:60]}; the extraction can "
                          "exceed the potential", loc=se.loc(n.ast))
    # (2) stage potentials: locals V with statements V = V - x in a block that also has R = R - x
    stage = set()
    for a in walk_no_nested(se.node):
        if isinstance(a, ast.Assign) and isinstance(a.targets[0], ast.Name) and isinstance(a.value, ast.BinOp) and isinstance(a.value.op, ast.Sub) \
                and isinstance(a.value.left, ast.Name) and a.value.left.id == a.targets[0].id and a.targets[0].id not in (R, E):
            nid = flow.stmt_node.get(id(a))
            x = norm(a.value.right)
            for b in walk_no_nested(se.node):
                if isinstance(b, ast.Assign) and isinstance(b.targets[0], ast.Name) and b.targets[0].id == R and isinstance(b.value, ast.BinOp) \
                        and isinstance(b.value.op, ast.Sub) and norm(b.value.left) == R and norm(b.value.right) == x \
                        and flow.cfg.control_deps().get(flow.stmt_node.get(id(b))) == flow.cfg.control_deps().get(nid):
                    stage.add(a.targets[0].id)
    # a stage potential is what its extraction loop runs down: it appears in a while test
    in_while = {x.id for w in walk_no_nested(se.node) if isinstance(w, ast.While) for x in ast.walk(w.test) if isinstance(x, ast.Name)}
    stage &= in_while
    chk.floor("C04.g-stages", len(stage), 2, "stage potentials decremented in lockstep with the remaining demand")
    for V in sorted(stage):
        for a in walk_no_nested(se.node):
            if not (isinstance(a, ast.Assign) and isinstance(a.targets[0], ast.Name) and a.targets[0].id == V):
                continue
            v = a.value
            if isinstance(v, ast.BinOp) and isinstance(v.op, ast.Sub) and isinstance(v.left, ast.Name) and v.left.id == V:
                continue            # lockstep decrement
            if isinstance(v, ast.Constant) and v.value == 0:
                continue
            node = sym.cfg.node_of(a)
            st = sym.state_in.get(node.id) if node is not None else None
            construct = f"{norm(a)[:80]} bounded by the remaining demand {R}"
            if st is None:
                continue
            rnf = sym.nf(ast.Name(id=R, ctx=ast.Load()), st)
            ok, why = False, ""
            if isinstance(v, ast.Call) and isinstance(v.func, ast.Name) and v.func.id == "min":
                if any(A.equal(sym.nf(x, st), rnf) for x in v.args):
                    ok, why = True, f"min({R}, .)"
                else:
                    why = f"no argument of {norm(v)} is the remaining demand ({A.text(rnf)[:60]})"
            else:
                # product with R / n as a factor: the normal form of v is divisible by R's (single-atom) normal form
                vn = sym.nf(v, st)
                ratoms = {x for m in rnf for x, _ in m}
                if len(rnf) == 1 and vn and all(all(dict(m).get(x, 0) >= 1 for x in ratoms) for m in vn):
                    ok, why = True, f"a fraction of {R} per sub-step"
                elif vn and ratoms and all(any(x in dict(m) for x in ratoms) for m in vn) and len(rnf) == 1:
                    ok, why = True, f"a fraction of {R} per sub-step"
                else:
                    # through a local defined as R / n
                    names = [x.id for x in ast.walk(v) if isinstance(x, ast.Name)]
                    for nm in names:
                        for d in flow.defs_reaching(nm, flow.stmt_node[id(a)]):
                            da = flow.cfg.nodes[d].ast if d != ENTRY else None
                            if isinstance(da, ast.Assign) and isinstance(da.value, ast.BinOp) and isinstance(da.value.op, ast.Div) and norm(da.value.left) == R:
                                ok, why = True, f"{nm} = {norm(da.value)} times a reduction coefficient"
                    if not ok:
                        why = f"`{norm(v)[:60]}` is not derived from the remaining demand"
            if ok:
                chk.ok("C04.g", where, construct, why)
            else:
                chk.violation("C04.g", where, construct, f"a stage of the evaporation may extract more than what is left of the potential: {why}", loc=se.loc(a))


def rule_h(chk, prog):
    """C04.h (structural half of Tr <= TrPot): the root-extraction loop of transpiration keeps a demand ledger R (`ToExtract`), started at
    the stress-adjusted potential with the actual transpiration at 0.
      (1) R + TrAct is invariant through the loop (linear template, induction over the loop);
      (2) the per-compartment sink that is taken off the ledger has passed the cap `demand as water content < sink -> sink = demand`,
          where the demand as water content is R / (1000 * dz[comp]) of the same compartment; later definitions only lower it."""
    from .. import affine as A
    from ..symb import Sym
    from ..rdef import flow_of, ENTRY
    from ..model import walk_no_nested, AnalysisError
    tr = prog.find_func("transpiration")
    chk.fn(tr.key)
    where = f"{tr.module}:{tr.qualname}"
    flow = flow_of(tr)
    cfg = flow.cfg
    # ledger: the while loop `while (R > 0) and ...` whose body has R = R - x and T = T + x
    loops = [w for w in walk_no_nested(tr.node) if isinstance(w, ast.While)]
    found = None
    for w in loops:
        names = [c.left.id for c in ast.walk(w.test) if isinstance(c, ast.Compare) and isinstance(c.left, ast.Name) and isinstance(c.ops[0], ast.Gt)
                 and isinstance(c.comparators[0], ast.Constant) and c.comparators[0].value == 0]
        for R in names:
            dec = [a for b in w.body for a in ast.walk(b) if isinstance(a, ast.Assign) and isinstance(a.targets[0], ast.Name) and a.targets[0].id == R
                   and isinstance(a.value, ast.BinOp) and isinstance(a.value.op, ast.Sub) and norm(a.value.left) == R]
            for d in dec:
                x = norm(d.value.right)
                inc = [a for b in w.body for a in ast.walk(b) if isinstance(a, ast.Assign) and isinstance(a.targets[0], ast.Name)
                       and isinstance(a.value, ast.BinOp) and isinstance(a.value.op, ast.Add) and norm(a.value.left) == a.targets[0].id and norm(a.value.right) == x]
                if inc:
                    found = (w, R, inc[0].targets[0].id, d, inc[0])
    if found is None:
        chk.violation("C04.h", where, "root-extraction demand ledger", "no loop in transpiration takes the extracted water off a remaining-demand variable and "
                      "adds the same amount to the actual transpiration: the extraction is not limited by the potential", loc=tr.loc())
        return
    w, R, T, dec, inc = found
    base = Sym(prog, tr)
    head = base.cfg.node_of(w)          # loop head / first test
    wtests = [n for n in base.cfg.live_nodes() if n.kind == "test" and n.stmt is w]
    first = min(wtests, key=lambda n: n.id) if wtests else None
    sym = Sym(prog, tr, templates={"L": {R: 1, T: 1}})
    # (1) value of the template at the statements right after the loop equals its value at loop entry
    entry_vals, exit_vals = [], []
    for n in sym.cfg.live_nodes():
        if n.kind == "test" and n.stmt is w and n.id in sym.state_in:
            entry_vals.append(sym.state_in[n.id].tmpl.get("L"))
    after = [n for n in sym.cfg.live_nodes() if n.id in sym.state_in and isinstance(n.ast, ast.stmt) and getattr(n.ast, "lineno", 0) > w.end_lineno]
    nxt = min(after, key=lambda n: n.ast.lineno) if after else None
    construct = f"{R} + {T} invariant through the root-extraction loop"
    tv = sym.state_in[nxt.id].tmpl.get("L") if nxt is not None else None
    if tv is not None and entry_vals and all(v is not None and A.equal(v, tv) for v in entry_vals):
        chk.ok("C04.h", where, construct, "template preserved by the loop body (induction) on every path")
    else:
        chk.violation("C04.h", where, construct, "water taken from a compartment is not taken off the remaining demand by the same amount (or the other way round): "
                      "the actual transpiration can exceed the potential", loc=tr.loc(dec))
    # (2) the sink
    x_names = [v.id for v in ast.walk(dec.value.right) if isinstance(v, ast.Name)]
    use = flow.stmt_node[id(dec)]
    sink = None
    for nm in x_names:
        ds = flow.defs_reaching(nm, use)
        if len(ds) > 2:
            sink = nm
    if sink is None:
        raise AnalysisError("transpiration: cannot identify the per-compartment sink")
    # demand as water content: D = R / 1000 / dz[comp] (normal form check R == D * 1000 * dz)
    caps = [n for n in cfg.live_nodes() if n.kind == "test" and isinstance(n.ast, ast.Compare) and len(n.ast.ops) == 1
            and ((isinstance(n.ast.ops[0], ast.Lt) and norm(n.ast.comparators[0]) == sink and isinstance(n.ast.left, ast.Name))
                 or (isinstance(n.ast.ops[0], ast.Gt) and norm(n.ast.left) == sink and isinstance(n.ast.comparators[0], ast.Name)))]
    good_caps = set()
    for t in caps:
        D = n_ = (t.ast.left.id if isinstance(t.ast.ops[0], ast.Lt) else t.ast.comparators[0].id)
        assigns = [d for d in cfg.live_nodes() if isinstance(d.ast, ast.Assign) and isinstance(d.ast.targets[0], ast.Name) and d.ast.targets[0].id == sink
                   and norm(d.ast.value) == D and (t.id, True) in cfg.control_deps().get(d.id, set())]
        if not assigns:
            continue
        # D's definition: R converted to a water content with the thickness of the compartment whose thickness also scales the ledger update
        dd = [cfg.nodes[k].ast for k in flow.defs_reaching(D, t.id) if k != ENTRY]
        def dz_index(e):
            idx = {norm(x.slice) for x in ast.walk(e) if isinstance(x, ast.Subscript) and isinstance(x.value, ast.Attribute) and x.value.attr == "dz"}
            return idx.pop() if len(idx) == 1 else None
        if len(dd) == 1 and isinstance(dd[0], ast.Assign):
            v = dd[0].value
            has_R = any(isinstance(x, ast.Name) and x.id == R for x in ast.walk(v))
            has_1000 = any(isinstance(x, ast.Constant) and x.value == 1000 for x in ast.walk(v))
            is_div = isinstance(v, ast.BinOp) and isinstance(v.op, ast.Div)
            if has_R and has_1000 and is_div and dz_index(v) is not None and dz_index(v) == dz_index(dec.value.right):
                good_caps.add(t.id)
    construct = f"{sink} limited to the remaining demand before `{norm(dec)[:60]}`"
    if not good_caps:
        chk.violation("C04.h", where, construct, "the per-compartment sink is never compared with the remaining demand expressed as a water content of the same "
                      "compartment: more than the potential can be extracted", loc=tr.loc(dec))
        return
    n = 0
    for d in flow.defs_reaching(sink, use):
        da = cfg.nodes[d].ast if d != ENTRY else None
        n += 1
        cons = f"{norm(da)[:70] if da is not None else sink} reaches the ledger update"
        if da is None:
            chk.violation("C04.h", where, cons, "the sink is a parameter", loc=tr.loc())
            continue
        cds = cfg.control_deps().get(d, set())
        if any((t, True) in cds for t in good_caps):
            chk.ok("C04.h", where, cons, "the cap itself")
        elif not cfg.paths_exist_avoiding(d, use, good_caps):
            chk.ok("C04.h", where, cons, "passes the cap before the update")
        else:
            # definitions after the cap may only lower the sink: `S = a - b` under `(a - S) < b`, or `S = 0` under `S < 0`
            lowering = False
            v = da.value
            for t, l in cds:
                c = cfg.nodes[t].ast
                if cfg.nodes[t].kind == "test" and isinstance(c, ast.Compare) and len(c.ops) == 1 and l is True and isinstance(c.ops[0], ast.Lt):
                    if isinstance(v, ast.Constant) and v.value == 0 and norm(c.left) == sink and isinstance(c.comparators[0], ast.Constant) and c.comparators[0].value == 0:
                        lowering = True
                    if isinstance(v, ast.BinOp) and isinstance(v.op, ast.Sub) and isinstance(c.left, ast.BinOp) and isinstance(c.left.op, ast.Sub) \
                            and norm(c.left.left) == norm(v.left) and norm(c.left.right) == sink and norm(c.comparators[0]) == norm(v.right):
                        lowering = True
            # nested `if S < 0: S = 0` sits under the air-dry test as well
            if not lowering and isinstance(v, ast.Constant) and v.value == 0:
                lowering = any(cfg.nodes[t].kind == "test" and l is True and norm(cfg.nodes[t].ast) == f"{sink} < 0" for t, l in cfg.transitive_control_deps(d))
            if lowering:
                chk.ok("C04.h", where, cons, "after the cap, only lowers the sink (air-dry limit)")
            else:
                chk.violation("C04.h", where, cons, "this definition reaches the ledger update without passing the comparison with the remaining demand",
                              loc=tr.loc(da))
    chk.floor("C04.h", n, 4, "definitions of the sink reaching the ledger update")


def rule_i(chk, prog):
    """C04.i (deep percolation is non-negative - structural half): in drainage the drainage ability is switched off, and its amount clamped, by
    comparing the water content with the *adjusted* field capacity of the day (th - dthdt >= th_fc_Adj keeps dthdt >= 0). Every comparison
    in drainage that involves a field-capacity quantity uses the adjusted one (the formal fed from the state's th_fc_Adj); the plain
    field capacity of the profile appears in arithmetic only. A test against the plain value lets a compartment between the two enter
    the drainage branch, where the clamp makes dthdt negative: water is created and the cumulative drainage goes negative."""
    from ..rdef import flow_of, ENTRY
    from ..model import walk_no_nested, AnalysisError
    from ..common import STEP_FN
    dr = prog.find_func("drainage")
    chk.fn(dr.key)
    where = f"{dr.module}:{dr.qualname}"
    step = prog.func(STEP_FN)
    call = [c for c, t in prog.calls_in(step) if getattr(t, "key", None) == dr.key][0]
    f_adj = next((dr.params[i] for i, a in enumerate(call.args) if isinstance(a, ast.Attribute) and a.attr == "th_fc_Adj"), None)
    if f_adj is None:
        raise AnalysisError("drainage no longer receives the state's adjusted field capacity")
    flow = flow_of(dr)
    def plain_fc(e, nid):
        """does e denote the profile's (unadjusted) field capacity?"""
        if isinstance(e, ast.Subscript) and isinstance(e.value, ast.Attribute) and e.value.attr == "th_fc":
            return True
        if isinstance(e, ast.Name) and e.id != f_adj:
            ds = flow.defs_reaching(e.id, nid)
            return bool(ds) and all(d != ENTRY and isinstance(flow.cfg.nodes[d].ast, ast.Assign)
                                    and isinstance(flow.cfg.nodes[d].ast.value, ast.Subscript) and isinstance(flow.cfg.nodes[d].ast.value.value, ast.Attribute)
                                    and flow.cfg.nodes[d].ast.value.value.attr == "th_fc" for d in ds)
        return False
    n_adj = 0
    for n in flow.cfg.live_nodes():
        if n.kind != "test" or not isinstance(n.ast, ast.Compare):
            continue
        ops = [n.ast.left] + list(n.ast.comparators)
        if any(any(isinstance(x, ast.Name) and x.id == f_adj for x in ast.walk(o)) for o in ops):
            n_adj += 1
            chk.ok("C04.i", where, norm(n.ast)[:80], "compared with the adjusted field capacity", nontrivial=False)
        bad = [o for o in ops if any(plain_fc(x, n.id) for x in ast.walk(o))]
        if bad:
            chk.violation("C04.i", where, norm(n.ast)[:80], f"a drainage decision compares with the plain field capacity `{norm(bad[0])}` instead of the adjusted one: with a "
                          "shallow water table a compartment between the two drains a negative amount and deep percolation becomes negative", loc=dr.loc(n.ast))
    chk.floor("C04.i", n_adj, 10, "comparisons with the adjusted field capacity in drainage")


def rule_d(chk, prog, rule="C04.d"):
    """the submergence factor 1 - day_submerged / LagAer scales surface transpiration: it is evaluated only where
    day_submerged <= LagAer (order facts; the day counter is an integer: x < t and x := x + 1 give x <= t)"""
    import re
    tr = prog.find_func("transpiration")
    chk.fn(tr.key)
    where = f"{tr.module}:{tr.qualname}"
    it = Interp(prog, tr, domains=DOMAINS, local_domains=local_literal_domains(tr), part_key="facts", maxp=32, integer_counters=True).run()
    found = 0
    for n in it.cfg.live_nodes():
        a = n.ast
        if not (isinstance(a, ast.Assign) and isinstance(a.value, ast.BinOp) and isinstance(a.value.op, ast.Sub)
                and isinstance(a.value.left, ast.Constant) and a.value.left.value == 1
                and isinstance(a.value.right, ast.BinOp) and isinstance(a.value.right.op, ast.Div)):
            continue
        num, den = a.value.right.left, a.value.right.right
        if not (norm(num).endswith("day_submerged") and norm(den).endswith("LagAer")):
            continue
        found += 1
        ok = True
        wit = ""
        for p in it.node_facts.get(n.id, []):
            tn, td = it.term(num, p), it.term(den, p)
            rel = p.pa.get(tn, td) if tn and td else frozenset("<=>")
            if not rel <= frozenset("<="):
                ok = False
                wit = p.pa.describe()[:200]
        construct = norm(a)
        if ok:
            chk.ok(rule, where, construct, "evaluated only where day_submerged <= LagAer: the factor is >= 0")
        else:
            chk.violation(rule, where, construct,
                          "the submergence factor can be negative: nothing establishes day_submerged <= LagAer where it is computed "
                          "(the counter is incremented after a non-strict test), so surface transpiration - and the reported Tr - "
                          "can become negative on ponded fields", loc=tr.loc(a), witness=wit)
    chk.floor(rule, found, 1, "submergence-factor computations")
    chk.assume("A-16")


def _nonneg_expr(e) -> bool:
    """syntactically non-negative: a constant >= 0, max(.., c >= 0, ..), abs(.)"""
    if isinstance(e, ast.Constant) and isinstance(e.value, (int, float)) and not isinstance(e.value, bool):
        return e.value >= 0
    if isinstance(e, ast.Call) and norm(e.func) in ("max", "np.maximum", "np.max") and e.args:
        args = e.args[0].elts if len(e.args) == 1 and isinstance(e.args[0], (ast.List, ast.Tuple)) else e.args
        return any(_nonneg_expr(a) for a in args)
    if isinstance(e, ast.Call) and norm(e.func) in ("abs", "np.abs", "np.absolute"):
        return True
    return False


def rule_k(chk, prog):
    """C04.k (extraction amounts are non-negative): a local `a` that is, in one block, added to a flux accumulator (`E = E + a`) and taken off
    a water depth (`W = W - a`) is an amount of water moved; on every path from each of its definitions to such a block the amount is
    non-negative: the definition is syntactically non-negative (constant >= 0, max(.., 0)), or the path passes an edge that asserts it
    (`a < 0` False with the True branch assigning 0, `a > 0` / `a >= 0` True - a loop test included). A product with a factor of unknown
    sign - the covered fraction of the compartment below the evaporation layer is negative - is not."""
    from ..rdef import flow_of, ENTRY
    from ..model import walk_no_nested
    n = 0
    roles = step_roles(prog)
    for key in sorted(roles.reached):
        fi = prog.funcs[key]
        if fi.name not in ("soil_evaporation",):
            continue
        flow = flow_of(fi)
        cfg = flow.cfg
        where = f"{fi.module}:{fi.qualname}"
        # blocks: consecutive simple statements of one body
        for blk_owner in ast.walk(fi.node):
            for attr in ("body", "orelse"):
                body = getattr(blk_owner, attr, None)
                if not isinstance(body, list):
                    continue
                adds, subs = {}, {}
                for st in body:
                    if isinstance(st, ast.Assign) and isinstance(st.targets[0], ast.Name) and isinstance(st.value, ast.BinOp) \
                            and isinstance(st.value.left, ast.Name) and st.value.left.id == st.targets[0].id and isinstance(st.value.right, ast.Name):
                        (adds if isinstance(st.value.op, ast.Add) else subs if isinstance(st.value.op, ast.Sub) else {}).setdefault(st.value.right.id, st)
                for a in sorted(set(adds) & set(subs)):
                    use = adds[a]
                    un = flow.stmt_node.get(id(use))
                    if un is None:
                        continue
                    n += 1
                    chk.fn(key)
                    bad = []
                    for d in flow.defs_reaching(a, un):
                        if d == ENTRY:
                            bad.append("function entry")
                            continue
                        da = cfg.nodes[d].ast
                        if isinstance(da, ast.Assign) and _nonneg_expr(da.value):
                            continue
                        # edges asserting a >= 0
                        asserting, kills = set(), set()
                        for t in cfg.live_nodes():
                            c = t.ast
                            if t.kind == "test" and isinstance(c, ast.Compare) and len(c.ops) == 1 and isinstance(c.left, ast.Name) and c.left.id == a \
                                    and isinstance(c.comparators[0], ast.Constant) and c.comparators[0].value in (0, 0.0):
                                if isinstance(c.ops[0], (ast.Gt, ast.GtE)):
                                    asserting.add((t.id, True))
                                elif isinstance(c.ops[0], ast.Lt):
                                    asserting.add((t.id, False))
                            if t.id != d and isinstance(c, (ast.Assign, ast.AugAssign)) and any(isinstance(x, ast.Name) and x.id == a for x in ([c.target] if isinstance(c, ast.AugAssign) else c.targets)):
                                kills.add(t.id)
                        # is the use reachable from d without an asserting edge and without a redefinition?
                        seen, stack, reach = set(), [d], False
                        while stack:
                            k = stack.pop()
                            if k in seen:
                                continue
                            seen.add(k)
                            for t, l in cfg.nodes[k].succs:
                                if (k, l) in asserting or t in kills:
                                    continue
                                if t == un:
                                    reach = True
                                stack.append(t)
                        if reach:
                            bad.append(norm(da)[:70])
                    construct = f"{norm(use)} / {norm(subs[a])}"
                    if bad:
                        chk.violation("C04.k", where, construct, f"the amount `{a}` moved out of the compartment can be negative: definition(s) {bad} reach this block on a path "
                                      f"that neither clamps nor tests `{a}` against 0 - actual evaporation is then reduced and water is added to the compartment", loc=fi.loc(use))
                    else:
                        chk.ok("C04.k", where, construct, f"`{a}` is non-negative on every path into the block")
    chk.floor("C04.k", n, 4, "extraction blocks (amount added to the flux and taken off the water depth)")


def _relpos(e):
    """(x, a, b) for e = (x - a)/(b - a) or (b - x)/(b - a) (any of the two endpoints of the denominator in the numerator), else None"""
    if isinstance(e, ast.BinOp) and isinstance(e.op, ast.Div) and isinstance(e.left, ast.BinOp) and isinstance(e.left.op, ast.Sub) \
            and isinstance(e.right, ast.BinOp) and isinstance(e.right.op, ast.Sub):
        p, q, r, s = map(norm, (e.left.left, e.left.right, e.right.left, e.right.right))
        ends = {r, s}
        if len(ends) == 2:
            if q in ends and p not in ends:
                return p, q, (ends - {q}).pop()
            if p in ends and q not in ends:
                return q, p, (ends - {p}).pop()
    return None


def rule_l(chk, prog):
    """C04.l (logistic stress curves are evaluated inside their interval only - sibling rule over the three curves of the package): a stress
    coefficient computed as U*L/(L + (U - L)*exp(-k*r)) takes its argument r from a relative position (x - lo)/(up - lo) (or its mirror); outside
    [lo, up] the curve (and the linear correction added to it) leaves [0, 1] - negative for x < lo. Both endpoints must have been compared
    with x among the tests controlling the evaluation (`x >= up` -> 1, `x <= lo` -> 0, else the curve)."""
    from ..rdef import flow_of, ENTRY
    from ..model import walk_no_nested
    n = 0
    for key, fi in sorted(prog.funcs.items()):
        if ".solution." not in key:
            continue
        flow = None
        for st in walk_no_nested(fi.node):
            if not (isinstance(st, ast.Assign) and isinstance(st.targets[0], ast.Name) and isinstance(st.value, ast.BinOp) and isinstance(st.value.op, ast.Div)):
                continue
            den = st.value.right
            exps = [c for c in ast.walk(den) if isinstance(c, ast.Call) and norm(c.func) in ("np.exp", "numpy.exp", "math.exp", "exp")]
            if not exps or not (isinstance(st.value.left, ast.BinOp) and isinstance(st.value.left.op, ast.Mult)):
                continue
            # the relative position the exponent reads
            flow = flow or flow_of(fi)
            cfg = flow.cfg
            nid = flow.stmt_node.get(id(st))
            rel = None
            for nm in [x for x in ast.walk(exps[0]) if isinstance(x, ast.Name)]:
                for d in (flow.defs_reaching(nm.id, nid) if nid is not None else []):
                    a = cfg.nodes[d].ast if d != ENTRY else None
                    if isinstance(a, ast.Assign) and _relpos(a.value):
                        rel = (a, d, _relpos(a.value))
            if rel is None:
                continue
            n += 1
            chk.fn(key)
            a, d, (x, lo, up) = rel
            where = f"{fi.module}:{fi.qualname}"
            construct = f"{st.targets[0].id} = logistic({norm(a.targets[0])}), {norm(a)}"
            tests = [cfg.nodes[t].ast for t, l in cfg.transitive_control_deps(d) if cfg.nodes[t].kind == "test" and isinstance(cfg.nodes[t].ast, ast.Compare)]
            def compared(e):
                return any({norm(c.left), norm(c.comparators[0])} == {x, e} for c in tests if len(c.ops) == 1)
            missing = [e for e in (lo, up) if not compared(e)]
            if missing:
                chk.violation("C04.l", where, construct, f"the curve is evaluated without `{x}` having been compared with {' and '.join(missing)}: beyond that end the relative "
                              "position leaves [0, 1] and the coefficient leaves [0, 1] (negative potential transpiration below the lower threshold)", loc=fi.loc(st))
            else:
                chk.ok("C04.l", where, construct, f"evaluated only after `{x}` was compared with both {lo} and {up}")
    chk.floor("C04.l", n, 3, "logistic stress curves")
