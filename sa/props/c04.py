"""C04 - fluxes non-negative, actual <= potential (structural clauses only)."""
from __future__ import annotations
import ast
from ..absint import Interp, Const, Sgn, sign_of, TOP, Obj
from ..cp import StepCP, is_zero, batch, row_writers, step_local
from ..flags import DOMAINS
from ..da import local_literal_domains
from ..effects import stores
from ..common import step_roles, init_roles, STEP_FN
from ..model import norm

EXPLANATION = (
    "C04.a: interprocedural constant propagation of the daily step with growing_season=False shows the constants "
    "reaching the Tr, TrPot and IrrDay columns are 0. C04.b: sign abstract interpretation (values >=0 / <=0 / constants, "
    "order facts on differences) of the step for each irrigation method 0..5 proves the applied irrigation depth that "
    "reaches the IrrDay column is >= 0 on every path. C04.c: every writer of the micro-advection-adjusted canopy cover "
    "(the factor (1 - CC*) of potential soil evaporation) leaves it <= 1 on every exit path (abstract interpretation "
    "with order facts). C04.d: the submergence factor 1 - day_submerged/LagAer that scales surface transpiration is computed "
    "only where the order facts give day_submerged <= LagAer (strict guard before the integer increment), so it is >= 0. C04.e: the net-irrigation refill raises (or lowers) each compartment towards the threshold of its own layer - "
    "the per-layer threshold is recomputed from the compartment's own wilting point / field capacity at every layer change and the "
    "root-zone-average threshold computed before the loop cannot reach the refill (reaching definitions + the layer-change idiom) - "
    "the structural half of the non-negativity of the net requirement. NOT decided: Es <= EsPot, Tr <= TrPot, non-negativity of DeepPerc / CR / GwIn / Runoff / Es "
    "(numeric, depend on run-time water contents).")


def run(chk, prog, tier):
    # ---------------------------------------------------------------- C04.a / C04.b (one batch, parallel)
    configs = [{}] + [{"IrrMngt.irrigation_method": m} for m in range(6)]
    irr_name = step_local(prog, "irr")
    res = batch(prog, configs, want_locals=[irr_name])
    base = res[0]
    step_key = STEP_FN
    chk.fn(step_key)
    writer_loc = prog.func(STEP_FN).loc(row_writers(prog)["water_flux"])
    rows = base.rows["water_flux"][False]
    chk.floor("C04.a", len(rows), 1, "partitions of the row writer with growing_season=False")
    for col in ("Tr", "TrPot", "IrrDay"):
        for r in rows:
            v = r[col]
            if is_zero(v):
                chk.ok("C04.a", step_key, f"water_flux.{col} | growing_season=False", f"constant {v}")
            else:
                chk.violation("C04.a", step_key, f"water_flux.{col} | growing_season=False",
                              f"value reaching column {col} outside a growing season is {v}, not the constant 0",
                              loc=writer_loc)
    chk.valuation("growing_season=False")
    for c in base.calls:
        chk.callsite(c)

    for m, r in zip(range(6), res[1:]):
        chk.valuation(f"irrigation_method={m}")
        parts = r.locals[True]
        if not parts:
            chk.error(f"C04.b: no in-season partition for irrigation_method={m}")
            continue
        for loc in parts:
            v = loc[irr_name]
            sg = sign_of(v)
            construct = f"Irr reaching the row | irrigation_method={m}"
            if sg in ("+", "0"):
                chk.ok("C04.b", step_key, construct, f"abstract value {v}")
            else:
                chk.violation("C04.b", step_key, construct,
                              f"the irrigation depth is not provably >= 0 (abstract value {v}): a max(0, .) clamp or the "
                              f"non-negative seasonal cap is missing on some path", loc=writer_loc)

    # ---------------------------------------------------------------- C04.c
    # producers of canopy_cover_adj / canopy_cover_adj_ns: every function that stores the field
    producers = {}
    for key, fi in prog.funcs.items():
        if fi.name == "__init__":
            continue
        for st in stores(prog, fi, None):
            if st.kind == "attr" and st.field in ("canopy_cover_adj", "canopy_cover_adj_ns"):
                producers.setdefault(key, set()).add(st.field)
    ci = prog.cls("InitialCondition")
    for f in ("canopy_cover_adj", "canopy_cover_adj_ns"):
        if f not in ci.init_fields:
            chk.error(f"C04.c: InitialCondition has no field {f}")
    chk.floor("C04.c", len(producers), 2, "functions writing canopy_cover_adj")
    for key, fields in sorted(producers.items()):
        fi = prog.funcs[key]
        chk.fn(key)
        it = Interp(prog, fi, domains=DOMAINS, local_domains=local_literal_domains(fi), part_key="bound").run()
        exits = it.in_states.get(it.cfg.exit, [])
        for field in sorted(fields):
            # which parameter object carries the field: any Obj whose heap/PA mentions it
            ok_all, detail = True, []
            for p in exits:
                cands = {k[0] for k in p.heap if k[1] == field}
                for t in p.pa.terms():
                    if t.endswith("." + field) and t.startswith("@"):
                        cands.add(t)
                found = False
                for name, (val, _) in p.env.items():
                    if isinstance(val, Obj):
                        hv = p.heap.get((val.oid, field))
                        term = f"@{val.oid}.{field}"
                        rel = p.pa.get(term, "#1")
                        if hv is not None and isinstance(hv, Const):
                            found = True
                            good = isinstance(hv.v, (int, float)) and hv.v <= 1
                            detail.append(f"{hv}")
                        elif rel != frozenset("<=>"):
                            found = True
                            good = rel <= frozenset("<=")
                            detail.append("rel to 1: " + "".join(sorted(rel)))
                        else:
                            continue
                        if not good:
                            ok_all = False
                        break
                if not found:
                    # the field is written in this function but nothing is known about it at this exit
                    # (only a violation if some path of this partition wrote it)
                    ok_all = False
                    detail.append("unbounded at an exit")
            construct = f"{field} <= 1 at every exit"
            where = f"{fi.module}:{fi.qualname}"
            if ok_all and exits:
                chk.ok("C04.c", where, construct, "; ".join(sorted(set(detail))))
            else:
                chk.violation("C04.c", where, construct,
                              f"{field} (factor (1 - CC*) of potential soil evaporation / CC* of potential transpiration) "
                              f"is not bounded by 1 on every path: {'; '.join(sorted(set(detail)))}",
                              loc=fi.loc())
    rule_d(chk, prog)
    # ---------------------------------------------------------------- C04.e
    # the net-irrigation requirement sum_j RootFact[j]*(thCrit_j - th[j])*1000*dz[j] is >= 0 (up to the root-zone rounding) because the
    # refill is triggered by the root-zone averages of the very same per-layer thresholds: every compartment must be refilled towards
    # its own layer's threshold, never towards the root-zone average or another layer's
    from .c03 import rule_d as own_thresholds
    own_thresholds(chk, prog, rule="C04.e", only={"transpiration"}, floor=1)
    chk.assume("A-1")
    chk.exhaustive = True


def rule_d(chk, prog):
    """the submergence factor 1 - day_submerged / LagAer scales surface transpiration: it is evaluated only where
    day_submerged <= LagAer (order facts; the day counter is an integer: x < t and x := x + 1 give x <= t)"""
    import re
    tr = prog.find_func("transpiration")
    chk.fn(tr.key)
    where = f"{tr.module}:{tr.qualname}"
    it = Interp(prog, tr, domains=DOMAINS, local_domains=local_literal_domains(tr), part_key="facts", maxp=32, integer_counters=True).run()
    found = 0
    for n in it.cfg.live_nodes():
        a = n.ast
        if not (isinstance(a, ast.Assign) and isinstance(a.value, ast.BinOp) and isinstance(a.value.op, ast.Sub)
                and isinstance(a.value.left, ast.Constant) and a.value.left.value == 1
                and isinstance(a.value.right, ast.BinOp) and isinstance(a.value.right.op, ast.Div)):
            continue
        num, den = a.value.right.left, a.value.right.right
        if not (norm(num).endswith("day_submerged") and norm(den).endswith("LagAer")):
            continue
        found += 1
        ok = True
        wit = ""
        for p in it.node_facts.get(n.id, []):
            tn, td = it.term(num, p), it.term(den, p)
            rel = p.pa.get(tn, td) if tn and td else frozenset("<=>")
            if not rel <= frozenset("<="):
                ok = False
                wit = p.pa.describe()[:200]
        construct = norm(a)
        if ok:
            chk.ok("C04.d", where, construct, "evaluated only where day_submerged <= LagAer: the factor is >= 0")
        else:
            chk.violation("C04.d", where, construct,
                          "the submergence factor can be negative: nothing establishes day_submerged <= LagAer where it is computed "
                          "(the counter is incremented after a non-strict test), so surface transpiration - and the reported Tr - "
                          "can become negative on ponded fields", loc=tr.loc(a), witness=wit)
    chk.floor("C04.d", found, 1, "submergence-factor computations")
    chk.assume("A-16")
