"""C07 - the simulation calendar is exact (clock discipline and progress)."""
from __future__ import annotations
import ast
import itertools

from ..absint import Interp, Const, Obj, In, TOP
from ..common import STEP_FN, RESET_FN, UPDATE_FN, STEP_ROOT, step_roles, init_roles
from ..cp import row_writers, output_columns
from ..effects import stores
from ..flags import DOMAINS
from ..model import norm, walk_no_nested, AnalysisError
from ..rdef import flow_of, ENTRY
from ..roles import MUTATING_METHODS

EXPLANATION = (
    "C07.a (who-may-write, effect analysis over access paths): while stepping, time_step_counter / step_start_time / "
    "step_end_time / season_counter are written only by update_time, model_is_finished only by _perform_timestep from "
    "check_model_is_finished, days-after-planting only by the step (dap+1 in season, 0 otherwise) and the season reset "
    "(0); step start/end times are always time_span[counter] / time_span[counter+1] of the counter written in the same "
    "block. C07.b (progress, finite abstraction): for the 16 abstract clock states (harvest_flag, sim_off_season, "
    "season_counter vs n_seasons-1, step_end_time vs end date) check_model_is_finished is evaluated abstractly; "
    "whenever it returns False, update_time assigns the time-step counter on every path, to counter+1 or to the "
    "position of planting_dates[season_counter+1] (assumptions A-5, A-6). C07.c: every daily row is indexed by and "
    "carries the time-step counter; the dap column carries the state's dap. C07.d: the planting / harvest year lists "
    "derived at initialisation are not mutated in place while another name aliases the same list. C07.e: crop_mature is set only under `<clock> >= crop.Maturity` "
    "where the clock's normal form is the state's own days-after-planting (under CalendarType == 1) or cumulative degree days (under "
    "CalendarType == 2) of that day - not a delay-adjusted or otherwise shifted clock - and both calendar types are covered. C07.f: crop_mature, crop_dead, harvest_flag and dap are cleared on every path of the season reset (literal setattr loops are expanded). C07.g: the growing-season window excludes the step that starts on the harvest date (the summary is written on the step that ends on it), so the season's length does not depend on the off-season flag. C07.h: the day offset from which a missing harvest date is derived (kept as month/day; seasons recur yearly) has a constant bound <= 364 - a larger offset wraps round the year and cuts every season short. C07.j: both 'another season follows' tests of update_time have the normal form season_counter < n_seasons - 1 on the clock's current counter. C07.k: for a crop whose season lies within a calendar year the last calendar year of the window is dropped from the schedule exactly when the end date (month/day) is on or before the planting day - the test is resolved through locals and negations, its two sides by provenance (end date vs planting date, not the start or harvest date). C07.l: growing_season = True is reached only under planting date reached, harvest date not reached, crop not mature and crop not dead (C07.g now reads chained comparisons and comparisons held in locals too). C07.m (the run always terminates - inner loops; T-LOOP, shared with C16.n): every while loop has a visible reason to stop (stepped counter against an invariant bound on every cycle, countdown, counter-driven flag, listed derived / delegated / guarded convergence loops). C07.n: the days to maturity from which a missing latest harvest date is derived are read from the calendar computed for this window (the result of compute_crop_calendar), not from the crop object's tabulated attribute (backward slice of the day offset). C07.o: the branch of read_model_parameters that makes the harvest years equal to the planting years (season within one calendar year) is taken exactly when the planting month/day lies strictly before the latest harvest month/day - a harvest date on the planting day itself is a season of a full year (test resolved through locals and negations, sides by provenance). C07.p: in update_time the comparison of the step start time with the next planting date is dominated by the store that advances the step start time (it looks at the upcoming day, not the one just simulated). NOT decided: the remaining "
    "planting / harvest year arithmetic itself (numeric).")

L = frozenset
CLOCK_FIELDS = {"time_step_counter", "step_start_time", "step_end_time", "season_counter"}
CK = ("clock",)
ST = ("state",)


def rule_a(chk, prog):
    roles = step_roles(prog)
    n = 0
    for key in sorted(roles.reached):
        fi = prog.funcs[key]
        chk.fn(key)
        where = f"{fi.module}:{fi.qualname}"
        for st in stores(prog, fi, roles):
            for p in st.paths:
                if p.startswith("CLOCK."):
                    f = p.split(".")[1].split("[")[0]
                    n += 1
                    if f in CLOCK_FIELDS:
                        if fi.key == UPDATE_FN:
                            chk.ok("C07.a", where, st.text, f"clock field {f} written by update_time")
                        else:
                            chk.violation("C07.a", where, st.text, f"clock field {f} is written outside update_time", loc=fi.loc(st.node))
                    elif f == "model_is_finished":
                        v = getattr(st.node, "value", None)
                        tgt = prog.resolve_call(fi, v) if isinstance(v, ast.Call) else None
                        if fi.key == STEP_ROOT and getattr(tgt, "name", None) == "check_model_is_finished":
                            chk.ok("C07.a", where, st.text, "termination flag assigned from check_model_is_finished")
                        else:
                            chk.violation("C07.a", where, st.text, "the termination flag is written by something else than check_model_is_finished", loc=fi.loc(st.node))
                    else:
                        chk.violation("C07.a", where, st.text, f"clock field {f} (calendar table / window) is written while stepping", loc=fi.loc(st.node))
            if st.kind == "attr" and st.field == "dap" and any(p == "STATE.dap" for p in st.paths):
                n += 1
                v = getattr(st.node, "value", None)
                txt = norm(v) if v is not None else "?"
                flow = flow_of(fi)
                nid = flow.stmt_node.get(id(st.node))
                tests = {(norm(flow.cfg.nodes[t].ast), l) for t, l in flow.cfg.transitive_control_deps(nid) if flow.cfg.nodes[t].kind == "test"} if nid is not None else set()
                if fi.key == STEP_FN:
                    in_season = ("growing_season is True", True) in tests
                    off = ("growing_season is True", False) in tests
                    good = (in_season and txt.endswith(".dap + 1")) or (off and txt == "0")
                elif fi.key == RESET_FN:
                    good = txt == "0"
                else:
                    good = False
                if good:
                    chk.ok("C07.a", where, st.text, "dap counts 1,2,3,... in season, 0 otherwise")
                else:
                    chk.violation("C07.a", where, st.text, "days after planting are not (dap+1 in season | 0 off season | 0 at reset)", loc=fi.loc(st.node))
    chk.floor("C07.a", n, 12, "stores to clock fields / dap")
    # start / end time of the step are time_span[counter], time_span[counter + 1] in the same block
    up = prog.func(UPDATE_FN)
    flow = flow_of(up)
    blocks = {}
    for a in walk_no_nested(up.node):
        if isinstance(a, ast.Assign) and isinstance(a.targets[0], ast.Attribute) and a.targets[0].attr in CLOCK_FIELDS:
            nid = flow.stmt_node.get(id(a))
            if nid is None:
                continue
            cds = frozenset(flow.cfg.transitive_control_deps(nid))
            blocks.setdefault(cds, {}).setdefault(a.targets[0].attr, a)
    nb = 0
    for cds, d in blocks.items():
        if "time_step_counter" not in d:
            continue
        nb += 1
        s, e = d.get("step_start_time"), d.get("step_end_time")
        ok = s is not None and e is not None and norm(s.value).endswith(".time_span[clock_struct.time_step_counter]") \
            and norm(e.value).endswith(".time_span[clock_struct.time_step_counter + 1]") \
            and s.lineno > d["time_step_counter"].lineno and e.lineno > d["time_step_counter"].lineno
        construct = f"after `{norm(d['time_step_counter'])}`: step_start/end_time"
        if ok:
            chk.ok("C07.a", UPDATE_FN, construct, "time_span[counter], time_span[counter + 1]")
        else:
            chk.violation("C07.a", UPDATE_FN, construct, "step start / end times are not re-derived from the counter just written",
                          loc=up.loc(d["time_step_counter"]))
    chk.floor("C07.a-blocks", nb, 2, "blocks of update_time that advance the counter")


def rule_b(chk, prog):
    chkf = prog.find_func("check_model_is_finished")
    up = prog.func(UPDATE_FN)
    root = prog.func(STEP_ROOT)
    chk.fn(chkf.key)
    chk.fn(up.key)
    # map the actual arguments of the check to its formals by the attribute passed
    call = [c for c, t in prog.calls_in(root) if getattr(t, "key", None) == chkf.key]
    if len(call) != 1:
        raise AnalysisError("expected one call of check_model_is_finished in _perform_timestep")
    call = call[0]
    fm = {}
    for i, a in enumerate(call.args):
        if isinstance(a, ast.Attribute):
            fm[a.attr] = chkf.params[i]
    need = ["step_end_time", "simulation_end_date", "season_counter", "n_seasons", "harvest_flag"]
    if any(k not in fm for k in need):
        raise AnalysisError("check_model_is_finished is no longer called with the clock fields and the harvest flag")
    # formals of update_time
    ucall = [c for c, t in prog.calls_in(root) if getattr(t, "key", None) == up.key][0]
    f_ck, f_st = up.params[0], up.params[1]
    n_states = 0
    for hf, off, rs, rt in itertools.product((True, False), (True, False), ("<", "="), ("<", "=>")):
        n_states += 1
        label = f"harvest_flag={hf}, sim_off_season={off}, season_counter{rs}n_seasons-1, step_end_time{'<' if rt == '<' else '>='}end"
        chk.valuation(label)
        facts = [(fm["season_counter"], f"({fm['n_seasons']}-1)", L(rs)),
                 (fm["step_end_time"], fm["simulation_end_date"], L(rt))]
        it = Interp(prog, chkf, domains=DOMAINS, param_vals={fm["harvest_flag"]: Const(hf)}, init_facts=facts, part_key="bound").run()
        vals = {repr(v) for v, _, _ in it.returns}
        if vals == {"Const(True)"}:
            chk.ok("C07.b", f"{chkf.module}:{chkf.qualname}", label, "run is finished: no further step", nontrivial=True)
            continue
        if vals != {"Const(False)"}:
            chk.violation("C07.b", f"{chkf.module}:{chkf.qualname}", label, f"termination test is not decided by the abstract clock state (returns {sorted(vals)})",
                          loc=chkf.loc())
            continue
        heap = {(CK, "model_is_finished"): Const(False), (CK, "sim_off_season"): Const(off), (ST, "harvest_flag"): Const(hf),
                (CK, "time_step_counter"): In("tsc")}
        facts2 = [(f"@{CK}.season_counter", f"(@{CK}.n_seasons-1)", L(rs))]
        it2 = Interp(prog, up, domains=DOMAINS, param_vals={f_ck: Obj(CK), f_st: Obj(ST)}, init_heap=heap, init_facts=facts2,
                     part_key="bound").run()
        exits = it2.in_states.get(it2.cfg.exit, [])
        stuck = [p for p in exits if p.heap.get((CK, "time_step_counter")) == In("tsc")]
        if exits and not stuck:
            chk.ok("C07.b", UPDATE_FN, label, "not finished: the time-step counter is assigned on every path")
        else:
            chk.violation("C07.b", UPDATE_FN, label,
                          "the run is not finished but update_time leaves the time-step counter unchanged on some path: the same day "
                          "would be simulated again (no progress)", loc=up.loc(), witness=stuck[0].pa.describe()[:200] if stuck else "")
    chk.floor("C07.b", n_states, 16, "abstract clock states")
    # the two forms of the counter update
    flow = flow_of(up)
    forms = [a for a in walk_no_nested(up.node) if isinstance(a, ast.Assign) and isinstance(a.targets[0], ast.Attribute)
             and a.targets[0].attr == "time_step_counter"]
    for a in forms:
        t = norm(a.value)
        construct = norm(a)
        if t.endswith(".time_step_counter + 1"):
            chk.ok("C07.b", UPDATE_FN, construct, "advance by one day")
        elif ".get_loc(" in t and "planting_dates[" in t and t.rstrip(")").endswith(".season_counter]"):
            # season_counter incremented just before in the same block
            nid = flow.stmt_node[id(a)]
            inc = [b for b in walk_no_nested(up.node) if isinstance(b, ast.Assign) and isinstance(b.targets[0], ast.Attribute)
                   and b.targets[0].attr == "season_counter" and norm(b.value).endswith(".season_counter + 1")
                   and flow.stmt_node.get(id(b)) in flow.cfg.dominators()[nid]
                   and flow.cfg.transitive_control_deps(flow.stmt_node[id(b)]) == flow.cfg.transitive_control_deps(nid)]
            if inc:
                chk.ok("C07.b", UPDATE_FN, construct, "jump to the planting date of the next season (season_counter + 1)")
            else:
                chk.violation("C07.b", UPDATE_FN, construct, "the jump does not target the planting date of the next season", loc=up.loc(a))
        else:
            chk.violation("C07.b", UPDATE_FN, construct, "the counter is neither advanced by one day nor moved to the next planting date", loc=up.loc(a))
    chk.floor("C07.b-forms", len(forms), 2, "assignments of the time-step counter")
    chk.assume("A-5")
    chk.assume("A-6")
    chk.assume("A-1")


def finished_at_window_end(chk, prog, rule: str):
    """(shared with C16.m) in every abstract clock state in which the step just taken ends on or after the end date, the termination test
    returns True: update_time would otherwise read time_span[counter + 2], one past the last entry (IndexError on the last day of the window)."""
    chkf = prog.find_func("check_model_is_finished")
    root = prog.func(STEP_ROOT)
    chk.fn(chkf.key)
    call = [c for c, t in prog.calls_in(root) if getattr(t, "key", None) == chkf.key]
    if len(call) != 1:
        raise AnalysisError("expected one call of check_model_is_finished in _perform_timestep")
    fm = {a.attr: chkf.params[i] for i, a in enumerate(call[0].args) if isinstance(a, ast.Attribute)}
    if any(k not in fm for k in ["step_end_time", "simulation_end_date", "season_counter", "n_seasons", "harvest_flag"]):
        raise AnalysisError("check_model_is_finished is no longer called with the clock fields and the harvest flag")
    n = 0
    where = f"{chkf.module}:{chkf.qualname}"
    for hf, rs, rt in itertools.product((True, False), ("<", "="), ("=", ">")):
        n += 1
        label = f"harvest_flag={hf}, season_counter{rs}n_seasons-1, step_end_time{'==' if rt == '=' else '>'}end"
        chk.valuation(label)
        facts = [(fm["season_counter"], f"({fm['n_seasons']}-1)", L(rs)), (fm["step_end_time"], fm["simulation_end_date"], L(rt))]
        it = Interp(prog, chkf, domains=DOMAINS, param_vals={fm["harvest_flag"]: Const(hf)}, init_facts=facts, part_key="bound").run()
        vals = {repr(v) for v, _, _ in it.returns}
        if vals == {"Const(True)"}:
            chk.ok(rule, where, label, "the run is finished: no step beyond the window", nontrivial=True)
        else:
            chk.violation(rule, where, label, f"the step just taken ends on/after the end date but the run is not declared finished (returns {sorted(vals)}): "
                          "update_time then reads the day after the last entry of time_span (IndexError on the last day of the window)", loc=chkf.loc())
    chk.floor(rule, n, 8, "abstract clock states at the end of the window")
    chk.assume("A-1")


def rule_c(chk, prog):
    step = prog.func(STEP_FN)
    w = row_writers(prog)
    cols = output_columns(prog)
    flow = flow_of(step)
    # row_day
    for table, st in w.items():
        idx = st.targets[0].slice.elts[0] if isinstance(st.targets[0].slice, ast.Tuple) else st.targets[0].slice
        src = idx
        if isinstance(idx, ast.Name):
            nid = flow.node_of(idx)
            ds = flow.defs_reaching(idx.id, nid)
            if len(ds) == 1 and ds[0] != ENTRY and isinstance(flow.cfg.nodes[ds[0]].ast, ast.Assign):
                src = flow.cfg.nodes[ds[0]].ast.value
        construct = f"{table}[{norm(idx)}, :]"
        if norm(src).endswith(".time_step_counter"):
            chk.ok("C07.c", STEP_FN, construct, "row index is the time-step counter")
        else:
            chk.violation("C07.c", STEP_FN, construct, f"the daily row is indexed by {norm(src)}, not by the time-step counter", loc=step.loc(st))
        c0 = st.value.elts[cols[table].index("time_step_counter")]
        cd = st.value.elts[cols[table].index("dap")]
        if norm(c0).endswith(".time_step_counter") and norm(cd).endswith(".dap"):
            chk.ok("C07.c", STEP_FN, f"{table}: columns time_step_counter / dap", "carry the clock counter and the state's dap")
        else:
            chk.violation("C07.c", STEP_FN, f"{table}: columns time_step_counter / dap", f"carry {norm(c0)} / {norm(cd)}", loc=step.loc(st))


def rule_d(chk, prog):
    """in-place mutation of a local list that another live local name aliases (initialisation phase)"""
    roles = init_roles(prog)
    sites = 0
    for key in sorted(roles.reached):
        fi = prog.funcs[key]
        flow = flow_of(fi)
        where = f"{fi.module}:{fi.qualname}"
        # reference copies between local names: y = x
        copies = []
        for a in walk_no_nested(fi.node):
            if isinstance(a, ast.Assign) and len(a.targets) == 1 and isinstance(a.targets[0], ast.Name) and isinstance(a.value, ast.Name):
                copies.append(a)
        for c in walk_no_nested(fi.node):
            if isinstance(c, ast.Call) and isinstance(c.func, ast.Attribute) and c.func.attr in MUTATING_METHODS \
                    and isinstance(c.func.value, ast.Name) and c.func.attr not in ("update",):
                x = c.func.value.id
                nid = flow.node_of(c)
                if nid is None:
                    continue
                sites += 1
                aliased = None
                for a in copies:
                    y, z = a.targets[0].id, a.value.id
                    if x not in (y, z) or y == z:
                        continue
                    an = flow.stmt_node.get(id(a))
                    other = z if x == y else y
                    # the copy reaches the mutation: its definition of y is live at the call and so is the same object under z
                    if an in flow.defs_reaching(y, nid) and set(flow.defs_reaching(z, an)) <= set(flow.defs_reaching(z, nid)):
                        aliased = (other, a)
                construct = norm(c)
                if aliased:
                    chk.violation("C07.d", where, construct,
                                  f"`{x}` is mutated in place while `{aliased[0]}` names the same list ({norm(aliased[1])}): both views change",
                                  loc=fi.loc(c))
                else:
                    chk.ok("C07.d", where, construct, "receiver has no aliasing local name at this point")
    chk.floor("C07.d", sites, 3, "in-place list mutations in the initialisation phase")


def rule_e(chk, prog):
    """a season ends on the first day the crop reaches maturity: crop_mature is set exactly when the state's own (unadjusted) clock -
    days after planting in calendar mode, cumulative degree days in thermal mode - has reached crop.Maturity"""
    from .. import affine as A
    from ..symb import Sym
    from ..cp import step_local
    step = prog.func(STEP_FN)
    S = step_local(prog, "state")
    sym = Sym(prog, step, force={"growing_season is True": True, "growing_season is False": False})
    cfg = sym.cfg
    stores_ = [n for n in cfg.live_nodes() if isinstance(n.ast, ast.Assign) and isinstance(n.ast.targets[0], ast.Attribute)
               and n.ast.targets[0].attr == "crop_mature" and isinstance(n.ast.value, ast.Constant) and n.ast.value.value is True]
    chk.floor("C07.e", len(stores_), 1, "stores crop_mature = True in the step")
    CLOCK = {1: "dap", 2: "gdd_cum"}
    for n in stores_:
        flow = flow_of(step)
        def deciders(nid, depth=0):
            out = set(cfg.transitive_control_deps(nid))
            if depth < 3:
                for t, l in list(out):
                    ta = cfg.nodes[t].ast
                    if cfg.nodes[t].kind == "test" and isinstance(ta, ast.Name) and l is True:
                        # a boolean flag: the tests deciding its `= True` definitions decide this node too
                        for d in flow.defs_reaching(ta.id, t):
                            da = cfg.nodes[d].ast if d != ENTRY else None
                            if isinstance(da, ast.Assign) and isinstance(da.value, ast.Constant) and da.value.value is True:
                                out |= deciders(d, depth + 1)
            return out
        deps = deciders(n.id)
        tests = [(t, l) for t, l in deps if cfg.nodes[t].kind == "test" and isinstance(cfg.nodes[t].ast, ast.Compare)
                 and any(isinstance(x, ast.Attribute) and x.attr == "Maturity" for x in ast.walk(cfg.nodes[t].ast))]
        construct = "crop_mature = True"
        if not tests:
            chk.violation("C07.e", STEP_FN, construct, "crop_mature is set without comparing the season's clock with crop.Maturity", loc=step.loc(n.ast))
            continue
        seen_modes = set()
        for t, l in tests:
            c = cfg.nodes[t].ast
            cons = f"{norm(c)} decides crop_mature"
            if len(c.ops) == 1 and ((l is False and isinstance(c.ops[0], ast.GtE)) or (l is True and isinstance(c.ops[0], ast.Lt))):
                continue        # the "not yet mature" edge of a test, on the way to the other calendar type's test
            if not (len(c.ops) == 1 and ((l is True and isinstance(c.ops[0], ast.GtE)) or (l is False and isinstance(c.ops[0], ast.Lt)))
                    and isinstance(c.comparators[0], ast.Attribute) and c.comparators[0].attr == "Maturity"):
                chk.violation("C07.e", STEP_FN, cons, "the maturity test is not `<clock> >= crop.Maturity`", loc=step.loc(c))
                continue
            if t not in sym.state_in:
                chk.error("C07.e: maturity test unreachable in the in-season valuation")
                continue
            st = sym.state_in[t]
            left = sym.nf(c.left, st)
            mode = None
            for k, fld in CLOCK.items():
                own = sym.nf(ast.Attribute(value=ast.Name(id=S, ctx=ast.Load()), attr=fld, ctx=ast.Load()), st)
                if A.equal(left, own):
                    mode = k
            if mode is None:
                chk.violation("C07.e", STEP_FN, cons, f"the clock compared with crop.Maturity is {A.text(left)[:100]}, not the state's days after planting / "
                              "cumulative degree days of the day: the season ends later (or earlier) than the first day maturity is reached",
                              loc=step.loc(c))
                continue
            # the comparison must sit under the matching calendar-type test
            ct = [(norm(cfg.nodes[tt].ast), ll) for tt, ll in cfg.transitive_control_deps(t) if cfg.nodes[tt].kind == "test"
                  and "CalendarType" in norm(cfg.nodes[tt].ast)]
            want = (f"CalendarType == {mode}", True)
            if any(txt.endswith(want[0]) and ll is True for txt, ll in ct):
                chk.ok("C07.e", STEP_FN, cons, f"state's {CLOCK[mode]} under CalendarType == {mode}")
                seen_modes.add(mode)
            else:
                chk.violation("C07.e", STEP_FN, cons, f"{CLOCK[mode]} is compared with crop.Maturity outside the branch CalendarType == {mode} ({ct})",
                              loc=step.loc(c))
        if seen_modes != {1, 2} and not any(v["rule"] == "C07.e" for v in chk.violations):
            chk.violation("C07.e", STEP_FN, construct, f"maturity is tested for calendar type(s) {sorted(seen_modes)} only", loc=step.loc(n.ast))


SEASON_FLAGS = {"crop_mature": False, "crop_dead": False, "harvest_flag": False, "dap": 0}


def rule_f(chk, prog, rule="C07.f", flags=None):
    """C07.f: a season ends early only if *its* crop has died / matured / was harvested: the per-season progress flags and the
    days-after-planting counter are cleared by the season reset on every path (a flag left from the previous season ends the new
    season on its planting day)."""
    fi = prog.func(RESET_FN)
    chk.fn(fi.key)
    where = f"{fi.module}:{fi.qualname}"
    flow = flow_of(fi)
    cfg = flow.cfg
    SEASON_FLAGS = flags if flags is not None else globals()["SEASON_FLAGS"]
    found = {}
    for sto in stores(prog, fi, None):
        if sto.kind == "attr" and sto.field in SEASON_FLAGS:
            v = getattr(sto.node, "value", None)
            if isinstance(v, ast.Constant) and v.value == SEASON_FLAGS[sto.field] and type(v.value) is type(SEASON_FLAGS[sto.field]):
                nid = flow.stmt_node.get(id(sto.node)) or flow.node_of(sto.node)
                # a store in the body of `for v in (<non-empty literal tuple>)` is executed whenever the loop statement is reached
                for loop in walk_no_nested(fi.node):
                    if isinstance(loop, ast.For) and isinstance(loop.iter, (ast.Tuple, ast.List)) and loop.iter.elts \
                            and any(sub is sto.node for b in loop.body for sub in ast.walk(b)) and len(loop.body) == 1:
                        nid = flow.stmt_node.get(id(loop), nid)
                found.setdefault(sto.field, set()).add(nid)
    for f, val in sorted(SEASON_FLAGS.items()):
        construct = f"<state>.{f} = {val!r} on every path of the season reset"
        nodes = {n for n in found.get(f, set()) if n is not None}
        if not nodes:
            chk.violation(rule, where, construct, f"the season reset does not clear {f}: the value left by the previous season (e.g. a crop that died) "
                          "decides the new season's first day", loc=fi.loc())
        elif cfg.paths_exist_avoiding(cfg.entry, cfg.exit, nodes):
            chk.violation(rule, where, construct, f"{f} is cleared on some paths of the season reset only", loc=fi.loc())
        else:
            chk.ok(rule, where, construct, "cleared unconditionally")
    chk.floor(rule, len(found), min(3, len(SEASON_FLAGS)), "season fields cleared by the reset")


def rule_g(chk, prog):
    """C07.g (a season ends when its latest harvest date is reached - the same day with and without off-season simulation): the summary
    row is written on the step whose END is the harvest date; the growing-season window, which is tested on the step's START, must
    therefore exclude a start on the harvest date (harvest > start), so that no growing day follows the summary row."""
    step = prog.func(STEP_FN)
    flow = flow_of(step)
    cfg = flow.cfg
    def from_attr(name, attr, at):
        ds = flow.defs_reaching(name, at)
        return bool(ds) and all(d != ENTRY and isinstance(cfg.nodes[d].ast, ast.Assign)
                                and any(isinstance(x, ast.Attribute) and x.attr == attr for x in ast.walk(cfg.nodes[d].ast.value)) for d in ds)
    n = 0
    flip = {ast.Lt: ast.Gt, ast.LtE: ast.GtE, ast.Gt: ast.Lt, ast.GtE: ast.LtE}
    for c in walk_no_nested(step.node):
        # every ordering comparison, wherever it stands (a test, or the value of a local); chains `a <= b < c` are taken pair by pair
        if not isinstance(c, ast.Compare):
            continue
        at = flow.node_of(c)
        if at is None:
            continue
        operands = [c.left] + list(c.comparators)
        for i, op0 in enumerate(c.ops):
            l, r = operands[i], operands[i + 1]
            if not (isinstance(l, ast.Name) and isinstance(r, ast.Name)) or type(op0) not in flip:
                continue
            for h, d, op in ((l, r, type(op0)), (r, l, flip[type(op0)])):
                if from_attr(h.id, "harvest_dates", at) and from_attr(d.id, "step_start_time", at):
                    n += 1
                    construct = f"{norm(c)} (harvest date against the step's start)"
                    if op is ast.Gt:
                        chk.ok("C07.g", STEP_FN, construct, "a step starting on the harvest date is outside the season: the last growing day is the one whose summary is written")
                    else:
                        chk.violation("C07.g", STEP_FN, construct, "the growing-season window includes the step that STARTS on the harvest date, but the season's summary "
                                      "is written on the step that ENDS on it: with off-season simulation one more growing day follows the summary row (the "
                                      "season is a day longer than without, seasonal totals miss that day)", loc=step.loc(c))
    chk.floor("C07.g", n, 1, "comparisons of the harvest date with the step start")
    # the summary trigger compares the harvest date with the step END by equality
    trig = [t for t in cfg.live_nodes() if t.kind == "test" and isinstance(t.ast, ast.Compare) and isinstance(t.ast.ops[0], ast.Eq)
            and any(isinstance(x, ast.Attribute) and x.attr == "harvest_dates" for x in ast.walk(t.ast))
            and any(isinstance(x, ast.Attribute) and x.attr == "step_end_time" for x in ast.walk(t.ast))]
    if trig:
        chk.ok("C07.g", STEP_FN, norm(trig[0].ast)[:80], "summary written on the step that ends on the harvest date")
    else:
        chk.violation("C07.g", STEP_FN, "harvest_dates[season] == step_end_time", "the summary is no longer triggered by the step that ends on the harvest date", loc=step.loc())


def season_flag_guards(chk, prog, rule: str):
    """(C07.l, shared with C13.j) the step's `growing_season = True` is reached only under all four conditions of a live season: planting date
    reached, harvest date not reached, crop not mature, crop not dead. The conditions are collected from the transitive control dependences of the
    store; a test on a local is expanded through the local's single definition, conjunctions and chained comparisons are taken apart. A season
    that goes on after the crop has died (or matured) keeps irrigating and transpiring a field whose harvest has already been reported."""
    step = prog.func(STEP_FN)
    flow = flow_of(step)
    cfg = flow.cfg
    where = STEP_FN

    def atoms(e, at, depth=0):
        if isinstance(e, ast.BoolOp) and isinstance(e.op, ast.And):
            return [a for v in e.values for a in atoms(v, at, depth)]
        if isinstance(e, ast.Name) and at is not None and depth < 5:
            ds = [d for d in flow.defs_reaching(e.id, at) if d != ENTRY]
            a = cfg.nodes[ds[0]].ast if len(ds) == 1 else None
            if isinstance(a, ast.Assign) and isinstance(a.value, (ast.BoolOp, ast.Compare, ast.UnaryOp, ast.Name)):
                return atoms(a.value, ds[0], depth + 1)
        return [(e, at)]

    def says_false(e, attr):
        """does the atom assert that <obj>.<attr> is false?"""
        def is_attr(x):
            return isinstance(x, ast.Attribute) and x.attr == attr
        if isinstance(e, ast.UnaryOp) and isinstance(e.op, ast.Not) and is_attr(e.operand):
            return True
        if isinstance(e, ast.Compare) and len(e.ops) == 1 and is_attr(e.left) and isinstance(e.comparators[0], ast.Constant):
            v, op = e.comparators[0].value, e.ops[0]
            return (v is False and isinstance(op, (ast.Is, ast.Eq))) or (v is True and isinstance(op, (ast.IsNot, ast.NotEq)))
        return False

    def date_pairs(e, at):
        """ordering facts (a, op, b) of an atom, with the provenance of each side"""
        out = []
        if isinstance(e, ast.Compare):
            ops_ = [e.left] + list(e.comparators)
            for i, op in enumerate(e.ops):
                out.append((ops_[i], type(op), ops_[i + 1]))
        return out

    def prov(x, at):
        tags = set()
        for y in ast.walk(x):
            if isinstance(y, ast.Attribute) and y.attr in ("planting_dates", "harvest_dates", "step_start_time"):
                tags.add(y.attr)
            if isinstance(y, ast.Name) and at is not None:
                for d in flow.defs_reaching(y.id, at):
                    a = cfg.nodes[d].ast if d != ENTRY else None
                    if isinstance(a, ast.Assign):
                        for z in ast.walk(a.value):
                            if isinstance(z, ast.Attribute) and z.attr in ("planting_dates", "harvest_dates", "step_start_time"):
                                tags.add(z.attr)
        return tags

    # the flag local: the name the step hands to its callees' `growing_season` formal (by position or keyword), not a spelling
    flag_names = set()
    for call, tgt in prog.calls_in(step):
        if hasattr(tgt, "params") and "growing_season" in tgt.params:
            pos = tgt.params[1:] if (tgt.cls and tgt.params and tgt.params[0] in ("self", "cls")) else tgt.params
            i = pos.index("growing_season")
            if i < len(call.args) and isinstance(call.args[i], ast.Name):
                flag_names.add(call.args[i].id)
            for kw in call.keywords:
                if kw.arg == "growing_season" and isinstance(kw.value, ast.Name):
                    flag_names.add(kw.value.id)
    if not flag_names:
        raise AnalysisError("the step hands no local to a `growing_season` formal")
    sites = 0
    for a in walk_no_nested(step.node):
        if not (isinstance(a, ast.Assign) and len(a.targets) == 1 and isinstance(a.targets[0], ast.Name) and a.targets[0].id in flag_names
                and isinstance(a.value, ast.Constant) and a.value.value is True):
            continue
        nid = flow.stmt_node.get(id(a))
        if nid is None:
            continue
        sites += 1
        have = set()
        for t, lab in cfg.transitive_control_deps(nid):
            tn = cfg.nodes[t]
            if tn.kind != "test" or lab is not True:
                continue
            for e, at in atoms(tn.ast, t):
                for fld in ("crop_dead", "crop_mature"):
                    if says_false(e, fld):
                        have.add(fld)
                for l, op, r in date_pairs(e, at):
                    pl, pr = prov(l, at), prov(r, at)
                    if (pl == {"planting_dates"} and pr == {"step_start_time"} and op in (ast.LtE,)) or \
                            (pr == {"planting_dates"} and pl == {"step_start_time"} and op in (ast.GtE,)):
                        have.add("planting date reached")
                    if (pl == {"harvest_dates"} and pr == {"step_start_time"} and op in (ast.Gt, ast.GtE)) or \
                            (pr == {"harvest_dates"} and pl == {"step_start_time"} and op in (ast.Lt, ast.LtE)):
                        have.add("harvest date not reached")
        need = ["planting date reached", "harvest date not reached", "crop_mature", "crop_dead"]
        missing = [x for x in need if x not in have]
        construct = f"{norm(a)} at line-independent site #{sites}"
        construct = f"{norm(a)} (guards: {', '.join(x for x in need if x in have) or 'none'})"
        if not missing:
            chk.ok(rule, where, construct, "in season only between planting and harvest date with a crop that is neither mature nor dead")
        else:
            chk.violation(rule, where, construct, "the growing-season flag is set without the condition(s) " + ", ".join(
                ("not " + m) if m.startswith("crop_") else m for m in missing) + ": the days after the crop has died / matured (harvest already "
                "reported) still count as in season - irrigation goes on, days after planting keep counting", loc=step.loc(a))
    chk.floor(rule, sites, 1, "stores `growing_season = True` in the step")


def _int_ub(e):
    """constant upper bound of an integer expression of the forms the repo uses (min with a constant arm), else None"""
    if isinstance(e, ast.Constant) and isinstance(e.value, int) and not isinstance(e.value, bool):
        return e.value
    if isinstance(e, ast.Call) and norm(e.func) in ("min", "np.minimum", "np.min") and e.args:
        args = e.args[0].elts if len(e.args) == 1 and isinstance(e.args[0], (ast.List, ast.Tuple)) else e.args
        ubs = [u for u in (_int_ub(a) for a in args) if u is not None]
        return min(ubs) if ubs else None
    if isinstance(e, ast.Call) and norm(e.func) in ("int", "round") and len(e.args) == 1:
        return _int_ub(e.args[0])
    return None


def rule_h(chk, prog):
    """C07.h (a derived latest harvest date does not end the season before maturity by wrapping round the year): when no harvest date is given it is
    derived as planting date + N days and kept as month/day; seasons recur yearly, so N >= 365 wraps to a date N-365 days after planting and every
    season is cut there. The day offset added to the planting date must have a constant upper bound <= 364 on every reaching definition."""
    f = prog.find_func("read_model_parameters")
    flow = flow_of(f)
    cfg = flow.cfg
    where = f"{f.module}:{f.qualname}"
    n = 0
    for node in walk_no_nested(f.node):
        if not (isinstance(node, ast.Call) and norm(node.func) in ("np.timedelta64", "pd.Timedelta", "timedelta", "datetime.timedelta", "pd.to_timedelta", "pd.DateOffset")):
            continue
        arg = node.args[0] if node.args else next((k.value for k in node.keywords if k.arg in ("days", "value")), None)
        if arg is None:
            continue
        nid = flow.node_of(node)
        st = cfg.nodes[nid].ast if nid is not None else None
        # only offsets that end up in the crop's harvest date (month/day string): the statement's target flows to crop.harvest_date
        n += 1
        construct = norm(node)
        chk.fn(f.key)
        if isinstance(arg, ast.Name):
            ds = flow.defs_reaching(arg.id, nid) if nid is not None else []
            ubs = []
            for d in ds:
                a = cfg.nodes[d].ast if d != ENTRY else None
                ubs.append(_int_ub(a.value) if isinstance(a, ast.Assign) else None)
            ub = None if (not ubs or any(u is None for u in ubs)) else max(ubs)
        else:
            ub = _int_ub(arg)
        if ub is not None and ub <= 364:
            chk.ok("C07.h", where, construct, f"day offset of the derived harvest date bounded by {ub} <= 364")
        else:
            chk.violation("C07.h", where, construct, "the day offset added to the planting date to derive the month/day harvest date has no constant bound <= 364: "
                          "for a crop that needs 335 days or more to mature the date wraps round the year and every season is cut "
                          f"(offset - 365) days after planting (bound found: {ub})", loc=f.loc(node))
    chk.floor("C07.h", n, 1, "day offsets added to the planting date in read_model_parameters")
    # C07.n: the days to maturity the offset is computed from are those of the calendar computed for THIS window's weather (the result of
    # compute_crop_calendar), not the tabulated attribute of the crop object: for thermal-time crops the catalogue's MaturityCD is a nominal
    # length, and a latest harvest date derived from it ends the season before the crop is mature in thermal time.
    n2 = 0
    for node in walk_no_nested(f.node):
        if not (isinstance(node, ast.Call) and norm(node.func) in ("np.timedelta64", "pd.Timedelta", "timedelta", "datetime.timedelta", "pd.to_timedelta", "pd.DateOffset")):
            continue
        arg = node.args[0] if node.args else next((k.value for k in node.keywords if k.arg in ("days", "value")), None)
        nid = flow.node_of(node)
        if arg is None or nid is None:
            continue
        reads = []          # (attribute node, cfg node) of every `<obj>.MaturityCD`-like read in the backward slice of the offset

        def slice_(e, at, depth=0, seen=None):
            seen = set() if seen is None else seen
            for x in ast.walk(e):
                if isinstance(x, ast.Attribute) and isinstance(x.value, ast.Name) and x.attr.startswith("Maturity"):
                    reads.append((x, at))
                if isinstance(x, ast.Name) and isinstance(x.ctx, ast.Load) and depth < 6:
                    for d in flow.defs_reaching(x.id, at):
                        if d == ENTRY or (x.id, d) in seen:
                            continue
                        seen.add((x.id, d))
                        a = cfg.nodes[d].ast
                        if isinstance(a, ast.Assign) and not (isinstance(a.value, ast.Call) and hasattr(prog.resolve_call(f, a.value), "params")):
                            slice_(a.value, d, depth + 1, seen)
        slice_(arg, nid)
        for x, at in reads:
            n2 += 1
            base = x.value.id
            ds = [d for d in flow.defs_reaching(base, at)]
            from_calendar = bool(ds) and all(
                d != ENTRY and isinstance(cfg.nodes[d].ast, ast.Assign) and isinstance(cfg.nodes[d].ast.value, ast.Call)
                and getattr(prog.resolve_call(f, cfg.nodes[d].ast.value), "name", "") == "compute_crop_calendar" for d in ds)
            construct = f"{norm(x)} in the day offset of the derived harvest date"
            if from_calendar:
                chk.ok("C07.n", where, construct, "days to maturity of the calendar computed for this window (result of compute_crop_calendar)")
            else:
                chk.violation("C07.n", where, construct, f"the offset of the derived latest harvest date reads `{norm(x)}` from an object that is not the calendar computed for this "
                              "window: the tabulated days to maturity of a thermal-time crop are nominal - the season is harvested before the crop is mature", loc=f.loc(x))
    chk.floor("C07.n", n2, 1, "days-to-maturity reads in the offset of the derived harvest date")


def rule_i(chk, prog):
    """C07.i (the termination test sees the clock of the day just simulated): in _perform_timestep the daily solution, the termination test and
    the clock update are called in this order on every path - each call dominates the next and none is reachable again from a later one.
    Evaluated after the update, `step_end_time` is already the next day's: a run stopped by its end date ends a day early."""
    pt = prog.func("aquacrop.core:AquaCropModel._perform_timestep")
    flow = flow_of(pt)
    cfg = flow.cfg
    where = f"{pt.module}:{pt.qualname}"
    sites = {}
    for c, t in prog.calls_in(pt):
        nm = getattr(t, "name", None)
        if nm in ("solution_single_time_step", "check_model_is_finished", "update_time"):
            node = cfg.node_containing(c)
            if node is None:
                raise AnalysisError(f"_perform_timestep: call of {nm} not in the CFG")
            sites.setdefault(nm, []).append(node.id)
    for nm in ("solution_single_time_step", "check_model_is_finished", "update_time"):
        if len(sites.get(nm, [])) != 1:
            raise AnalysisError(f"_perform_timestep: expected exactly one call of {nm}, found {len(sites.get(nm, []))}")
    chk.fn(pt.key)
    dom = cfg.dominators()
    order = ["solution_single_time_step", "check_model_is_finished", "update_time"]
    for a, b in zip(order, order[1:]):
        na, nb = sites[a][0], sites[b][0]
        construct = f"{a}(...) before {b}(...)"
        if na in dom[nb] and na != nb and not cfg.paths_exist_avoiding(nb, na, set()):
            chk.ok("C07.i", where, construct, "the first call dominates the second and is not reachable from it")
        else:
            chk.violation("C07.i", where, construct, f"{b} can run before {a} (or again after it): the termination test must read the clock of the day just "
                          "simulated, before update_time advances it - otherwise a run that is stopped by its end date ends one day early", loc=pt.loc(cfg.nodes[nb].ast))
    # the termination test reads the clock through the same object the update then advances (not a stale copy)
    chk_call = cfg.nodes[sites["check_model_is_finished"][0]].ast
    reads = {norm(a) for a in ast.walk(chk_call) if isinstance(a, ast.Attribute) and a.attr in ("step_end_time", "simulation_end_date")}
    if len(reads) >= 2:
        chk.ok("C07.i", where, "check_model_is_finished(step_end_time, simulation_end_date, ...)", "reads the clock's step end and the end date")
    else:
        chk.violation("C07.i", where, "check_model_is_finished(...)", "the termination test no longer reads the clock's step_end_time and simulation_end_date", loc=pt.loc(chk_call))


def rule_j(chk, prog):
    """C07.j (every scheduled season is started - sibling rule): update_time asks "is there a season after the current one?" in both of its
    branches (the jump after a harvest, and the day-by-day advance used with off-season simulation and before the first planting date);
    both tests have the normal form `season_counter < n_seasons - 1` over the clock's current season counter (locals substituted). A test
    on `season_counter + 1` is off by one: the last scheduled season is never planted on the day-by-day path."""
    from ..symb import Sym
    from .. import affine as A
    up = prog.func(UPDATE_FN)
    chk.fn(up.key)
    sym = Sym(prog, up)
    cfg = sym.cfg
    forms = []
    for n in cfg.live_nodes():
        c = n.ast
        if n.kind != "test" or not (isinstance(c, ast.Compare) and len(c.ops) == 1 and isinstance(c.ops[0], (ast.Lt, ast.LtE, ast.Gt, ast.GtE))):
            continue
        if not any(isinstance(x, ast.Attribute) and x.attr == "n_seasons" for x in ast.walk(c)):
            continue
        st = sym.state_in.get(n.id)
        if st is None:
            continue
        l, r = sym.nf(c.left, st), sym.nf(c.comparators[0], st)
        op = c.ops[0]
        if isinstance(op, (ast.Gt, ast.GtE)):
            l, r = r, l
        diff = A.add(l, r, -1)          # l - r  (< or <= 0)
        forms.append((n, A.text(diff), "<" if isinstance(op, (ast.Lt, ast.Gt)) else "<="))
    texts = {(t, o) for _, t, o in forms}
    where = UPDATE_FN
    for n, t, o in forms:
        construct = f"{norm(n.ast)}  [{t} {o} 0]"
        ok = o == "<" and "season_counter" in t and "n_seasons" in t and _affine_is(t, {"season_counter": 1, "n_seasons": -1}, 1)
        if ok:
            chk.ok("C07.j", where, construct, "season_counter < n_seasons - 1 on the clock's current counter")
        else:
            chk.violation("C07.j", where, construct, "this 'another season follows' test is not `season_counter < n_seasons - 1` on the current season counter: "
                          "off by one, the last scheduled season is never started on this path (or a season beyond the schedule is looked up)", loc=prog.func(UPDATE_FN).loc(n.ast))
    if len(texts) > 1:
        chk.violation("C07.j", where, "sibling 'another season follows' tests", f"the branches of update_time disagree: {sorted(texts)}", loc=prog.func(UPDATE_FN).loc())
    chk.floor("C07.j", len(forms), 2, "tests of the season counter against the number of seasons in update_time")


def _provenance(f, flow, e, nid, depth=0, seen=None):
    """names of the date inputs an expression is computed from, through the locals' reaching definitions"""
    seen = set() if seen is None else seen
    out = set()
    for x in ast.walk(e):
        if isinstance(x, ast.Attribute) and x.attr in ("planting_date", "planting_dates"):
            out.add("PLANT")
        elif isinstance(x, ast.Attribute) and x.attr in ("harvest_date", "harvest_dates"):
            out.add("HARVEST")
        elif isinstance(x, ast.Attribute) and x.attr == "simulation_end_date":
            out.add("END")
        elif isinstance(x, ast.Attribute) and x.attr == "simulation_start_date":
            out.add("START")
        elif isinstance(x, ast.Name) and isinstance(x.ctx, ast.Load) and nid is not None and depth < 6:
            for d in flow.defs_reaching(x.id, nid):
                if d == ENTRY or (x.id, d) in seen:
                    continue
                seen.add((x.id, d))
                a = flow.cfg.nodes[d].ast
                v = getattr(a, "value", None)
                if isinstance(a, (ast.Assign, ast.AnnAssign, ast.AugAssign)) and v is not None:
                    out |= _provenance(f, flow, v, d, depth + 1, seen)
    return out


def rule_k(chk, prog):
    """C07.k (seasons begin on the planting day of consecutive years, and the run ends on the day before the end date): for a crop whose season lies
    within a calendar year, read_model_parameters drops the last calendar year of the window from the schedule when no season starts in it. The
    statement that takes one off the last year must be controlled by a comparison of the END date (month/day) with the PLANTING date - not with the
    start date or the harvest date - and it must execute exactly when end <= planting: the end date itself is not simulated, so a planting day equal
    to the end date starts nothing. The test is resolved through single-definition locals and negations."""
    f = prog.find_func("read_model_parameters")
    flow = flow_of(f)
    where = f"{f.module}:{f.qualname}"
    chk.fn(f.key)
    parents = {}
    for n in ast.walk(f.node):
        for c in ast.iter_child_nodes(n):
            parents[id(c)] = n
    # locals of the function that hold the two dates of the window
    alias = {}
    for n in walk_no_nested(f.node):
        if isinstance(n, ast.Assign) and len(n.targets) == 1 and isinstance(n.targets[0], ast.Name) and isinstance(n.value, ast.Attribute) \
                and n.value.attr in ("simulation_end_date", "simulation_start_date"):
            alias[n.targets[0].id] = "END" if n.value.attr == "simulation_end_date" else "START"

    def prov(e, nid):
        out = _provenance(f, flow, e, nid)
        for x in ast.walk(e):
            if isinstance(x, ast.Name) and x.id in alias:
                out.add(alias[x.id])
        # locals defined from the aliases
        return out

    def prov_deep(e, nid, seen=None, depth=0):
        seen = set() if seen is None else seen
        out = prov(e, nid)
        if depth < 6 and nid is not None:
            for x in ast.walk(e):
                if isinstance(x, ast.Name) and isinstance(x.ctx, ast.Load) and x.id not in alias:
                    for d in flow.defs_reaching(x.id, nid):
                        if d == ENTRY or (x.id, d) in seen:
                            continue
                        seen.add((x.id, d))
                        a = flow.cfg.nodes[d].ast
                        v = getattr(a, "value", None)
                        if isinstance(a, (ast.Assign, ast.AnnAssign, ast.AugAssign)) and v is not None:
                            out |= prov_deep(v, d, seen, depth + 1)
        return out

    sites = 0
    for n in walk_no_nested(f.node):
        # `T = T - 1` / `T -= 1` on a year taken from the end date
        tgt = None
        if isinstance(n, ast.AugAssign) and isinstance(n.op, ast.Sub) and isinstance(n.value, ast.Constant) and n.value.value == 1:
            tgt = n.target
        elif isinstance(n, ast.Assign) and len(n.targets) == 1 and isinstance(n.value, ast.BinOp) and isinstance(n.value.op, ast.Sub) \
                and isinstance(n.value.right, ast.Constant) and n.value.right.value == 1 and norm(n.value.left) == norm(n.targets[0]):
            tgt = n.targets[0]
        if tgt is None:
            continue
        nid = flow.stmt_node.get(id(n))
        base = tgt
        while isinstance(base, ast.Subscript):
            base = base.value
        load = ast.Name(id=base.id, ctx=ast.Load()) if isinstance(base, ast.Name) else None
        if load is None or nid is None:
            continue
        # provenance of the decremented variable: its reaching definitions
        pv = set()
        for d in flow.defs_reaching(load.id, nid):
            if d == ENTRY:
                continue
            a = flow.cfg.nodes[d].ast
            v = getattr(a, "value", None)
            if v is not None:
                pv |= prov_deep(v, d)
        if "END" not in pv:
            continue
        sites += 1
        construct = norm(n)
        # the controlling test
        child, par = n, parents.get(id(n))
        while par is not None and not isinstance(par, ast.If):
            child, par = par, parents.get(id(par))
        if par is None:
            chk.violation("C07.k", where, construct, "the last year of the window is dropped unconditionally", loc=f.loc(n))
            continue
        positive = any(child is x for x in par.body)
        test, tnid = par.test, flow.node_of(par.test)
        for _ in range(6):
            if isinstance(test, ast.UnaryOp) and isinstance(test.op, ast.Not):
                test, positive = test.operand, not positive
            elif isinstance(test, ast.Name) and (tnid is not None or flow.node_of(test) is not None):
                tnid = tnid if tnid is not None else flow.node_of(test)
                ds = [d for d in flow.defs_reaching(test.id, tnid) if d != ENTRY]
                a = flow.cfg.nodes[ds[0]].ast if len(ds) == 1 else None
                if isinstance(a, ast.Assign):
                    test, tnid = a.value, ds[0]
                else:
                    break
            else:
                break
        if not (isinstance(test, ast.Compare) and len(test.ops) == 1 and isinstance(test.ops[0], (ast.Lt, ast.LtE, ast.Gt, ast.GtE))):
            chk.violation("C07.k", where, construct, f"the test that drops the last year (`{norm(par.test)}`) does not resolve to one ordering comparison of two dates", loc=f.loc(par))
            continue
        lp, rp = prov_deep(test.left, tnid), prov_deep(test.comparators[0], tnid)
        op = type(test.ops[0])
        if not positive:
            op = {ast.Lt: ast.GtE, ast.LtE: ast.Gt, ast.Gt: ast.LtE, ast.GtE: ast.Lt}[op]
        if "PLANT" in lp and "END" in rp and "END" not in lp:
            lp, rp = rp, lp
            op = {ast.Lt: ast.Gt, ast.LtE: ast.GtE, ast.Gt: ast.Lt, ast.GtE: ast.LtE}[op]
        sym = {ast.Lt: "<", ast.LtE: "<=", ast.Gt: ">", ast.GtE: ">="}[op]
        detail = f"{construct}  [executes when ({'/'.join(sorted(lp)) or '?'}) {sym} ({'/'.join(sorted(rp)) or '?'}); test `{norm(test)}`]"
        if lp == {"END"} and rp == {"PLANT"} and op is ast.LtE:
            chk.ok("C07.k", where, detail, "the last calendar year is dropped exactly when the end date (month/day) is on or before the planting day")
        elif lp == {"END"} and rp == {"PLANT"}:
            chk.violation("C07.k", where, detail, "the last calendar year must be dropped exactly when end <= planting day (the end date itself is not simulated): with this "
                          "ordering a season is scheduled on a planting day the run never reaches, or the season of a planting day inside the window is never started", loc=f.loc(par))
        else:
            chk.violation("C07.k", where, detail, "the test that drops the last calendar year does not compare the end date with the planting date: whether a season starts in the "
                          "last year depends on the planting day alone (a run that does not start on the planting day schedules a season beyond the end date, or loses one inside it)", loc=f.loc(par))
    chk.floor("C07.k", sites, 1, "statements of read_model_parameters that drop the last calendar year of the window")


def rule_o(chk, prog):
    """C07.o (seasons begin on the planting day of consecutive years - the season that lasts a whole year): read_model_parameters decides
    from the month/day of the planting and of the latest harvest date whether a season lies within one calendar year (harvest year =
    planting year) or runs over New Year (harvest year = planting year + 1). A latest harvest date on the planting day itself is the end of a
    season that lasts a full year: the single-year branch - the one that makes the harvest years equal to the planting years - is taken
    exactly when planting < harvest, strictly. The test is resolved through single-definition locals and negations, its sides by provenance."""
    f = prog.find_func("read_model_parameters")
    flow = flow_of(f)
    cfg = flow.cfg
    where = f"{f.module}:{f.qualname}"
    chk.fn(f.key)
    parents = {}
    for n in ast.walk(f.node):
        for c in ast.iter_child_nodes(n):
            parents[id(c)] = n
    n_sites = 0
    for a in walk_no_nested(f.node):
        # the single-year branch: `<harvest years> = <plant years>` (a plain copy of one list name to another)
        if not (isinstance(a, ast.Assign) and len(a.targets) == 1 and isinstance(a.targets[0], ast.Name) and isinstance(a.value, ast.Name)
                and "harvest" in a.targets[0].id.lower() and "plant" in a.value.id.lower()):
            continue
        child, par = a, parents.get(id(a))
        while par is not None and not isinstance(par, ast.If):
            child, par = par, parents.get(id(par))
        if par is None:
            continue
        n_sites += 1
        positive = any(child is x for x in par.body)
        test, tnid = par.test, flow.node_of(par.test)
        for _ in range(6):
            if isinstance(test, ast.UnaryOp) and isinstance(test.op, ast.Not):
                test, positive = test.operand, not positive
            elif isinstance(test, ast.Name) and (tnid is not None or flow.node_of(test) is not None):
                tnid = tnid if tnid is not None else flow.node_of(test)
                ds = [d for d in flow.defs_reaching(test.id, tnid) if d != ENTRY]
                b = cfg.nodes[ds[0]].ast if len(ds) == 1 else None
                if isinstance(b, ast.Assign):
                    test, tnid = b.value, ds[0]
                else:
                    break
            else:
                break
        construct = f"{norm(a)} under `{norm(par.test)[:60]}`"
        if not (isinstance(test, ast.Compare) and len(test.ops) == 1 and type(test.ops[0]) in (ast.Lt, ast.LtE, ast.Gt, ast.GtE)):
            chk.violation("C07.o", where, construct, "the test that classifies the season does not resolve to one ordering comparison of two dates", loc=f.loc(par))
            continue
        lp, rp = _provenance(f, flow, test.left, tnid), _provenance(f, flow, test.comparators[0], tnid)
        op = type(test.ops[0])
        if not positive:
            op = {ast.Lt: ast.GtE, ast.LtE: ast.Gt, ast.Gt: ast.LtE, ast.GtE: ast.Lt}[op]
        if lp == {"HARVEST"} and rp == {"PLANT"}:
            lp, rp = rp, lp
            op = {ast.Lt: ast.Gt, ast.LtE: ast.GtE, ast.Gt: ast.Lt, ast.GtE: ast.LtE}[op]
        sym = {ast.Lt: "<", ast.LtE: "<=", ast.Gt: ">", ast.GtE: ">="}[op]
        detail = f"{construct}  [single-year branch taken when ({'/'.join(sorted(lp)) or '?'}) {sym} ({'/'.join(sorted(rp)) or '?'})]"
        if lp == {"PLANT"} and rp == {"HARVEST"} and op is ast.Lt:
            chk.ok("C07.o", where, detail, "within one calendar year exactly when the planting day lies strictly before the latest harvest day")
        elif lp == {"PLANT"} and rp == {"HARVEST"}:
            chk.violation("C07.o", where, detail, "a latest harvest date on the planting day itself (a season of a full year) is classified as lying within one calendar "
                          "year: every season's latest harvest date coincides with its own planting date and no day is a growing day", loc=f.loc(par))
        else:
            chk.violation("C07.o", where, detail, "the classification does not compare the planting day with the latest harvest day", loc=f.loc(par))
    chk.floor("C07.o", n_sites, 1, "single-year branches (harvest years = planting years) in read_model_parameters")


def rule_p(chk, prog):
    """C07.p (seasons begin on the planting day; days after planting count from it): update_time decides "the upcoming day starts a new
    season" by comparing the clock's step start time with the next planting date. In the day-by-day branch that comparison is made on the
    NEW day: it is dominated by the store that advances `step_start_time` in the same call. Evaluated before the clock is advanced it sees
    the day just simulated - the planting day itself then runs as a fallow day and every such season starts a day late."""
    up = prog.func(UPDATE_FN)
    flow = flow_of(up)
    cfg = flow.cfg
    dom = cfg.dominators()
    where = UPDATE_FN
    chk.fn(up.key)
    stores_ = [k.id for k in cfg.live_nodes() if isinstance(k.ast, ast.Assign) and isinstance(k.ast.targets[0], ast.Attribute) and k.ast.targets[0].attr == "step_start_time"]
    n = 0
    for c in walk_no_nested(up.node):
        if not (isinstance(c, ast.Compare) and any(isinstance(x, ast.Attribute) and x.attr == "step_start_time" for x in ast.walk(c))
                and any(isinstance(x, ast.Attribute) and x.attr == "planting_dates" for x in ast.walk(c))):
            continue
        at = flow.node_of(c)
        if at is None:
            continue
        n += 1
        construct = norm(c)[:90]
        if any(s_ in dom.get(at, set()) for s_ in stores_):
            chk.ok("C07.p", where, construct, "read after the clock has been advanced to the upcoming day")
        else:
            chk.violation("C07.p", where, construct, "the step start time is compared with the next planting date before the clock is advanced: it is the day just simulated - the "
                          "planting day runs as a fallow day and the season starts a day late (dap 1 on planting date + 1)", loc=up.loc(c))
    chk.floor("C07.p", n, 1, "comparisons of the step start time with the next planting date in update_time")


def _affine_is(text: str, coefs, const) -> bool:
    """does the printed normal form consist of exactly the given atoms (by suffix) with these integer coefficients plus the constant?"""
    import re
    terms = [t.strip() for t in text.replace("- ", "+ -").split("+") if t.strip()]
    got, c0 = {}, 0
    for t in terms:
        m = re.match(r"^(-?\d+(?:\.\d+)?)\*(.+)$", t)
        if m:
            k, name = float(m.group(1)), m.group(2)
        elif re.match(r"^-?\d+(?:\.\d+)?$", t):
            c0 += float(t); continue
        elif t.startswith("-"):
            k, name = -1.0, t[1:]
        else:
            k, name = 1.0, t
        key = next((a for a in coefs if name.strip().endswith(a)), None)
        if key is None:
            return False
        got[key] = got.get(key, 0) + k
    return all(abs(got.get(a, 0) - v) < 1e-9 for a, v in coefs.items()) and abs(c0 - const) < 1e-9


def run(chk, prog, tier):
    rule_a(chk, prog)
    rule_b(chk, prog)
    rule_c(chk, prog)
    rule_d(chk, prog)
    rule_e(chk, prog)
    rule_f(chk, prog)
    rule_g(chk, prog)
    rule_h(chk, prog)
    rule_i(chk, prog)
    rule_j(chk, prog)
    rule_k(chk, prog)
    rule_o(chk, prog)
    rule_p(chk, prog)
    season_flag_guards(chk, prog, "C07.l")
    from ._loops import loop_variants
    chk.floor("C07.m", loop_variants(chk, prog, "C07.m"), 18, "while loops of the package classified by their reason to stop")
    chk.exhaustive = True
